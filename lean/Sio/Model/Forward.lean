/-
  K11 — the delegating helper methods of the class-based namespace classes (`namespace.py`,
  `async_namespace.py`, `base_namespace.py`).

  A `Row` is what the translator (`harness/translate_forward.py`) reads off the source of one helper
  method: its parameters, the method of `self.server` / `self.client` it calls, that method's
  parameters, and for each actual argument of the call the binder (position or keyword) and the
  expression, classified as `param p | nsOrSelf | const c | opaque src`.  The table of all rows is
  regenerated on every run (`Sio/Generated/Forward.lean`).

  `Faithful row` is the (decidable) syntactic condition the property asks for, `eval row env` is
  what the call does for ANY values of the helper's parameters (parametric in the value type), and
  `expected row env` is what the property says it must do.  Core Lean only.
-/
import Sio.Model.Json
namespace Sio.Forward

structure Param where
  name : Str
  hasDefault : Bool
  deriving DecidableEq, Repr, Inhabited

/-- how an actual argument is attached at the call site -/
inductive Binder where
  | pos (i : Nat)
  | kw (name : Str)
  | starArgs
  | starKwargs
  deriving DecidableEq, Repr, Inhabited

inductive Expr where
  /-- a bare name that is a parameter of the helper -/
  | param (p : Str)
  /-- exactly `namespace or self.namespace` -/
  | nsOrSelf
  /-- a literal, by its source text -/
  | const (src : Str)
  /-- anything the translator does not recognise -/
  | opaque (src : Str)
  deriving DecidableEq, Repr, Inhabited

structure Row where
  cls : Str
  helper : Str
  /-- `async def` -/
  isAsync : Bool
  /-- parameters after `self` -/
  params : List Param
  /-- the helper has `*args`, `**kwargs`, keyword-only / positional-only parameters or decorators -/
  exotic : Bool
  /-- the body is `[docstring] (return)? (await)? self.<targetObj>.<targetMethod>(…)` -/
  bodyOk : Bool
  /-- the statement is a `return` -/
  returned : Bool
  /-- the call is awaited -/
  awaited : Bool
  targetObj : Str
  targetMethod : Str
  /-- the called method exists on the class this namespace class is registered with -/
  targetFound : Bool
  targetAsync : Bool
  targetParams : List Param
  targetExotic : Bool
  call : List (Binder × Expr)
  deriving DecidableEq, Repr, Inhabited

def nsName : Str := ['n', 'a', 'm', 'e', 's', 'p', 'a', 'c', 'e']

def sNamespace : Str := ['N', 'a', 'm', 'e', 's', 'p', 'a', 'c', 'e']
def sAsyncNamespace : Str := ['A', 's', 'y', 'n', 'c'] ++ sNamespace
def sClientNamespace : Str := ['C', 'l', 'i', 'e', 'n', 't'] ++ sNamespace
def sAsyncClientNamespace : Str := ['A', 's', 'y', 'n', 'c'] ++ sClientNamespace
def sServer : Str := ['s', 'e', 'r', 'v', 'e', 'r']
def sClient : Str := ['c', 'l', 'i', 'e', 'n', 't']

/-- the attribute that holds the object the namespace is registered with
    (`_set_server` / `_set_client`, `base_namespace.py`) -/
def peerOf (cls : Str) : Option Str :=
  if cls = sNamespace ∨ cls = sAsyncNamespace then some sServer
  else if cls = sClientNamespace ∨ cls = sAsyncClientNamespace then some sClient
  else none

def Row.paramNames (r : Row) : List Str := r.params.map (·.name)
def Row.targetNames (r : Row) : List Str := r.targetParams.map (·.name)

/-- association-list assoc (first match) -/
def assoc {β : Type} (k : Str) : List (Str × β) → Option β
  | [] => none
  | (k', v) :: rest => if k' = k then some v else assoc k rest

def nodup : List Str → Bool
  | [] => true
  | x :: xs => !xs.contains x && nodup xs

/-- the target parameter a binder attaches to (Python's binding of a call to a signature) -/
def bindName (tnames : List Str) : Binder → Option Str
  | .pos i => tnames[i]?
  | .kw n => if tnames.contains n then some n else none
  | .starArgs => none
  | .starKwargs => none

def resolveCall (tnames : List Str) : List (Binder × Expr) → Option (List (Str × Expr))
  | [] => some []
  | (b, e) :: rest =>
    match bindName tnames b, resolveCall tnames rest with
    | some n, some r => some ((n, e) :: r)
    | _, _ => none

/-- what the property wants bound to target parameter `tp`: the helper's parameter of the same name
    (`namespace or self.namespace` for the namespace), nothing if the helper has no such parameter -/
def wanted (pnames : List Str) (tp : Str) : Option Expr :=
  if pnames.contains tp then some (if tp = nsName then .nsOrSelf else .param tp) else none

/-- the checks on the shape of the row that do not concern individual arguments -/
def Row.shapeOk (r : Row) : Bool :=
  r.bodyOk && !r.exotic && r.targetFound && !r.targetExotic
  && nodup r.paramNames && nodup r.targetNames

/-- "the result is passed back unchanged": the call is returned, and awaited exactly when both the
    helper and the target are coroutines -/
def Row.resultPassedBack (r : Row) : Bool :=
  r.returned && (r.awaited == (r.isAsync && r.targetAsync))

/-- the bindings are usable at all: no target parameter bound twice, every required one bound
    (otherwise Python raises `TypeError`) -/
def bindingsOk (r : Row) (b : List (Str × Expr)) : Bool :=
  nodup (b.map (·.1)) &&
  r.targetParams.all (fun tp => tp.hasDefault || (assoc tp.name b).isSome)

/-- "positionally … reaches the same-named parameter": the parameters the helper shares with the
    target come in the target's (documented) relative order, so a caller who passes arguments by
    position in the order of `Server.emit` / `Client.emit` … has them bound to the same names by
    the helper.  Parameters only one side has (the vestigial `room` of `ClientNamespace.send`,
    `ignore_queue` of `Server.disconnect`) are skipped. -/
def Row.orderOk (r : Row) : Bool :=
  r.paramNames.filter (fun p => r.targetNames.contains p)
    == r.targetNames.filter (fun p => r.paramNames.contains p)

/-- The property, as a condition on the row:
    * the helper's parameters are in the target's order (`orderOk`);
    * the target is the same-named method of `self.server` / `self.client`;
    * (A) every argument of the call is the helper's parameter OF THE SAME NAME as the target
      parameter it is bound to, by keyword or by the right position — `namespace or self.namespace`
      for `namespace`; so nothing is `opaque`, no `const`, nothing renamed or swapped;
    * (B) every parameter of the helper that the target also has is bound — nothing is dropped; a
      `namespace` parameter must have a counterpart;
    * the result is returned. -/
def Faithful (r : Row) : Bool :=
  r.shapeOk
  && (peerOf r.cls == some r.targetObj) && (r.targetMethod == r.helper)
  && r.resultPassedBack
  && (!r.paramNames.contains nsName || r.targetNames.contains nsName)
  && r.orderOk
  && match resolveCall r.targetNames r.call with
     | none => false
     | some b =>
       bindingsOk r b
       && b.all (fun ne => wanted r.paramNames ne.1 == some ne.2)                         -- (A)
       && r.targetNames.all (fun tp => !r.paramNames.contains tp || (assoc tp b).isSome)  -- (B)

/-! ### semantics, for any value type -/

structure Env (α : Type) where
  /-- the value of each parameter of the helper inside its body (given by the caller, positionally
      or by keyword, or the helper's default) -/
  val : Str → α
  /-- `self.namespace` -/
  selfNs : α
  /-- Python truthiness -/
  truthy : α → Bool
  /-- the value of a literal, by its source text -/
  const : Str → α

/-- the call that reaches the server / client object -/
structure Call (α : Type) where
  obj : Str
  method : Str
  /-- bound arguments by target parameter name, in the target's parameter order; a parameter that
      does not occur keeps the target's own default -/
  args : List (Str × α)
  resultPassedBack : Bool
  deriving DecidableEq, Repr

/-- `namespace or self.namespace` -/
def nsOr {α : Type} (env : Env α) : α :=
  if env.truthy (env.val nsName) then env.val nsName else env.selfNs

def evalExpr {α : Type} (env : Env α) (pnames : List Str) : Expr → Option α
  | .param p => if pnames.contains p then some (env.val p) else none      -- else: NameError
  | .nsOrSelf => if pnames.contains nsName then some (nsOr env) else none
  | .const c => some (env.const c)
  | .opaque _ => none

/-- What the helper does; `none` = the model cannot tell (unrecognised shape / expression) or the
    call cannot be bound (`TypeError`). -/
def eval {α : Type} (r : Row) (env : Env α) : Option (Call α) :=
  if !r.shapeOk then none else
  match resolveCall r.targetNames r.call with
  | none => none
  | some b =>
    if !bindingsOk r b then none
    else if !b.all (fun ne => (evalExpr env r.paramNames ne.2).isSome) then none
    else some {
      obj := r.targetObj
      method := r.targetMethod
      args := r.targetNames.filterMap (fun tp =>
        match assoc tp b with
        | none => none
        | some e => (evalExpr env r.paramNames e).map (fun v => (tp, v)))
      resultPassedBack := r.resultPassedBack }

/-- What the property requires: the same-named method of the peer object; every parameter the helper
    shares with it receives the helper's value unchanged, `namespace` receives
    `namespace or self.namespace`, every other target parameter is left alone; the result comes back. -/
def expected {α : Type} (r : Row) (env : Env α) : Option (Call α) :=
  match peerOf r.cls with
  | none => none
  | some peer => some {
      obj := peer
      method := r.helper
      args := r.targetNames.filterMap (fun tp =>
        if r.paramNames.contains tp then some (tp, if tp = nsName then nsOr env else env.val tp)
        else none)
      resultPassedBack := true }

/-! ### sync / asyncio twins -/

/-- the call of a row with the binders normalised: every argument by keyword, in the target's
    parameter order (so that passing an argument by position or by keyword, or reordering keyword
    arguments, is not a difference); a call that cannot be resolved is kept as it is -/
def Row.normCall (r : Row) : List (Binder × Expr) :=
  match resolveCall r.targetNames r.call with
  | none => r.call
  | some b =>
    if nodup (b.map (·.1)) then
      r.targetNames.filterMap (fun tp => (assoc tp b).map (fun e => (Binder.kw tp, e)))
    else r.call

/-- a row with everything that legitimately differs between the threaded and the asyncio class
    erased: the class name, `async def`, `await`, whether the target is a coroutine, and the
    position-versus-keyword style of the call -/
def Row.modAwait (r : Row) : Row :=
  { r with cls := [], isAsync := false, awaited := false, targetAsync := false, call := r.normCall }

/-- the one allowed difference: `ClientNamespace.send` has a vestigial `room` parameter that
    `Client.send` does not have (outside the property's claim) -/
def dropVestigial (r : Row) : Row :=
  if r.cls = sClientNamespace ∧ r.helper = ['s', 'e', 'n', 'd'] ∧ ¬ r.targetNames.contains ['r', 'o', 'o', 'm']
  then { r with params := r.params.filter (fun p => p.name ≠ ['r', 'o', 'o', 'm']) } else r

def rowsOf (t : List Row) (cls : Str) : List Row := t.filter (fun r => r.cls = cls)

def syncAsyncEqual (t : List Row) : Bool :=
  ((rowsOf t sNamespace).map Row.modAwait == (rowsOf t sAsyncNamespace).map Row.modAwait)
  && ((rowsOf t sClientNamespace).map (fun r => (dropVestigial r).modAwait)
        == (rowsOf t sAsyncClientNamespace).map Row.modAwait)

end Sio.Forward
