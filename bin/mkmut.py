"""Make mutation patches WITHOUT touching /repo: edits happen in a scratch worktree.
usage (python): from mkmut import mk; mk(name, path, old, new[, count])  -> /tmp/mut/<name>.diff"""
import os
import subprocess
import atexit

WT = '/tmp/wt-mk-%d' % os.getpid()
_made = False


def _ensure():
    global _made
    if not _made:
        subprocess.run(['git', '-C', '/repo', 'worktree', 'add', '-q', WT, 'HEAD'], check=True)
        _made = True
        atexit.register(lambda: subprocess.run(['git', '-C', '/repo', 'worktree', 'remove', '--force', WT]))


def mk(name, path, old, new, count=1, outdir='/tmp/mut'):
    _ensure()
    os.makedirs(outdir, exist_ok=True)
    f = os.path.join(WT, path)
    s = open(f).read()
    assert s.count(old) == count, (name, s.count(old))
    open(f, 'w').write(s.replace(old, new))
    d = subprocess.run(['git', '-C', WT, 'diff'], capture_output=True, text=True).stdout
    open(os.path.join(outdir, name + '.diff'), 'w').write(d)
    subprocess.run(['git', '-C', WT, 'checkout', '--', '.'], check=True)
    return os.path.join(outdir, name + '.diff')
