"""C05 — incoming events: one handler invocation, one matching ACK to the sender only (K4+K2)."""
from .. import common as C
from .. import server_sim as S
from .. import pycodec
from .. import gen as G
from .. import server_gen as SG

LEVEL = 'proof'

PROFILE = {
    'weights': {'event': 14, 'connect': 6, 'open': 2, 'emit': 1, 'emit_cb': 0, 'ack': 0, 'enter': 0, 'leave': 0,
                'close': 0, 'rooms': 0, 'api_disconnect': 1, 'client_disconnect': 2, 'lost': 1, 'partial_binary': 1,
                'register': 0},     # run-time registrations: switched on per case by `hook`
    'connect_outcomes': {'accept': 8, 'false': 1, 'refuse': 1, 'raise': 0},
    'asset_p': 0.5,      # handlers often return a value the application keeps (same object every time)
}


def oracle(cfg, trace, residue):
    return judge(cfg, trace)


def judge(cfg, trace, stats=None):
    """The statement, judged on the implementation's observations with the harness's own view of
    who is connected (from CONNECT / DISCONNECT packets seen on the wire).  `stats` (optional) receives what the
    case exercised."""
    fails = []
    stats = stats if stats is not None else {}
    acked_values = {}   # repr of a script return value -> number of ACKs that had to carry it so far
    conn = {}          # (tid, ns) -> sid
    pend = {}          # tid -> frames of a binary packet being sent
    nev = 0            # event-handler invocations so far (index into the script)
    start_cfg = cfg    # the script; `cfg` below is the configuration with the registries AS THEY ARE at each op
    gens = {}          # ('fn', ns, ev) / ('cls', ns) -> number of run-time registrations of that key so far
    last_resp = {}     # (ns, event) -> (slot, generation) responsible when that event was last handled
    for op, im, _mo in trace:
        before = dict(conn)
        if op['op'] == 'register':
            cfg = S.registry_after(cfg, op)
            for f in op.get('fn', []):
                gens[('fn', f[0], f[1])] = gens.get(('fn', f[0], f[1]), 0) + 1
            for c in op.get('cls', []):
                gens[('cls', c[0])] = gens.get(('cls', c[0]), 0) + 1
            stats['handlers_registered_while_the_server_runs'] = stats.get('handlers_registered_while_the_server_runs', 0) + 1
            if im['exc']:
                fails.append((None, 'registering a handler raised %s: %r' % (im['exc'], op)))
        for slot, gen in im.get('handler_gens', []):
            key = tuple(slot) if slot[0] == 'fn' else ('cls', slot[1])
            if gen != gens.get(key, 0):
                fails.append((None, 'while handling %r the handler invoked for %r is registration #%d of that key, '
                                    'the one in place is #%d: a handler that has been replaced was invoked'
                              % (S._brief(op), slot, gen, gens.get(key, 0))))
        if im.get('app_modified'):
            # "the ACK carries the handler's return value": the value is the application's, the library may read it
            fails.append((None, 'while handling %r the library modified an object that belongs to the application: %s'
                          % (S._brief(op), '; '.join(im['app_modified']))))
        if im.get('escaped'):
            fails.append((None, 'an exception escaped from the server\'s engine.io callback / API while handling %r: %s'
                          % (S._brief(op), ', '.join(im['escaped']))))
        # learn connection state from the wire
        for tid, frames in im['sends'].items():
            for p in _decode(frames):
                if p['type'] == 'undecodable':
                    fails.append((None, 'what the server sent to %s while handling %r is not a sequence of well-formed '
                                        'packets: %r' % (tid, S._brief(op), frames)))
                elif p['type'] == 0:
                    conn[(tid, p['ns'])] = p['data']['sid']
                elif p['type'] == 1:
                    conn.pop((tid, p['ns']), None)
        if op['op'] == 'lost':
            for k in [k for k in conn if k[0] == op['t']]:
                del conn[k]
        if op['op'] == 'disconnect':
            for k in [k for k, v in conn.items() if v == op['sid'] and k[1] == op['ns']]:
                del conn[k]
        if op['op'] not in ('frame', 'frameval'):
            continue
        if not cfg['asyncHandlers'] and im.get('deferred'):
            fails.append((None, 'async_handlers is disabled but the handling of a client message was deferred to a background '
                                'task: one client\'s events are no longer handled in arrival order (%r)' % (op,)))
        t = op['t']
        fr = pend.get(t, []) + [op['text'] if op['op'] == 'frame' else op['v']]
        try:
            pk = pycodec.decode_stream(fr)
        except Exception:   # noqa
            pend.pop(t, None)
            continue
        if pk and pk[-1]['type'] == 'incomplete':
            pend[t] = fr
            if im['invokes'] or im['sends']:
                fails.append((None, 'handler or packet before the attachments are complete: %r' % (op,)))
            continue
        pend.pop(t, None)
        if not pk or pk[-1]['type'] not in (2, 5):
            if pk and pk[-1]['type'] == 1:
                conn.pop((t, pk[-1]['ns']), None)
            continue
        p = pk[-1]
        sid = before.get((t, p['ns']))
        evs = [i for i in im['invokes'] if i[0][2] not in ('connect', 'disconnect', 'on_connect', 'on_disconnect')]
        first_ev = nev
        nev += len(evs)
        if cfg['asyncHandlers']:
            continue     # judged at settle time by the correspondence only
        if sid is None:
            if evs or im['sends']:
                fails.append((None, 'event on a namespace the client is not connected to was handled: %r' % (op,)))
            continue
        if len(evs) > 1:
            fails.append((None, 'more than one handler invocation for one event: %r' % (evs,)))
        if isinstance(p['data'], list) and p['data'] and isinstance(p['data'][0], str) and \
                p['data'][0] not in ('connect', 'disconnect'):
            # the handler responsible for this event AT THIS MOMENT (the registries may have changed since the same
            # event was handled last)
            want = responsible_slot(cfg, p['ns'], p['data'][0])
            for slot, _args in evs:
                if want is None or tuple(slot) != want:
                    fails.append((None, 'the handler responsible for %r on %s is now %r, invoked was %r'
                                  % (p['data'][0], p['ns'], want, slot)))
            now = None if want is None else (want, gens.get(want if want[0] == 'fn' else ('cls', want[1]), 0))
            was = last_resp.get((p['ns'], p['data'][0]), 'never seen')
            if was != 'never seen' and was != now:
                key = ('events_whose_responsible_handler_changed_since_the_same_event_arrived_last' if was is not None
                       else 'events_nobody_was_responsible_for_when_they_arrived_last_and_somebody_is_now')
                stats[key] = stats.get(key, 0) + 1
            last_resp[(p['ns'], p['data'][0])] = now
            tgt = S.event_target(cfg, p['ns'], p['data'][0])
            if tgt in ('fn', 'cls') and not evs and not im['raised']:
                fails.append((None, 'with async_handlers disabled the event was not handled before the next message '
                                    'can be read (arrival order is no longer guaranteed): %r' % (op,)))
            if tgt is None and evs:
                fails.append((None, 'an event nobody is responsible for invoked %r' % (evs,)))
        for slot, args in evs:
            # sid followed by the event's arguments (possibly prefixed by event name / namespace)
            tail = list(p['data'][1:])
            pos = S.sid_position(slot)
            if len(args) <= pos or args[pos] != sid or not C.same(list(args[pos + 1:]), tail):
                fails.append((None, 'handler arguments are not sid + event arguments: %r for %r' % (args, p['data'])))
        acks = []
        for tid, frames in im['sends'].items():
            for q in _decode(frames):
                if q['type'] in (3, 6):
                    acks.append((tid, q))
                elif tid != t:
                    fails.append((None, 'an incoming event caused a packet to another client: %r' % (q,)))
        responsible = bool(evs) or _cls_responsible(cfg, p['ns'])
        if p['id'] is None or not responsible or im['handler_raised']:
            if acks:
                fails.append((None, 'unexpected ACK %r for %r' % (acks, op)))
        else:
            if len(acks) != 1 or acks[0][0] != t or acks[0][1]['id'] != p['id'] or acks[0][1]['ns'] != p['ns']:
                fails.append((None, 'expected exactly one ACK id=%r ns=%r to %s, saw %r' % (p['id'], p['ns'], t, acks)))
            elif evs:
                ret = start_cfg['onEvent'][first_ev]['ret'] if first_ev < len(start_cfg['onEvent']) else None
                want = [] if ret is None else (list(ret) if isinstance(ret, tuple) else [ret])
                if not C.same(_norm(acks[0][1]['data']), _norm(want)):
                    fails.append((None, 'ACK payload %r is not the handler\'s return value %r' % (acks[0][1]['data'], ret)))
                if (acks[0][1]['type'] == 6) != G.has_bytes(want):
                    fails.append((None, 'the ACK for return value %r is %s' % (
                        ret, 'not a binary ACK' if G.has_bytes(want) else 'a binary ACK although there are no bytes')))
                if im.get('handler_cancelled'):
                    stats['acks_after_cancelled_handler'] = stats.get('acks_after_cancelled_handler', 0) + 1
                if isinstance(ret, (list, dict, tuple)):
                    n = acked_values[repr(ret)] = acked_values.get(repr(ret), 0) + 1
                    if n >= 2:
                        # the application returned the very same object before (the harness keeps one per value)
                        stats['acks_of_value_returned_before'] = stats.get('acks_of_value_returned_before', 0) + 1
                        if S._nested_bytes(ret):
                            stats['binary_acks_of_value_returned_before'] = \
                                stats.get('binary_acks_of_value_returned_before', 0) + 1
    return fails


def responsible_slot(cfg, ns, ev):
    """documented precedence for an ordinary event, as the slot that has to run: function handlers ns/event, ns/*,
    */event, */* (an event literally named '*' only reaches catch-alls), then the class-based namespace of ns, then
    the catch-all one (None when its class has no such method: nothing is invoked)"""
    fns = [tuple(f) for f in cfg['fn']]
    for key in ([(ns, ev)] if ev != '*' else []) + [(ns, '*')] + ([('*', ev)] if ev != '*' else []) + [('*', '*')]:
        if key in fns:
            return ('fn',) + key
    for want_ns in (ns, '*'):
        for cns, ms in cfg['cls']:
            if cns == want_ns:
                return ('cls', cns, 'on_' + ev) if ('on_' + ev) in ms else None
    return None


def _decode(frames):
    """server -> client frames of one step, decoded by the independent codec; frames it cannot put together
    (placeholders without attachment, missing attachments ...) come back as one 'undecodable' pseudo packet"""
    try:
        return pycodec.decode_stream(frames)
    except Exception:   # noqa
        return [{'type': 'undecodable', 'ns': None, 'id': None, 'data': repr(frames)}]


def _norm(v):
    """JSON transport view of a value: tuples are lists"""
    if isinstance(v, (list, tuple)):
        return [_norm(x) for x in v]
    if isinstance(v, dict):
        return {k: _norm(x) for k, x in v.items()}
    return v


def _cls_responsible(cfg, ns):
    if any(f[0] in (ns, '*') for f in cfg['fn']) and False:
        return False
    return any(c[0] == ns for c in cfg['cls']) or any(c[0] == '*' for c in cfg['cls'])


def nontrivial(cfg, trace):
    k = 0
    stats = {}
    judge(cfg, trace, stats)
    for key, v in stats.items():
        _CTX[0].count(key, v)
    if stats.get('binary_acks_of_value_returned_before'):
        _CTX[0].count('cases_with_repeated_binary_ack_of_held_value')
    for op, im, _ in trace:
        if op['op'] in ('frame', 'frameval') and any(q for fr in im['sends'].values() for q in fr if isinstance(q, bytes)):
            k += 1
    evs = sum(1 for op, im, _ in trace if im['invokes'])
    if k >= 1 and evs >= 3:
        return hash(repr([o for o, _, _ in trace]))
    return None


_CTX = [None]


def hook(sc, cfg):
    """in half of the cases the application keeps registering handlers while the server runs: mostly a handler that
    takes over an event that has just been handled (the key itself — a replacement when it exists —, the namespace's
    catch-all, the catch-all namespace's handler for the event, the global catch-all), followed by the same event from
    the same client again"""
    rng = sc.rng
    sc.g_register = lambda: None
    if rng.random() < 0.5:
        return
    sc.weights['register'] = 5
    if rng.random() < 0.8:
        cfg['asyncHandlers'] = False        # judged by the oracle event by event (otherwise at settle time, by the model)
    recent = []
    base_event = sc.g_event

    def g_event():
        op = base_event()
        if op is not None and op['op'] == 'frame':
            try:
                p = pycodec.decode_text(op['text'])
                if p['type'] in (2, 5) and p['data'][0] in SG.EVENTS + ['*']:
                    recent.append((op['t'], p['ns'], p['data'][0]))
            except Exception:   # noqa
                pass
        return op

    reg = [cfg]               # the registries as they are now (generation guidance)
    methods = ['on_connect', 'on_disconnect', 'on_msg', 'on_echo', 'on_other']

    def g_register():
        again = None
        if not sc.conn and rng.random() < 0.9:
            return None
        live = [r for r in recent[-12:] if (r[0], r[1]) in sc.conn]
        op = None
        if live and rng.random() < 0.85:
            t, ns, ev = again = rng.choice(live[-6:])
            now = responsible_slot(reg[0], ns, ev)
            if (now is None or now[0] == 'cls') and rng.random() < 0.6:
                # a class-based namespace takes the event over (from nobody, from the catch-all namespace's object,
                # from the object registered for the namespace before)
                ms = set(rng.sample(methods, rng.randint(1, 4)))
                if rng.random() < 0.85:
                    ms.add('on_' + ev)
                op = {'op': 'register', 'fn': [], 'cls': [[rng.choice([ns, ns, '*']), sorted(ms)]]}
            keys = [rng.choice([[ns, ev], [ns, '*'], ['*', ev], ['*', '*']])]
        else:
            keys = [[rng.choice(['/', '/a', '/b', '*']), rng.choice(SG.EVENTS + ['*', '*', 'connect', 'disconnect'])]]
        if rng.random() < 0.25:
            keys.append([rng.choice(['/', '/a', '/b', '*']), rng.choice(SG.EVENTS + ['*'])])
        if op is None:
            op = {'op': 'register', 'fn': [k for i, k in enumerate(keys) if k not in keys[:i]], 'cls': []}
            if rng.random() < 0.12:
                op = {'op': 'register', 'fn': op['fn'] if rng.random() < 0.3 else [],
                      'cls': [[rng.choice(['/', '/a', '/b', '*']), sorted(rng.sample(methods, rng.randint(1, 5)))]]}
        reg[0] = S.registry_after(reg[0], op)
        if again and (again[0], again[1]) in sc.conn and rng.random() < 0.85:
            args = [G.gen_value(rng, 2, 0.2) for _ in range(rng.randint(0, 2))]
            frames = pycodec.encode(2, again[1], rng.choice([None, 1, 7, 12]), [again[2]] + args)
            sc.pending_frames = [{'op': 'frame', 't': again[0], 'text': f} if isinstance(f, str) else
                                 {'op': 'frameval', 't': again[0], 'v': f} for f in frames] + sc.pending_frames
        return op

    sc.g_event, sc.g_register = g_event, g_register


def run(ctx):
    _CTX[0] = ctx
    C.proof_step(ctx, ['engine.io delivers one transport\'s messages sequentially (assumed by the model; one overlapping schedule is explored on the real servers by c05_overlap, oracle only) and contains handler exceptions'])
    S.run_cases(ctx, PROFILE, ctx.scale(120, 2500), 40, oracle=oracle, nontrivial=nontrivial, gen_hook=hook)
    # an event that arrives while the same client's disconnect is in progress (asyncio, all release orders)
    from .. import sched_async
    sched_async.run_event_during_disconnect(ctx)
    # the next message of the same transport processed while the handler of a binary event is still running
    from . import c05_overlap
    c05_overlap.run(ctx)
    ctx.coverage['rule'] = ('generated scenarios (several clients/namespaces, function/catch-all/class handlers, ids None/0/equal '
                            'across clients/huge, binary arguments, handlers returning None/scalars/lists/dicts/tuples/bytes; the '
                            'application keeps ONE object per distinct return / emit value and hands the same object over every '
                            'time, checked unmodified after every step; coroutine handlers that end with asyncio.CancelledError '
                            'where the script says accept / return None / handled; in half of the cases the application '
                            'registers further function handlers / class-based namespaces while the server runs — new keys, '
                            'catch-alls that take over events already handled, replacements — and the same event is sent again: '
                            'the handler responsible at that moment must be the one invoked) run on '
                            'Server and AsyncServer and on the Lean model, compared op by op; oracle = statement of C05 on the wire '
                            '(one ACK, same id and namespace, to the sender only, binary iff the return value contains bytes, payload '
                            'equal to the return value). '
                            'non-trivial = scenario with >=3 handled events and >=1 binary ACK')


def replay(ctx, r):
    if isinstance(r.get('replay'), dict) and r['replay'].get('kernel') == 'sched_async':
        from .. import sched_async
        return sched_async.replay(ctx, r['replay'])
    oc = (r.get('replay') or {}).get('overlap') if isinstance(r.get('replay'), dict) else None
    oc = oc or r.get('overlap')
    if oc:
        from . import c05_overlap
        bad = c05_overlap.run_case(oc)
        print('overlapping-delivery case:', oc)
        print('oracle:', 'violations: %s' % bad if bad else 'holds')
        return 1 if bad else 0
    return S.replay_case(ctx, r, oracle=oracle)
