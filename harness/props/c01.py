"""C01 — packet codec round-trip and wire conformance (K1)."""
import json

from .. import common as C
from .. import gen as G

LEVEL = 'proof'


def P():
    from socketio import packet
    return packet


def gen_packet(rng):
    """Mostly well-formed packets over the property's quantifier; returns kwargs + wf flag."""
    t = rng.choice([0, 1, 2, 2, 2, 3, 3, 4, 5, 6])
    nsp = G.gen_namespace(rng)
    pid = G.gen_id(rng) if t in (2, 3, 5, 6) or rng.random() < 0.3 else None
    wf = True
    if t in (2, 5):
        args = [G.gen_value(rng, 3, 0.25) for _ in range(rng.randint(0, 3))]
        data = [G.gen_event_name(rng)] + args
    elif t in (3, 6):
        data = [G.gen_value(rng, 3, 0.25) for _ in range(rng.randint(0, 3))]
    elif t == 0:
        data = rng.choice([None, {}, {'token': 'abc'}, {'sid': '123'}]) if rng.random() < 0.7 else \
            G.gen_value(rng, 2, 0.1)
    elif t == 4:
        data = rng.choice([None, 'Unable to connect', {'message': 'm', 'data': [1, 2]}]) \
            if rng.random() < 0.7 else G.gen_value(rng, 2, 0.1)
    else:
        data = None if rng.random() < 0.8 else G.gen_value(rng, 1, 0.1)
    binary = None
    r = rng.random()
    if r < 0.06:
        binary = True
    elif r < 0.12:
        binary = False
    # domain boundary of the statement
    if isinstance(data, (int, float)) and not isinstance(data, bool):
        wf = False          # bare number at top level (DESIGN §5 C01)
    if binary is False and G.has_bytes(data):
        wf = False          # json.dumps of bytes -> TypeError
    if t in (5, 6) and binary is None and not G.has_bytes(data):
        pass                # explicit binary type without bytes: 0 attachments, still round-trips
    return dict(packet_type=t, data=data, namespace=nsp, id=pid, binary=binary), wf


def enc_op(kw):
    return {'op': 'enc', 'type': kw['packet_type'], 'nsp': C.os2w(kw['namespace']),
            'id': None if kw['id'] is None else str(kw['id']),
            'data': C.oj2w(kw['data'], kw['data'] is not None), 'binary': kw['binary']}


def spec_op(kw):
    o = enc_op(kw)
    o['op'] = 'spec_frame'
    return o


def real_encode(kw):
    pk = P()
    try:
        p = pk.Packet(**kw)
        e = p.encode()
    except Exception as ex:          # noqa
        return {'exc': type(ex).__name__}
    if isinstance(e, list):
        return {'type': p.packet_type, 'text': e[0], 'atts': e[1:]}
    return {'type': p.packet_type, 'text': e, 'atts': None}


def model_encode_view(ans):
    if 'exc' in ans:
        return {'exc': ans['exc']}
    return {'type': ans['type'], 'text': C.w2s(ans['text']),
            'atts': None if ans['atts'] is None else [bytes.fromhex(h) for h in ans['atts']]}


def real_decode(text, atts):
    """-> dict(pkt=(type, nsp, id, present, data), natt, answers) or {'exc':..}"""
    pk = P()
    try:
        p = pk.Packet(encoded_packet=text)
    except Exception as ex:      # noqa
        return {'exc': type(ex).__name__}
    answers = []
    for a in atts:
        try:
            answers.append(p.add_attachment(a))
        except Exception as ex:  # noqa
            answers.append({'exc': type(ex).__name__})
    return {'pkt': (p.packet_type, p.namespace, p.id, p.data), 'natt': p.attachment_count,
            'answers': answers}


def model_decode(drv, text, atts):
    cls = C.digit_table(text)
    h = drv.ask({'op': 'dechdr', 'text': C.s2w(text), 'cls': cls})
    loads = []
    if 'exc' not in h and h['rest']:
        rest = C.w2s(h['rest'])
        try:
            v = P().Packet.json.loads(rest)
            try:
                loads.append([h['rest'], C.j2w(v)])
            except TypeError:
                loads.append([h['rest'], {'exc': 'Exception'}])
            except C.Unrepresentable:
                return None
        except Exception as ex:  # noqa
            loads.append([h['rest'], {'exc': 'JSONDecodeError'}])
    r = drv.ask({'op': 'decfeed', 'text': C.s2w(text), 'cls': cls, 'loads': loads,
                 'atts': [a.hex() for a in atts]})
    if 'exc' in r:
        return {'exc': r['exc']}
    pk = r['pkt']
    present, data = C.ow2j(pk['data'])
    return {'pkt': (pk['type'], C.ow2s(pk['nsp']), None if pk['id'] is None else int(pk['id']), data),
            'natt': r['natt'],
            'answers': [a if isinstance(a, bool) else {'exc': a['exc']} for a in r['answers']]}


def spec_parse(drv, text, atts):
    """Spec.parse + Spec.fill on a frame -> dict(hdr=(type, nsp, id), natt, filled=(ok, data))."""
    # the JSON text is what follows the header; ask the spec parser with a table that maps every
    # suffix of the frame the real json.loads accepts (the parser picks the one its grammar yields)
    loads = []
    seen = set()
    for i in range(1, len(text)):
        rest = text[i:]
        if rest in seen or rest[0] not in '[{"tfn':
            continue
        seen.add(rest)
        try:
            loads.append([C.s2w(rest), C.j2w(P().Packet.json.loads(rest))])
        except C.Unrepresentable:
            return None
        except Exception:    # noqa
            pass
    r = drv.ask({'op': 'spec_parse', 'text': C.s2w(text), 'loads': loads, 'atts': [a.hex() for a in atts]})
    if 'exc' in r:
        return {'exc': r['exc']}
    pk = r['pkt']
    f = r['filled']
    if 'some' in f:
        filled = (True, C.w2j(f['some']))
    elif 'none' in f:
        filled = (True, None)
    else:
        filled = (False, None)
    return {'hdr': (pk['type'], C.ow2s(pk['nsp']), None if pk['id'] is None else int(pk['id'])),
            'natt': r['natt'], 'filled': filled}


def jloads_check(drv, text):
    """J.loads (the concrete Lean reader behind C01.loads_dumps / roundtrip_concrete) against the real
    json.loads on the JSON text of an encoded frame.  -> None (nothing to compare) / True / (False, info)"""
    h = drv.ask({'op': 'dechdr', 'text': C.s2w(text), 'cls': C.digit_table(text)})
    if 'exc' in h or not h['rest']:
        return None
    rest = C.w2s(h['rest'])
    try:
        v = P().Packet.json.loads(rest)
    except Exception:    # noqa
        return None
    r = drv.ask({'op': 'jloads', 'text': h['rest']})
    if 'exc' in r:
        return (False, {'json': rest, 'impl': repr(v), 'model': r['exc']})
    try:
        m = C.w2j(r['value'])
    except Exception as ex:    # noqa
        return (False, {'json': rest, 'impl': repr(v), 'model': 'unreadable: %r' % ex})
    return True if C.same(m, v) else (False, {'json': rest, 'impl': repr(v), 'model': repr(m)})


def dec_equal(a, b):
    if ('exc' in a) != ('exc' in b):
        return False
    if 'exc' in a:
        return True                      # error class is not compared for decoding
    if a['natt'] != b['natt'] or len(a['answers']) != len(b['answers']):
        return False
    for x, y in zip(a['answers'], b['answers']):
        if isinstance(x, dict) != isinstance(y, dict):
            return False
        if not isinstance(x, dict) and x != y:
            return False
    # after an exception inside reconstruction the payload is unspecified
    if any(isinstance(x, dict) for x in a['answers']):
        return a['pkt'][:3] == b['pkt'][:3]
    return a['pkt'][:3] == b['pkt'][:3] and C.same(a['pkt'][3], b['pkt'][3])


def mutate(rng, text):
    ops = rng.randint(1, 3)
    s = list(text)
    for _ in range(ops):
        k = rng.random()
        pos = rng.randint(0, len(s))
        if k < 0.3 and s:
            del s[min(pos, len(s) - 1)]
        elif k < 0.6:
            s.insert(pos, rng.choice(list('0123456789-,/?[]{}":٣² ') + ['10000000000', '99999999999']))
        elif k < 0.8 and s:
            i = min(pos, len(s) - 1)
            s.insert(i, s[i])
        elif s:
            s = s[:pos]
    return ''.join(s)


def rand_frame(rng):
    alpha = list('0123456789') * 2 + list('-,/?[]{}":aZ٣²x ') + ['["e"]', '{"_placeholder":true,"num":0}', '/ns,']
    return ''.join(rng.choice(alpha) for _ in range(rng.randint(0, 14)))


def norm_ns(ns):
    if ns is None:
        return '/'
    q = ns.find('?')
    return ns[:q] if q != -1 else ns


def run(ctx):
    C.proof_step(ctx, ['Python json.dumps/json.loads on the value domain: compared character by character '
                       'with the Lean printer J.dumps on every encode case; loads enters the model as a '
                       'finite table produced by the real json.loads (hypothesis hrt of C01.roundtrip); for '
                       'C01.roundtrip_concrete the Lean reader J.loads is compared with json.loads on the JSON text '
                       'of every encoded frame',
                       'str.isdigit()/int() on non-ASCII characters: supplied per run as a table'])
    # the codec model's constants (packet types, digit limits) are the literals of packet.py as it is now
    C.audit_extra(ctx, 'GlueCodec', ['packet_types_eq', 'packet_names_consistent', 'attDigitLimit_eq',
                                'idDigitLimit_eq', 'header_guards', 'scanners_accept'])
    rng = ctx.rng
    n_enc = ctx.scale(1500, 30000)
    n_mut = ctx.scale(1500, 30000)
    cases = [gen_packet(rng) for _ in range(n_enc)]
    both = C.batch('codec', [op for kw, _ in cases for op in (enc_op(kw), spec_op(kw))])
    answers, spec_answers = both[0::2], both[1::2]
    n_spec = 0
    nontrivial = set()
    samples = []
    frames = []      # (text, atts, origin)
    evals = 0
    for (kw, wf), ans, sans in zip(cases, answers, spec_answers):
        evals += 1
        real = real_encode(kw)
        model = model_encode_view(ans)
        spec = model_encode_view(sans)
        ctx.count('enc.type%d' % kw['packet_type'])
        if 'exc' in real:
            ctx.count('enc.exc.' + real['exc'])
        agree = (('exc' in real) == ('exc' in model)) and (
            'exc' in real and (real['exc'] == model['exc'] or not wf) or
            'exc' not in real and real == model)
        if not agree and not wf and 'exc' in real and 'exc' not in model:
            # outside the domain (binary=False with bytes: json.dumps raises TypeError; the model's
            # printer is total) — not compared
            ctx.count('enc.outside_domain')
            continue
        if not agree:
            ctx.violation('correspondence', 'encode differs from model (C01.encode_is_spec no longer tied)',
                          {'case': repr(kw), 'impl': repr(real), 'model': repr(model)},
                          no_input=not wf)
            # judge with the oracle below
        if 'exc' in real:
            # byte strings are accepted only for events and acks
            if wf and not (G.has_bytes(kw['data']) or kw['binary']) :
                ctx.violation('oracle', 'well-formed packet rejected by encode', {'case': repr(kw), 'impl': real})
            continue
        if (G.has_bytes(kw['data']) or kw['binary']) and kw['packet_type'] not in (2, 3, 5, 6):
            ctx.violation('oracle', 'binary payload accepted for a packet type other than EVENT/ACK',
                          {'case': repr(kw), 'impl': repr(real)})
        atts = real['atts'] or []
        frames.append((real['text'], atts, 'encoded', wf))
        # ---- wire conformance: the frame is the one the independent specification codec
        #      (Sio/Model/CodecSpec.lean, written from the v5 grammar) prescribes
        if wf:
            n_spec += 1
            if 'exc' in spec or spec['text'] != real['text'] or (spec['atts'] or []) != atts \
                    or spec['type'] != real['type']:
                ctx.violation('oracle', 'encoded frame differs from the Socket.IO v5 specification codec',
                              {'case': repr(kw), 'impl': repr(real), 'spec': repr(spec)})
        # ---- property oracle on the implementation alone: decode(encode(p)) = norm p
        if wf:
            d = real_decode(real['text'], atts)
            okp = 'exc' not in d
            if okp:
                t, ns, pid, data = d['pkt']
                okp = (t == real['type'] and norm_ns(ns) == norm_ns(kw['namespace']) and pid == kw['id']
                       and C.same(data, kw['data'])
                       and d['answers'] == [False] * (len(atts) - 1) + ([True] if atts else [])
                       and d['natt'] == len(atts))
            if not okp:
                ctx.violation('oracle', 'decode(encode(p)) != p on the implementation',
                              {'case': repr(kw), 'text': real['text'], 'atts': [a.hex() for a in atts],
                               'decoded': repr(d)})
            two = sum(x is not None for x in (kw['id'],)) + (norm_ns(kw['namespace']) != '/') + bool(atts)
            if G.bytes_depth(kw['data']) >= 2 or two >= 2:
                nontrivial.add(real['text'] + '|' + ','.join(a.hex() for a in atts))
        if len(samples) < 4 and atts and kw['id'] is not None:
            samples.append({'packet': repr(kw), 'text': real['text'], 'attachments': [a.hex() for a in atts]})

    # ---- decode correspondence: encoded frames (with all hand-back variants), mutations, noise
    drv = C.Driver('codec')
    ndec = 0
    n_jl = 0
    try:
        todo = []
        for text, atts, origin, wf in frames[: ctx.scale(800, 20000)]:
            todo.append((text, atts, origin if wf else 'encoded_outside'))
            if atts and rng.random() < 0.3:
                todo.append((text, atts[:-1], 'short'))
                todo.append((text, atts + [b'x'], 'long'))
        for _ in range(n_mut):
            if frames and rng.random() < 0.7:
                text, atts, _o, _w = rng.choice(frames)
                todo.append((mutate(rng, text), atts if rng.random() < 0.5 else atts + [b'\x01'], 'mutated'))
            else:
                todo.append((rand_frame(rng), [b'a'] * rng.randint(0, 2), 'noise'))
        for text, atts, origin in todo:
            if not text:
                continue            # `if encoded_packet:` — an empty frame is not decoded at all
            ndec += 1
            real = real_decode(text, atts)
            model = model_decode(drv, text, atts)
            if model is None:
                ctx.count('dec.skipped_lone_surrogate')
                continue
            ctx.count('dec.' + origin)
            if 'exc' in real:
                ctx.count('dec.exc.' + real['exc'])
            if not dec_equal(real, model):
                ctx.violation('correspondence', 'decode differs from model (%s frame)' % origin,
                              {'text': text, 'atts': [a.hex() for a in atts], 'impl': repr(real),
                               'model': repr(model)}, no_input=(origin not in ('encoded',)))
            if origin == 'encoded':
                jl = jloads_check(drv, text)
                if jl is not None:
                    n_jl += 1
                    if jl is not True:
                        ctx.violation('correspondence', 'Lean JSON reader J.loads differs from json.loads on an '
                                      'encoded frame (C01.roundtrip_concrete no longer tied)', jl[1], no_input=True)
                # the specification's grammar-directed parser reads the same packet from the frame
                sp = spec_parse(drv, text, atts)
                n_spec += 1
                if sp is not None and not ('exc' not in sp and 'exc' not in real
                                           and sp['hdr'] == real['pkt'][:3] and sp['natt'] == real['natt']
                                           and sp['filled'][0] and C.same(sp['filled'][1], real['pkt'][3])):
                    ctx.violation('oracle', 'specification parser and decoder read different packets',
                                  {'text': text, 'atts': [a.hex() for a in atts], 'impl': repr(real),
                                   'spec': repr(sp)})
        # informational: the two boundary witnesses of DESIGN §5 C01, executed on the real code
        pk = P()
        w1 = pk.Packet(encoded_packet=pk.Packet(pk.CONNECT, data=5).encode())
        ctx.notes.append('domain boundary (informational): Packet(CONNECT, data=5) encodes to "05" and '
                         'decodes as id=%r data=%r' % (w1.id, w1.data))
        e2 = pk.Packet(pk.CONNECT_ERROR, id=3, data=-5).encode()
        w2 = pk.Packet(encoded_packet=e2)
        ctx.notes.append('domain boundary (informational): Packet(CONNECT_ERROR, id=3, data=-5) encodes to %r '
                         'and decodes as attachment_count=%r id=%r data=%r'
                         % (e2, w2.attachment_count, w2.id, w2.data))
        if (w1.id, w1.data) != (5, None) or (e2, w2.attachment_count, w2.id, w2.data) != ('43-5', 3, 5, None):
            ctx.notes.append('NOTE: the boundary witnesses proved in Lean (C01.number_payload_not_roundtrip, '
                             'C01.negative_payload_not_roundtrip) no longer reproduce on the implementation')
    finally:
        drv.close()
    ctx.coverage.update({
        'evaluations': evals + ndec, 'distinct_nontrivial': len(nontrivial),
        'rule': 'generated packets over the quantifier (7 types x namespace shapes x ids up to 100 digits x '
                'payload trees with bytes at any depth) encoded by impl and model and compared; every frame, '
                'its short/long hand-back variants, grammar mutations and noise decoded by both. non-trivial = '
                'distinct well-formed packet with a bytes leaf at depth >= 2 or >= 2 optional header fields',
        'samples': samples, 'traces_validated_against_impl': evals + ndec,
        'spec_codec_comparisons': n_spec, 'json_reader_comparisons': n_jl,
    })
    ctx.assumptions += ['lone surrogates are not generated (Lean Char cannot hold them)',
                        'non-finite floats are outside the domain']


def replay(ctx, r):
    print(json.dumps(r, indent=1))
    return 0
