"""C01 — packet codec round-trip and wire conformance (K1)."""
import json

from .. import common as C
from .. import gen as G

LEVEL = 'proof'


def P():
    from socketio import packet
    return packet


DEEP_MAX = 64          # the statement says "at any nesting depth": the spine generator goes well beyond any
#                        depth ordinary trees reach (the Lean theorems recon_decon / roundtrip are for every depth)


def gen_deep(rng, depth=None):
    """A payload argument whose spine of mixed lists/dicts is `depth` containers deep (1..DEEP_MAX) with a bytes
    leaf at the bottom and further bytes leaves / ordinary small trees hanging off the spine at other depths."""
    depth = depth or rng.choice([rng.randint(1, DEEP_MAX), rng.randint(1, DEEP_MAX), rng.randint(8, 24), DEEP_MAX])
    v = G.gen_bytes(rng)
    side_p = rng.choice([0.0, 0.1, 0.3])
    for _ in range(depth):
        sib = []
        while rng.random() < 0.35 and len(sib) < 3:
            sib.append(G.gen_bytes(rng) if rng.random() < side_p else G.gen_value(rng, 1, 0.2))
        if rng.random() < 0.5:
            items = sib + [v]
            rng.shuffle(items)
            v = items
        else:
            d = {}
            keys = rng.sample(['k', 'a', 'data', 'num', 'é', '', 'x y', 'placeholder'], len(sib) + 1)
            pos = rng.randint(0, len(sib))
            for i, k in enumerate(keys):
                d[k] = v if i == pos else sib.pop()
            v = d
    return v


def gen_packet(rng):
    """Mostly well-formed packets over the property's quantifier; returns kwargs + wf flag."""
    t = rng.choice([0, 1, 2, 2, 2, 3, 3, 4, 5, 6])
    nsp = G.gen_namespace(rng)
    pid = G.gen_id(rng) if t in (2, 3, 5, 6) or rng.random() < 0.3 else None
    wf = True
    if t in (2, 3, 5, 6):
        args = [G.gen_value(rng, 3, 0.25) for _ in range(rng.randint(0, 3))]
        if rng.random() < 0.12:
            # bytes far below the depth ordinary trees reach, several leaves at different depths
            for _ in range(rng.choice([1, 1, 2])):
                args.insert(rng.randint(0, len(args)), gen_deep(rng))
        data = ([G.gen_event_name(rng)] if t in (2, 5) else []) + args
    elif t == 0:
        data = rng.choice([None, {}, {'token': 'abc'}, {'sid': '123'}]) if rng.random() < 0.7 else \
            G.gen_value(rng, 2, 0.1)
    elif t == 4:
        data = rng.choice([None, 'Unable to connect', {'message': 'm', 'data': [1, 2]}]) \
            if rng.random() < 0.7 else G.gen_value(rng, 2, 0.1)
    else:
        data = None if rng.random() < 0.8 else G.gen_value(rng, 1, 0.1)
    binary = None
    r = rng.random()
    if r < 0.06:
        binary = True
    elif r < 0.12:
        binary = False
    # domain boundary of the statement
    if isinstance(data, (int, float)) and not isinstance(data, bool):
        wf = False          # bare number at top level (DESIGN §5 C01)
    if binary is False and G.has_bytes(data):
        wf = False          # json.dumps of bytes -> TypeError
    if t in (5, 6) and binary is None and not G.has_bytes(data):
        pass                # explicit binary type without bytes: 0 attachments, still round-trips
    return dict(packet_type=t, data=data, namespace=nsp, id=pid, binary=binary), wf


def enc_op(kw):
    return {'op': 'enc', 'type': kw['packet_type'], 'nsp': C.os2w(kw['namespace']),
            'id': None if kw['id'] is None else str(kw['id']),
            'data': C.oj2w(kw['data'], kw['data'] is not None), 'binary': kw['binary']}


def spec_op(kw):
    o = enc_op(kw)
    o['op'] = 'spec_frame'
    return o


def real_encode(kw):
    pk = P()
    try:
        p = pk.Packet(**kw)
        e = p.encode()
    except Exception as ex:          # noqa
        return {'exc': type(ex).__name__}
    if isinstance(e, list):
        return {'type': p.packet_type, 'text': e[0], 'atts': e[1:]}
    return {'type': p.packet_type, 'text': e, 'atts': None}


def model_encode_view(ans):
    if 'exc' in ans:
        return {'exc': ans['exc']}
    return {'type': ans['type'], 'text': C.w2s(ans['text']),
            'atts': None if ans['atts'] is None else [bytes.fromhex(h) for h in ans['atts']]}


def real_decode(text, atts):
    """-> dict(pkt=(type, nsp, id, present, data), natt, answers) or {'exc':..}"""
    pk = P()
    try:
        p = pk.Packet(encoded_packet=text)
    except Exception as ex:      # noqa
        return {'exc': type(ex).__name__}
    answers = []
    for a in atts:
        try:
            answers.append(p.add_attachment(a))
        except Exception as ex:  # noqa
            answers.append({'exc': type(ex).__name__})
    return {'pkt': (p.packet_type, p.namespace, p.id, p.data), 'natt': p.attachment_count,
            'answers': answers}


def model_decode(drv, text, atts):
    cls = C.digit_table(text)
    h = drv.ask({'op': 'dechdr', 'text': C.s2w(text), 'cls': cls})
    loads = []
    if 'exc' not in h and h['rest']:
        rest = C.w2s(h['rest'])
        try:
            v = P().Packet.json.loads(rest)
            try:
                loads.append([h['rest'], C.j2w(v)])
            except TypeError:
                loads.append([h['rest'], {'exc': 'Exception'}])
            except C.Unrepresentable:
                return None
        except Exception as ex:  # noqa
            loads.append([h['rest'], {'exc': 'JSONDecodeError'}])
    r = drv.ask({'op': 'decfeed', 'text': C.s2w(text), 'cls': cls, 'loads': loads,
                 'atts': [a.hex() for a in atts]})
    if 'exc' in r:
        return {'exc': r['exc']}
    pk = r['pkt']
    present, data = C.ow2j(pk['data'])
    return {'pkt': (pk['type'], C.ow2s(pk['nsp']), None if pk['id'] is None else int(pk['id']), data),
            'natt': r['natt'],
            'answers': [a if isinstance(a, bool) else {'exc': a['exc']} for a in r['answers']]}


def spec_parse(drv, text, atts):
    """Spec.parse + Spec.fill on a frame -> dict(hdr=(type, nsp, id), natt, filled=(ok, data))."""
    # the JSON text is what follows the header; ask the spec parser with a table that maps every
    # suffix of the frame the real json.loads accepts (the parser picks the one its grammar yields)
    loads = []
    seen = set()
    for i in range(1, len(text)):
        rest = text[i:]
        if rest in seen or rest[0] not in '[{"tfn':
            continue
        seen.add(rest)
        try:
            loads.append([C.s2w(rest), C.j2w(P().Packet.json.loads(rest))])
        except C.Unrepresentable:
            return None
        except Exception:    # noqa
            pass
    r = drv.ask({'op': 'spec_parse', 'text': C.s2w(text), 'loads': loads, 'atts': [a.hex() for a in atts]})
    if 'exc' in r:
        return {'exc': r['exc']}
    pk = r['pkt']
    f = r['filled']
    if 'some' in f:
        filled = (True, C.w2j(f['some']))
    elif 'none' in f:
        filled = (True, None)
    else:
        filled = (False, None)
    return {'hdr': (pk['type'], C.ow2s(pk['nsp']), None if pk['id'] is None else int(pk['id'])),
            'natt': r['natt'], 'filled': filled}


def jloads_check(drv, text):
    """J.loads (the concrete Lean reader behind C01.loads_dumps / roundtrip_concrete) against the real
    json.loads on the JSON text of an encoded frame.  -> None (nothing to compare) / True / (False, info)"""
    h = drv.ask({'op': 'dechdr', 'text': C.s2w(text), 'cls': C.digit_table(text)})
    if 'exc' in h or not h['rest']:
        return None
    rest = C.w2s(h['rest'])
    try:
        v = P().Packet.json.loads(rest)
    except Exception:    # noqa
        return None
    r = drv.ask({'op': 'jloads', 'text': h['rest']})
    if 'exc' in r:
        return (False, {'json': rest, 'impl': repr(v), 'model': r['exc']})
    try:
        m = C.w2j(r['value'])
    except Exception as ex:    # noqa
        return (False, {'json': rest, 'impl': repr(v), 'model': 'unreadable: %r' % ex})
    return True if C.same(m, v) else (False, {'json': rest, 'impl': repr(v), 'model': repr(m)})


def roundtrip_holds(kw, real, atts):
    """the statement on the implementation alone: decode(encode(p)) + all attachments handed back = norm p"""
    d = real_decode(real['text'], atts)
    okp = 'exc' not in d
    if okp:
        t, ns, pid, data = d['pkt']
        okp = (t == real['type'] and norm_ns(ns) == norm_ns(kw['namespace']) and pid == kw['id']
               and C.same(data, kw['data'])
               and d['answers'] == [False] * (len(atts) - 1) + ([True] if atts else [])
               and d['natt'] == len(atts))
    return okp, d


def dec_equal(a, b):
    if ('exc' in a) != ('exc' in b):
        return False
    if 'exc' in a:
        return True                      # error class is not compared for decoding
    if a['natt'] != b['natt'] or len(a['answers']) != len(b['answers']):
        return False
    for x, y in zip(a['answers'], b['answers']):
        if isinstance(x, dict) != isinstance(y, dict):
            return False
        if not isinstance(x, dict) and x != y:
            return False
    # after an exception inside reconstruction the payload is unspecified
    if any(isinstance(x, dict) for x in a['answers']):
        return a['pkt'][:3] == b['pkt'][:3]
    return a['pkt'][:3] == b['pkt'][:3] and C.same(a['pkt'][3], b['pkt'][3])


def mutate(rng, text):
    ops = rng.randint(1, 3)
    s = list(text)
    for _ in range(ops):
        k = rng.random()
        pos = rng.randint(0, len(s))
        if k < 0.3 and s:
            del s[min(pos, len(s) - 1)]
        elif k < 0.6:
            s.insert(pos, rng.choice(list('0123456789-,/?[]{}":٣² ') + ['10000000000', '99999999999']))
        elif k < 0.8 and s:
            i = min(pos, len(s) - 1)
            s.insert(i, s[i])
        elif s:
            s = s[:pos]
    return ''.join(s)


def rand_frame(rng):
    alpha = list('0123456789') * 2 + list('-,/?[]{}":aZ٣²x ') + ['["e"]', '{"_placeholder":true,"num":0}', '/ns,']
    return ''.join(rng.choice(alpha) for _ in range(rng.randint(0, 14)))


def norm_ns(ns):
    if ns is None:
        return '/'
    q = ns.find('?')
    return ns[:q] if q != -1 else ns


# ---------------------------------------------------------------- object reuse: no state survives between operations
#
# The statement quantifies over packets, not over Packet objects: every encode() of a packet yields the frames the
# wire format prescribes for its (type, nsp, id, data), however often and in whatever way the object was used before
# (encoded already, born from `encoded_packet=`, filled by add_attachment(), other packets encoded in between).  The
# Lean model is a pure function, so a sequence of operations on one object is judged operation by operation against
# the same pure answer (Spec.frame for the oracle, encode for the correspondence; C01.encode_is_spec equates them).

def MP():
    from socketio import msgpack_packet
    return msgpack_packet


def gen_reuse_case(rng):
    """A well-formed packet, biased towards binary payloads (bytes at any depth)."""
    while True:
        kw, wf = gen_packet(rng)
        if not wf:
            continue
        if kw['packet_type'] in (2, 3) and kw['binary'] is not False and not G.has_bytes(kw['data']) \
                and rng.random() < 0.6:
            extra = G.gen_bytes(rng) if rng.random() < 0.5 else [G.gen_value(rng, 2, 0.6), G.gen_bytes(rng)]
            d = list(kw['data'])
            d.insert(rng.randint(1 if kw['packet_type'] == 2 else 0, len(d)), extra)
            kw['data'] = d
        return kw


def gen_reuse_script(rng):
    birth = 'wire' if rng.random() < 0.25 else 'new'
    return [birth] + [rng.choice(['enc', 'enc', 'enc', 'relay', 'other']) for _ in range(rng.randint(1, 4))] + ['enc']


def _frames(e):
    if isinstance(e, list):
        return {'text': e[0], 'atts': list(e[1:])}
    return {'text': e, 'atts': None}


def _same_frames(f, w):
    # (a text frame alone and a text frame with zero attachments differ only by the packet type, which is in the text)
    return f['text'] == w['text'] and (f['atts'] or []) == (w['atts'] or [])


def _show(f):
    if isinstance(f, (bytes, bytearray)):
        return f.hex()
    return repr(f['text']) + ('' if f.get('atts') is None else ' + %r' % [a.hex() for a in f['atts']])


def run_reuse(sc):
    """Executes one reuse scenario on the real class.  -> (problems, trace); stops at the first problem."""
    import copy
    msgpack_cls = sc['cls'] == 'MsgPackPacket'
    cls = MP().MsgPackPacket if msgpack_cls else P().Packet
    kw = sc['case']
    ident_ns = kw['namespace']
    want = sc['expect']
    problems, trace = [], []
    obj, last, first_bytes = None, None, None

    def make(k):
        return cls(packet_type=k['packet_type'], data=copy.deepcopy(k['data']), namespace=k['namespace'],
                   id=k['id'], binary=k['binary'])

    def fields_ok(o, w):
        if msgpack_cls:
            return o.packet_type == w['type'] and o.namespace == ident_ns and o.id == kw['id'] \
                and C.same(o.data, kw['data'])
        return o.packet_type == w['type'] and norm_ns(o.namespace) == norm_ns(ident_ns) and o.id == kw['id'] \
            and C.same(o.data, kw['data'])

    def decode(src):
        if msgpack_cls:
            return cls(encoded_packet=src), True
        o = cls(encoded_packet=src['text'])
        atts = src['atts'] or []
        answers = [o.add_attachment(a) for a in atts]
        return o, (answers == [False] * (len(atts) - 1) + ([True] if atts else []) and o.attachment_count == len(atts))

    def judge_encoding(e, w):
        """is `e` what the wire format prescribes for the packet whose prescription is `w`?"""
        if msgpack_cls:
            import msgpack
            if not isinstance(e, bytes):
                return False
            d = msgpack.loads(e)
            keys = {'type', 'data', 'nsp'} | ({'id'} if w['id'] is not None else set())
            return isinstance(d, dict) and set(d) == keys and d['type'] == w['type'] and d['nsp'] == w['nsp'] \
                and d.get('id') == w['id'] and C.same(d['data'], w['data'])
        return _same_frames(_frames(e), w)

    for i, op in enumerate(sc['script']):
        try:
            if op == 'new':
                obj, last = make(kw), None
                trace.append('%d new      %s(%r)' % (i, cls.__name__, kw))
            elif op in ('wire', 'relay'):
                # born from frames: the prescribed ones, or the ones this very object produced last (a relay)
                src = last if (op == 'relay' and last is not None) else (
                    sc['expect_bytes'] if msgpack_cls else sc['expect'])
                obj, answers_ok = decode(src)
                last, first_bytes = None, None
                if not msgpack_cls:
                    want = sc['expect_norm']
                trace.append('%d %-8s %s(encoded_packet=..)+add_attachment of %s -> type=%r nsp=%r id=%r data=%r' % (
                    i, op, cls.__name__, _show(src), obj.packet_type, obj.namespace, obj.id, obj.data))
                if not answers_ok or not fields_ok(obj, want):
                    problems.append({'step': i, 'op': op, 'what': 'decoding the frames does not give the packet back',
                                     'got': repr((obj.packet_type, obj.namespace, obj.id, obj.data))})
            elif op == 'enc':
                e = obj.encode()
                got = e if msgpack_cls else _frames(e)
                ok = judge_encoding(e, want)
                trace.append('%d encode   -> %s%s' % (i, _show(got), '' if ok else '      <-- prescribed: %s' % (
                    repr(want) if msgpack_cls else _show(want))))
                if not ok:
                    problems.append({'step': i, 'op': op, 'what': 'encode() of a used object is not the prescribed frame',
                                     'got': _show(got), 'want': repr(want) if msgpack_cls else _show(want)})
                elif msgpack_cls and first_bytes is not None and e != first_bytes:
                    problems.append({'step': i, 'op': op, 'what': 'two encodings of one object differ',
                                     'got': e.hex(), 'want': first_bytes.hex()})
                elif not fields_ok(obj, want):
                    problems.append({'step': i, 'op': op, 'what': 'encode() changed the packet it encodes',
                                     'got': repr((obj.packet_type, obj.namespace, obj.id, obj.data))})
                last = got
                if msgpack_cls and first_bytes is None:
                    first_bytes = e
            elif op == 'other':
                # an unrelated packet goes through the codec in between (class-level / shared accumulators)
                if sc.get('other') is None:
                    continue
                e = make(sc['other']).encode()
                ok = True if msgpack_cls else _same_frames(_frames(e), sc['expect_other'])
                trace.append('%d other    %r -> %s' % (i, sc['other'], _show(e if msgpack_cls else _frames(e))))
                if not ok:
                    problems.append({'step': i, 'op': op, 'what': 'encode() of a fresh packet after other packets '
                                     'went through the codec is not the prescribed frame',
                                     'got': _show(_frames(e)), 'want': _show(sc['expect_other'])})
        except Exception as ex:      # noqa
            trace.append('%d %-8s raised %r' % (i, op, ex))
            problems.append({'step': i, 'op': op, 'what': 'operation on a well-formed packet raised', 'got': repr(ex)})
        if problems:
            break
    return problems, trace


def reuse_section(ctx):
    rng = ctx.rng
    n = ctx.scale(700, 10000)
    rcases = [gen_reuse_case(rng) for _ in range(n)]
    ops = []
    for kw in rcases:
        ops += [spec_op(kw), enc_op(kw), spec_op(dict(kw, namespace=norm_ns(kw['namespace'])))]
    ans = C.batch('codec', ops)
    usable = []
    stats = {'scenarios': 0, 'encodes': 0, 'binary_reencoded': 0, 'relays': 0, 'msgpack_scenarios': 0}
    samples = []
    for i, kw in enumerate(rcases):
        spec, model, specn = (model_encode_view(a) for a in ans[3 * i: 3 * i + 3])
        if 'exc' in spec or 'exc' in specn:
            ctx.count('reuse.skipped_not_encodable')       # bytes outside EVENT/ACK: judged in the encode section
            continue
        if 'exc' in model or model['type'] != spec['type'] or not _same_frames(model, spec):
            ctx.violation('correspondence', 'model encode and Spec.frame differ (C01.encode_is_spec no longer tied)',
                          {'case': repr(kw), 'model': repr(model), 'spec': repr(spec)}, no_input=True)
        script = gen_reuse_script(rng)
        other = rng.choice(usable) if usable and 'other' in script else None
        usable.append((kw, spec))
        sc = {'cls': 'Packet', 'case': kw, 'script': script, 'expect': spec, 'expect_norm': specn,
              'other': other and other[0], 'expect_other': other and other[1]}
        problems, trace = run_reuse(sc)
        stats['scenarios'] += 1
        stats['encodes'] += script.count('enc')
        stats['relays'] += script.count('relay') + script.count('wire')
        ctx.count('reuse.birth.' + script[0])
        for op in script[1:]:
            ctx.count('reuse.step.' + op)
        # the situation hidden state needs: a second operation on an object that holds attachments
        if spec['atts'] and (script.count('enc') >= 2 or script[0] == 'wire' or 'relay' in script):
            stats['binary_reencoded'] += 1
            if len(samples) < 3:
                samples.append({'packet': repr(kw), 'script': script, 'trace': trace})
        if problems:
            ctx.violation('oracle', problems[0]['what'] + ' (step %d of %r): got %s, prescribed %s' % (
                problems[0]['step'], script, problems[0].get('got'), problems[0].get('want')),
                {'reuse': sc, 'problem': problems[0], 'trace': trace})
    # ---- the msgpack packet class: same statement, wire format = one msgpack map {type, data, nsp[, id]}
    import msgpack
    musable = []
    for _ in range(ctx.scale(250, 3000)):
        kw = gen_reuse_case(rng)
        if kw['id'] is not None and kw['id'] >= 2 ** 64:
            kw['id'] %= 2 ** 63                          # msgpack integers are 64 bit
        wire = {'type': kw['packet_type'], 'data': kw['data'], 'nsp': kw['namespace'], 'id': kw['id']}
        script = gen_reuse_script(rng)
        sc = {'cls': 'MsgPackPacket', 'case': kw, 'script': script, 'expect': wire,
              'expect_bytes': msgpack.packb({k: v for k, v in wire.items() if k != 'id' or v is not None}),
              'other': rng.choice(musable) if musable else None}      # (64-bit ids only)
        musable.append(kw)
        problems, trace = run_reuse(sc)
        stats['msgpack_scenarios'] += 1
        ctx.count('reuse.msgpack.birth.' + script[0])
        if problems:
            ctx.violation('oracle', 'MsgPackPacket: ' + problems[0]['what'] + ' (step %d of %r): got %s, prescribed %s'
                          % (problems[0]['step'], script, problems[0].get('got'), problems[0].get('want')),
                          {'reuse': sc, 'problem': problems[0], 'trace': trace})
    ctx.coverage.update({'object_reuse_scenarios': stats['scenarios'], 'object_reuse_encodes': stats['encodes'],
                         'object_reuse_binary_reencoded': stats['binary_reencoded'],
                         'object_reuse_decode_then_encode': stats['relays'],
                         'object_reuse_msgpack_scenarios': stats['msgpack_scenarios'],
                         'object_reuse_rule': 'one Packet object taken through new|from-wire, then encode / relay '
                         '(decode own frames + add_attachment) / unrelated packet in between, ending in encode; every '
                         'encode compared with Spec.frame of the packet (normalised namespace after a decode); '
                         'binary_reencoded = scenarios where an object holding attachments is operated on again',
                         'object_reuse_samples': samples})
    return stats['scenarios'] + stats['msgpack_scenarios']


def run(ctx):
    C.proof_step(ctx, ['Python json.dumps/json.loads on the value domain: compared character by character '
                       'with the Lean printer J.dumps on every encode case; loads enters the model as a '
                       'finite table produced by the real json.loads (hypothesis hrt of C01.roundtrip); for '
                       'C01.roundtrip_concrete the Lean reader J.loads is compared with json.loads on the JSON text '
                       'of every encoded frame',
                       'str.isdigit()/int() on non-ASCII characters: supplied per run as a table'])
    # the codec model's constants (packet types, digit limits) are the literals of packet.py as it is now
    C.audit_extra(ctx, 'GlueCodec', ['packet_types_eq', 'packet_names_consistent', 'attDigitLimit_eq',
                                'idDigitLimit_eq', 'header_guards', 'scanners_accept'])
    rng = ctx.rng
    n_enc = ctx.scale(1500, 30000)
    n_mut = ctx.scale(1500, 30000)
    cases = [gen_packet(rng) for _ in range(n_enc)]
    both = C.batch('codec', [op for kw, _ in cases for op in (enc_op(kw), spec_op(kw))])
    answers, spec_answers = both[0::2], both[1::2]
    n_spec = 0
    nontrivial = set()
    samples = []
    frames = []      # (text, atts, origin)
    evals = 0
    n_deep, deepest = 0, 0
    for (kw, wf), ans, sans in zip(cases, answers, spec_answers):
        evals += 1
        real = real_encode(kw)
        model = model_encode_view(ans)
        spec = model_encode_view(sans)
        ctx.count('enc.type%d' % kw['packet_type'])
        if 'exc' in real:
            ctx.count('enc.exc.' + real['exc'])
        agree = (('exc' in real) == ('exc' in model)) and (
            'exc' in real and (real['exc'] == model['exc'] or not wf) or
            'exc' not in real and real == model)
        if not agree and not wf and 'exc' in real and 'exc' not in model:
            # outside the domain (binary=False with bytes: json.dumps raises TypeError; the model's
            # printer is total) — not compared
            ctx.count('enc.outside_domain')
            continue
        if not agree:
            ctx.violation('correspondence', 'encode differs from model (C01.encode_is_spec no longer tied)',
                          {'case': repr(kw), 'impl': repr(real), 'model': repr(model)},
                          no_input=not wf)
            # judge with the oracle below
        if 'exc' in real:
            # byte strings are accepted only for events and acks
            if wf and not (G.has_bytes(kw['data']) or kw['binary']) :
                ctx.violation('oracle', 'well-formed packet rejected by encode', {'case': repr(kw), 'impl': real})
            continue
        if (G.has_bytes(kw['data']) or kw['binary']) and kw['packet_type'] not in (2, 3, 5, 6):
            ctx.violation('oracle', 'binary payload accepted for a packet type other than EVENT/ACK',
                          {'case': repr(kw), 'impl': repr(real)})
        atts = real['atts'] or []
        frames.append((real['text'], atts, 'encoded', wf))
        # ---- wire conformance: the frame is the one the independent specification codec
        #      (Sio/Model/CodecSpec.lean, written from the v5 grammar) prescribes
        if wf:
            n_spec += 1
            if 'exc' in spec or spec['text'] != real['text'] or (spec['atts'] or []) != atts \
                    or spec['type'] != real['type']:
                ctx.violation('oracle', 'encoded frame differs from the Socket.IO v5 specification codec',
                              {'case': repr(kw), 'impl': repr(real), 'spec': repr(spec)})
        # ---- property oracle on the implementation alone: decode(encode(p)) = norm p
        if wf:
            okp, d = roundtrip_holds(kw, real, atts)
            bd = G.bytes_depth(kw['data'])
            if bd >= 0:
                ctx.count('roundtrip.bytes_depth.' + ('1-4' if bd <= 4 else '5-16' if bd <= 16 else
                                                      '17-32' if bd <= 32 else '33+'))
            if bd > 4:
                n_deep += 1
                deepest = max(deepest, bd)
            if not okp:
                ctx.violation('oracle', 'decode(encode(p)) != p on the implementation (deepest byte string at '
                              'nesting depth %d)' % bd,
                              {'roundtrip': kw, 'case': repr(kw), 'text': real['text'],
                               'atts': [a.hex() for a in atts], 'decoded': repr(d)})
            two = sum(x is not None for x in (kw['id'],)) + (norm_ns(kw['namespace']) != '/') + bool(atts)
            if G.bytes_depth(kw['data']) >= 2 or two >= 2:
                nontrivial.add(real['text'] + '|' + ','.join(a.hex() for a in atts))
        if len(samples) < 4 and atts and kw['id'] is not None:
            samples.append({'packet': repr(kw), 'text': real['text'], 'attachments': [a.hex() for a in atts]})

    # ---- object reuse: every encode() of a used object is still the prescribed frame
    evals += reuse_section(ctx)

    # ---- decode correspondence: encoded frames (with all hand-back variants), mutations, noise
    drv = C.Driver('codec')
    ndec = 0
    n_jl = 0
    try:
        todo = []
        for text, atts, origin, wf in frames[: ctx.scale(800, 20000)]:
            todo.append((text, atts, origin if wf else 'encoded_outside'))
            if atts and rng.random() < 0.3:
                todo.append((text, atts[:-1], 'short'))
                todo.append((text, atts + [b'x'], 'long'))
        for _ in range(n_mut):
            if frames and rng.random() < 0.7:
                text, atts, _o, _w = rng.choice(frames)
                todo.append((mutate(rng, text), atts if rng.random() < 0.5 else atts + [b'\x01'], 'mutated'))
            else:
                todo.append((rand_frame(rng), [b'a'] * rng.randint(0, 2), 'noise'))
        for text, atts, origin in todo:
            if not text:
                continue            # `if encoded_packet:` — an empty frame is not decoded at all
            ndec += 1
            real = real_decode(text, atts)
            model = model_decode(drv, text, atts)
            if model is None:
                ctx.count('dec.skipped_lone_surrogate')
                continue
            ctx.count('dec.' + origin)
            if 'exc' in real:
                ctx.count('dec.exc.' + real['exc'])
            if not dec_equal(real, model):
                ctx.violation('correspondence', 'decode differs from model (%s frame)' % origin,
                              {'text': text, 'atts': [a.hex() for a in atts], 'impl': repr(real),
                               'model': repr(model)}, no_input=(origin not in ('encoded',)))
            if origin == 'encoded':
                jl = jloads_check(drv, text)
                if jl is not None:
                    n_jl += 1
                    if jl is not True:
                        ctx.violation('correspondence', 'Lean JSON reader J.loads differs from json.loads on an '
                                      'encoded frame (C01.roundtrip_concrete no longer tied)', jl[1], no_input=True)
                # the specification's grammar-directed parser reads the same packet from the frame
                sp = spec_parse(drv, text, atts)
                n_spec += 1
                if sp is not None and not ('exc' not in sp and 'exc' not in real
                                           and sp['hdr'] == real['pkt'][:3] and sp['natt'] == real['natt']
                                           and sp['filled'][0] and C.same(sp['filled'][1], real['pkt'][3])):
                    ctx.violation('oracle', 'specification parser and decoder read different packets',
                                  {'text': text, 'atts': [a.hex() for a in atts], 'impl': repr(real),
                                   'spec': repr(sp)})
        # informational: the two boundary witnesses of DESIGN §5 C01, executed on the real code
        pk = P()
        w1 = pk.Packet(encoded_packet=pk.Packet(pk.CONNECT, data=5).encode())
        ctx.notes.append('domain boundary (informational): Packet(CONNECT, data=5) encodes to "05" and '
                         'decodes as id=%r data=%r' % (w1.id, w1.data))
        e2 = pk.Packet(pk.CONNECT_ERROR, id=3, data=-5).encode()
        w2 = pk.Packet(encoded_packet=e2)
        ctx.notes.append('domain boundary (informational): Packet(CONNECT_ERROR, id=3, data=-5) encodes to %r '
                         'and decodes as attachment_count=%r id=%r data=%r'
                         % (e2, w2.attachment_count, w2.id, w2.data))
        if (w1.id, w1.data) != (5, None) or (e2, w2.attachment_count, w2.id, w2.data) != ('43-5', 3, 5, None):
            ctx.notes.append('NOTE: the boundary witnesses proved in Lean (C01.number_payload_not_roundtrip, '
                             'C01.negative_payload_not_roundtrip) no longer reproduce on the implementation')
    finally:
        drv.close()
    ctx.coverage.update({
        'evaluations': evals + ndec, 'distinct_nontrivial': len(nontrivial),
        'rule': 'generated packets over the quantifier (7 types x namespace shapes x ids up to 100 digits x '
                'payload trees with bytes at any depth) encoded by impl and model and compared; every frame, '
                'its short/long hand-back variants, grammar mutations and noise decoded by both. non-trivial = '
                'distinct well-formed packet with a bytes leaf at depth >= 2 or >= 2 optional header fields',
        'samples': samples, 'traces_validated_against_impl': evals + ndec,
        'spec_codec_comparisons': n_spec, 'json_reader_comparisons': n_jl,
        'deep_roundtrips': n_deep, 'deepest_bytes_leaf': deepest,
        'deep_rule': 'deep_roundtrips = well-formed round trips whose deepest byte string lies below more than 4 '
                     'containers (spine generator: mixed list/dict spines 1..%d deep, extra bytes leaves at other '
                     'depths); they also go through the model / specification-parser comparisons' % DEEP_MAX,
    })
    ctx.assumptions += ['lone surrogates are not generated (Lean Char cannot hold them)',
                        'non-finite floats are outside the domain']


def replay(ctx, r):
    rep = r.get('replay', r)
    if isinstance(rep, dict) and isinstance(rep.get('reuse'), dict):
        sc = C.unjsonable(rep['reuse'])
        print('%s %r, script %r' % (sc['cls'], sc['case'], sc['script']))
        problems, trace = run_reuse(sc)
        for line in trace:
            print('  ' + line)
        for p in problems:
            print('  step %d (%s): %s' % (p['step'], p['op'], p['what']))
        print('oracle verdict :', 'VIOLATED' if problems else 'holds')
        return 1 if problems else 0
    if isinstance(rep, dict) and isinstance(rep.get('roundtrip'), dict):
        kw = C.unjsonable(rep['roundtrip'])
        print('Packet(%r)   [deepest byte string at nesting depth %d]' % (kw, G.bytes_depth(kw['data'])))
        real = real_encode(kw)
        if 'exc' in real:
            print('  encode raised', real['exc'])
            print('oracle verdict : VIOLATED')
            return 1
        atts = real['atts'] or []
        print('  encode -> %r + %r' % (real['text'], [a.hex() for a in atts]))
        okp, d = roundtrip_holds(kw, real, atts)
        print('  decode + add_attachment x%d -> %r' % (len(atts), d))
        print('oracle verdict :', 'holds' if okp else 'VIOLATED (decode(encode(p)) != p)')
        return 0 if okp else 1
    print(json.dumps(r, indent=1))
    return 0
