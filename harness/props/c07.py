"""C07 — a pub/sub cluster behaves like one server holding all clients (K6).

Every generated history is executed
  * on 2-4 REAL servers (`Server`+`PubSubManager` subclass, and the asyncio twin) joined by the
    in-memory channel of `world_pubsub` (messages through pickle), plus a write-only manager;
  * on the Lean model (`sd_pubsub`: `Sio.PubSub.step`), compared operation by operation: packets per
    client with their ack ids, application callbacks and disconnect handlers with the host that ran
    them, the dicts that reached the channel, exceptions of API calls;
  * on `Spec`, a Python rendering of the property statement kept by this file (the oracle): every
    host applies the ordered channel with the membership it has at that moment; ack ids abstracted;
  * mode A (every host drains after every operation) additionally on ONE real plain
    `socketio.Server` / `AsyncServer` holding all the clients and on the model's `Single`:
    what every client receives and what the application sees must be equal (theorem
    C07.sync_equiv);
  * mode B (arbitrary `deliver(h, k)`): the oracles at_most_once, eligible/exact at application
    time (that is `Spec`), and exactness against the single-server book for emits that no
    membership change races;
  * mode R (oracle only — the Lean model treats an emit as atomic, so these histories do not go through
    the model): a membership change lands INSIDE an emit's local fan-out.  Op kind `raced` =
    {outer: an `emit` issued on host h | `deliver(h,1)` of a channel emit, inner: what another thread of
    h does meanwhile, after: inside which of the outer's transport writes, pos: before/after that write}.
    inner is `deliver(h,1)` of a pending remote leave_room / enter_room / disconnect / close_room (the
    listener thread), a local leave_room / enter_room / disconnect / close_room / CONNECT of a new client
    (another application or request thread), or a client DISCONNECT frame (`cdisc`).  The statement for
    a raced message: the call does not raise; at most once per client; every client that was addressed
    on h both before the flight and after it receives it exactly once; a client addressed at no point
    does not; it is published exactly once (after whatever the interfering action published) — and from
    there on `Spec` says exactly what every other host delivers once it consumes the channel.
"""
import collections
import glob
import hashlib
import json
import os
import pickle
import time

from .. import common as C
from .. import world as W
from .. import world_pubsub as WP
from .c03 import Book

LEVEL = 'proof'

PLAIN_ROOMS = ['r1', 'r2', 'lobby']
BIG = 10 ** 6


# ---------------------------------------------------------------- abstract values

def room_key(room):
    return room['r'] if 'r' in room else room['s']


def emit_rooms(to):
    if to is None:
        return None
    if 'list' in to:
        return [room_key(r) for r in to['list']]
    return [room_key(to)]


def skip_list(skip):
    if skip is None:
        return []
    if 'one' in skip:
        return [skip['one']]
    return list(skip['many'])


def payload(op):
    """(event name, data as the application passes it) of an emit: the event name is unique"""
    idx = op['idx']
    kind = op.get('data', 'int')
    ev = 'e%d' % idx
    if kind == 'none':
        return ev, None
    if kind == 'int':
        return ev, idx
    if kind == 'str':
        return ev, 'x%d' % idx
    if kind == 'tuple':
        return ev, ('a', idx)
    if kind == 'list':
        return ev, [idx, 'b']
    if kind == 'dict':
        return ev, {'k': idx}
    if kind == 'bytes':
        return ev, {'b': bytes([idx % 256, 1])}
    raise ValueError(kind)


def packed(data):
    if data is None:
        return []
    if isinstance(data, tuple):
        return list(data)
    return [data]


# ---------------------------------------------------------------- the oracle

class Spec:
    """The statement of C07, operationally: hosts hold their own clients (`Book` of C03 per host),
    API calls apply locally where the statement says so and append to the ordered channel, a host
    that consumes an entry applies it with the membership it has at that moment, skips its own
    entries, and a callback goes home to the host that issued the emit."""

    def __init__(self, hosts, namespaces):
        self.ids = list(hosts)
        self.ns = list(namespaces)
        self.book = {h: Book(namespaces) for h in hosts}
        self.chan = []
        self.cursor = {h: 0 for h in hosts}
        self.home = {}            # sid name -> host
        self.tid = {}             # sid name -> transport
        self.asked = collections.defaultdict(list)   # sid name -> [{'tok','issuer','open'}]
        self.user = {}            # tok -> issuer host, while the user callback is outstanding
        self.sent_to = collections.defaultdict(collections.Counter)   # emit idx -> tid -> count

    # -- helpers
    def where(self, ns, sid):
        for h in self.ids:
            if self.book[h].connected(ns, sid):
                return h
        return None

    def all_connected(self, ns):
        out = []
        for h in self.ids:
            out += list(self.book[h].conn[ns])
        return out

    def members(self, ns, room):
        out = set()
        for h in self.ids:
            out |= self.book[h].mem[ns][room]
        return out

    def _apply_emit(self, h, m, obs):
        op = m['op']
        ev, data = payload(op)
        b = self.book[h]
        rooms = emit_rooms(op['to'])
        if rooms is None:
            addressed = set(b.conn[op['ns']])
        else:
            addressed = set()
            for r in rooms:
                addressed |= b.mem[op['ns']][r]
        for sid in sorted(addressed):
            if sid in b.conn[op['ns']] and sid not in skip_list(op['skip']):
                t = b.conn[op['ns']][sid]
                obs['frames'][t].append(('event', op['ns'], [ev] + packed(data), op['cb'] is not None))
                self.sent_to[op['idx']][t] += 1
                if op['cb'] is not None:
                    self.asked[sid].append({'tok': op['cb'], 'issuer': m['origin'], 'open': True})

    def _local_recipients(self, h, op):
        """whom an emit applied on host h right now would be sent to: sid -> transport"""
        b = self.book[h]
        rooms = emit_rooms(op['to'])
        if rooms is None:
            addressed = set(b.conn[op['ns']])
        else:
            addressed = set()
            for r in rooms:
                addressed |= b.mem[op['ns']][r]
        return {sid: b.conn[op['ns']][sid] for sid in addressed
                if sid in b.conn[op['ns']] and sid not in skip_list(op['skip'])}

    def _disconnect_local(self, h, ns, sid, obs, notify=True):
        b = self.book[h]
        t = b.conn[ns][sid]
        if notify:
            obs['frames'][t].append(('disc', ns))
        obs['app'].append(('disc', h, sid, ns))
        b.disconnect(ns, sid)
        for e in self.asked[sid]:
            e['open'] = False
        # `callbacks[sid]` of this host goes, and with it user callbacks registered under that key
        for tok, (issuer, key) in list(self.user.items()):
            if issuer == h and key == sid:
                del self.user[tok]

    def _callback_home(self, h, tok, args, obs):
        if tok in self.user and self.user[tok][0] == h:
            del self.user[tok]
            obs['app'].append(('cb', h, tok, list(args)))

    def _consume(self, h, m, obs):
        kind = m['kind']
        if kind == 'callback':
            if m['issuer'] == h:
                self._callback_home(h, m['tok'], m['args'], obs)
            return
        if m['origin'] == h:
            return
        op = m['op']
        b = self.book[h]
        if kind == 'emit':
            self._apply_emit(h, m, obs)
        elif kind == 'enter':
            b.enter(op['ns'], op['sid'], room_key(op['room']))
        elif kind == 'leave':
            if b.connected(op['ns'], op['sid']):
                b.leave(op['ns'], op['sid'], room_key(op['room']))
        elif kind == 'close':
            b.close(op['ns'], room_key(op['room']))
        elif kind == 'disconnect':
            if b.connected(op['ns'], op['sid']):
                self._disconnect_local(h, op['ns'], op['sid'], obs)

    # -- one operation; -> expected observation
    def step(self, op):
        obs = {'frames': collections.defaultdict(list), 'app': [], 'res': 'ok', 'pub': 0}
        k = op['op']
        n0 = len(self.chan)
        if k == 'connect':
            self.book[op['h']].connect(op['ns'], op['t'], op['name'])
            self.home[op['name']] = op['h']
            self.tid[op['name']] = op['t']
        elif k == 'enter':
            b = self.book[op['via']]
            if b.connected(op['ns'], op['sid']):
                b.enter(op['ns'], op['sid'], room_key(op['room']))
            else:
                self.chan.append({'kind': 'enter', 'origin': op['via'], 'op': op})
        elif k == 'leave':
            b = self.book[op['via']]
            if b.connected(op['ns'], op['sid']):
                b.leave(op['ns'], op['sid'], room_key(op['room']))
            else:
                self.chan.append({'kind': 'leave', 'origin': op['via'], 'op': op})
        elif k == 'close':
            self.book[op['via']].close(op['ns'], room_key(op['room']))
            self.chan.append({'kind': 'close', 'origin': op['via'], 'op': op})
        elif k == 'disconnect':
            b = self.book[op['via']]
            if b.connected(op['ns'], op['sid']):
                self._disconnect_local(op['via'], op['ns'], op['sid'], obs)
            else:
                self.chan.append({'kind': 'disconnect', 'origin': op['via'], 'op': op})
        elif k == 'emit':
            via = op['via']
            if op['cb'] is not None:
                if via is None:
                    obs['res'] = 'Exception'           # RuntimeError: no server
                elif op['to'] is None:
                    obs['res'] = 'ValueError'
                elif 'list' in op['to']:
                    obs['res'] = 'TypeError'
                else:
                    self.user[op['cb']] = (via, room_key(op['to']))
            if obs['res'] == 'ok':
                m = {'kind': 'emit', 'origin': via if via is not None else 'wo', 'op': op}
                if via is not None:
                    self._apply_emit(via, m, obs)
                self.chan.append(m)
        elif k == 'ack':
            h = self.where(op['ns'], op['sid'])
            lst = self.asked[op['sid']]
            if h is not None and op['n'] < len(lst) and lst[op['n']]['open']:
                e = lst[op['n']]
                e['open'] = False
                if e['issuer'] == h:
                    self._callback_home(h, e['tok'], op['args'], obs)
                else:
                    self.chan.append({'kind': 'callback', 'issuer': e['issuer'], 'tok': e['tok'],
                                      'args': list(op['args'])})
        elif k == 'cdisc':
            # the client says DISCONNECT: its host runs the handler and forgets it, nothing is sent or published
            h = self.home.get(op['sid'])
            if h is not None and self.book[h].connected(op['ns'], op['sid']):
                self._disconnect_local(h, op['ns'], op['sid'], obs, notify=False)
        elif k == 'raced':
            outer, inner = op['outer'], op['inner']
            if outer['op'] == 'emit':
                h = outer['via']
                eop = outer
                entry = None
            else:
                h = outer['h']
                entry = self.chan[self.cursor[h]]
                self.cursor[h] += 1
                eop = entry['op']
            ev, data = payload(eop)
            pre = self._local_recipients(h, eop)
            label = inner['op'] if inner['op'] == 'cdisc' else 'local.' + inner['op']
            if inner['op'] == 'deliver':
                nxt = self.chan[self.cursor[h]] if self.cursor[h] < len(self.chan) else None
                label = 'deliver.' + (nxt['kind'] if nxt and (nxt['kind'] == 'callback' or nxt['origin'] != h)
                                      else 'nothing')
            sub = self.step(inner)
            post = self._local_recipients(h, eop)
            if entry is None:
                self.chan.append({'kind': 'emit', 'origin': h, 'op': eop})
            for t, v in sub['frames'].items():
                obs['frames'][t].extend(v)
            obs['app'] += sub['app']
            for sid, t in pre.items():
                if post.get(sid) == t:
                    self.sent_to[eop['idx']][t] += 1
            obs['raced'] = {
                'ev': ev, 'host': h, 'frame': ('event', eop['ns'], [ev] + packed(data), False),
                'stable': sorted(t for sid, t in pre.items() if post.get(sid) == t),
                'union': sorted(set(pre.values()) | set(post.values())),
                'n_pre': len(pre), 'inner_res': sub['res'], 'published': entry is None,
                'label': ('emit' if entry is None else 'listener') + '/' + label,
                'changed': set(pre.items()) != set(post.items()),
            }
        elif k == 'deliver':
            h = op['h']
            end = min(len(self.chan), self.cursor[h] + op['k'])
            while self.cursor[h] < end:
                m = self.chan[self.cursor[h]]
                self.cursor[h] += 1
                self._consume(h, m, obs)
        elif k == 'drain':
            for h in self.ids:
                end = len(self.chan)
                while self.cursor[h] < end:
                    m = self.chan[self.cursor[h]]
                    self.cursor[h] += 1
                    self._consume(h, m, obs)
        else:
            raise ValueError(k)
        obs['pub'] = len(self.chan) - n0
        obs['frames'] = {t: v for t, v in obs['frames'].items() if v}
        return obs

    def drained(self):
        return all(self.cursor[h] == len(self.chan) for h in self.ids)

    def membership_in_flight(self):
        """is a membership message still unapplied somewhere?"""
        for h in self.ids:
            for m in self.chan[self.cursor[h]:]:
                if m['kind'] in ('enter', 'leave', 'close', 'disconnect') and m['origin'] != h:
                    return True
        return False


class SingleSpec:
    """one server holding all the clients (the reference of the statement), as a Book"""

    def __init__(self, namespaces):
        self.book = Book(namespaces)
        self.asked = collections.defaultdict(list)

    def step(self, op):
        obs = {'frames': collections.defaultdict(list), 'app': []}
        k = op['op']
        b = self.book
        if k == 'connect':
            b.connect(op['ns'], op['t'], op['name'])
        elif k == 'enter':
            b.enter(op['ns'], op['sid'], room_key(op['room']))
        elif k == 'leave':
            b.leave(op['ns'], op['sid'], room_key(op['room']))
        elif k == 'close':
            b.close(op['ns'], room_key(op['room']))
        elif k == 'disconnect':
            if b.connected(op['ns'], op['sid']):
                obs['frames'][b.conn[op['ns']][op['sid']]].append(('disc', op['ns']))
                obs['app'].append(('disc', op['sid'], op['ns']))
                b.disconnect(op['ns'], op['sid'])
                for e in self.asked[op['sid']]:
                    e['open'] = False
        elif k == 'emit':
            ev, data = payload(op)
            rooms = emit_rooms(op['to'])
            addressed = set(b.conn[op['ns']]) if rooms is None else set().union(*[b.mem[op['ns']][r] for r in rooms])
            for sid in sorted(addressed):
                if sid in b.conn[op['ns']] and sid not in skip_list(op['skip']):
                    obs['frames'][b.conn[op['ns']][sid]].append(
                        ('event', op['ns'], [ev] + packed(data), op['cb'] is not None))
                    if op['cb'] is not None:
                        self.asked[sid].append({'tok': op['cb'], 'open': True})
        elif k == 'ack':
            lst = self.asked[op['sid']]
            if b.connected(op['ns'], op['sid']) and op['n'] < len(lst) and lst[op['n']]['open']:
                lst[op['n']]['open'] = False
                obs['app'].append(('cb', lst[op['n']]['tok'], list(op['args'])))
        obs['frames'] = {t: v for t, v in obs['frames'].items() if v}
        return obs


# ---------------------------------------------------------------- generator

DATA_KINDS = ['int', 'int', 'none', 'str', 'tuple', 'list', 'dict', 'bytes']


def gen_scenario(rng, mode):
    n_hosts = rng.choice([2, 2, 3, 3, 4])
    hosts = ['h%d' % i for i in range(n_hosts)]
    namespaces = ['/'] if rng.random() < 0.6 else ['/', '/a']
    n_tr = rng.choice([2, 3, 3, 4, 4, 5, 6])
    n_ops = rng.randint(8, 45)
    spec = Spec(hosts, namespaces)
    ops = []
    counter = {'sid': 0, 'idx': 0}
    tr_host = {}
    for i in range(n_tr):
        tr_host['t%d' % i] = hosts[i % n_hosts] if i < n_hosts and rng.random() < 0.8 else rng.choice(hosts)

    def push(op):
        ops.append(op)
        spec.step(op)
        if mode == 'A':
            spec.step({'op': 'drain'})

    def do_connect(t, ns):
        name = 's%d' % counter['sid']
        counter['sid'] += 1
        push({'op': 'connect', 'h': tr_host[t], 't': t, 'ns': ns, 'name': name})

    def free(t, ns):
        return spec.book[tr_host[t]].tsid(ns, t) is None

    for t in tr_host:
        for ns, p in [(namespaces[0], 0.85)] + [(n, 0.4) for n in namespaces[1:]]:
            if rng.random() < p:
                do_connect(t, ns)

    def any_ns():
        return rng.choice(namespaces) if rng.random() < 0.3 else namespaces[0]

    def known_sid(ns, p_connected=0.85):
        cur = spec.all_connected(ns)
        if cur and rng.random() < p_connected:
            return rng.choice(cur)
        if spec.home:
            return rng.choice(sorted(spec.home))
        return None

    def a_room(ns, p_used=0.5):
        used = sorted(r for h in hosts for r, m in spec.book[h].mem[ns].items() if m)
        if used and rng.random() < p_used:
            r = rng.choice(used)
            return {'r': r} if r in PLAIN_ROOMS else {'s': r}
        if rng.random() < 0.8 or not spec.home:
            return {'r': rng.choice(PLAIN_ROOMS[:2] if rng.random() < 0.8 else PLAIN_ROOMS)}
        return {'s': rng.choice(sorted(spec.home))}

    def via():
        return rng.choice(hosts)

    def callback_burst():
        """several hosts (the client's own and others, interleaved) emit WITH callbacks to one client,
        which then acknowledges out of issue order, with a duplicate: per-host ack ids collide"""
        ns = namespaces[0]
        cands = [s for s in spec.all_connected(ns) if spec.members(ns, s) <= {s}]
        if not cands:
            return
        sid = rng.choice(cands)
        home = spec.where(ns, sid)
        others = [h for h in hosts if h != home]
        base = len(spec.asked[sid])
        vias = [home, rng.choice(others)] + [rng.choice(hosts) for _ in range(rng.randint(0, 2))]
        rng.shuffle(vias)
        for v in vias:
            idx = counter['idx']
            counter['idx'] += 1
            push({'op': 'emit', 'via': v, 'ns': ns, 'to': {'s': sid}, 'skip': None, 'cb': idx, 'idx': idx,
                  'data': rng.choice(DATA_KINDS)})
        if mode == 'B':
            for h in hosts:
                push({'op': 'deliver', 'h': h, 'k': BIG})
        order = list(range(base, len(spec.asked[sid])))
        rng.shuffle(order)
        if order and rng.random() < 0.6:
            order.insert(rng.randrange(len(order) + 1), rng.choice(order))      # a duplicate ACK
        for n in order:
            push({'op': 'ack', 'ns': ns, 'sid': sid, 'n': n, 'args': rng.choice([[], [n], ['ok', n], [{'r': n}]])})
            if mode == 'B' and rng.random() < 0.5:
                push({'op': 'deliver', 'h': rng.choice(hosts), 'k': rng.choice([1, BIG])})

    guard = 0
    while len(ops) < n_ops and guard < 2000:
        guard += 1
        if rng.random() < 0.05:
            callback_burst()
            continue
        x = rng.random()
        if mode == 'B' and x < 0.22:
            h = rng.choice(hosts)
            push({'op': 'deliver', 'h': h, 'k': rng.choice([1, 1, 2, 3, BIG])})
            continue
        if mode == 'B':
            x = (x - 0.22) / 0.78
        if x < 0.07:
            cands = [(t, ns) for t in tr_host for ns in namespaces if free(t, ns)]
            if cands:
                do_connect(*rng.choice(cands))
        elif x < 0.30:
            ns = any_ns()
            sid = known_sid(ns, 0.95)
            if sid is None:
                continue
            push({'op': 'enter', 'via': via(), 'ns': ns, 'sid': sid, 'room': a_room(ns, 0.45)})
        elif x < 0.39:
            ns = any_ns()
            sid = known_sid(ns)
            if sid is None:
                continue
            push({'op': 'leave', 'via': via(), 'ns': ns, 'sid': sid, 'room': a_room(ns, 0.7)})
        elif x < 0.43:
            ns = any_ns()
            push({'op': 'close', 'via': via(), 'ns': ns, 'room': a_room(ns, 0.7)})
        elif x < 0.48:
            ns = any_ns()
            sid = known_sid(ns, 0.9)
            if sid is None:
                continue
            push({'op': 'disconnect', 'via': via(), 'ns': ns, 'sid': sid})
        elif x < 0.85:
            ns = any_ns()
            idx = counter['idx']
            counter['idx'] += 1
            v = None if rng.random() < 0.1 else via()
            y = rng.random()
            cb = None
            if y < 0.3 and v is not None:
                # acknowledged emit: addressed to one client
                sid = known_sid(ns, 0.95)
                if sid is None:
                    continue
                to = {'s': sid}
                cb = idx
                if mode == 'B' and rng.random() < 0.06:
                    to = rng.choice([None, {'list': [{'s': sid}]}])
            elif y < 0.42:
                to = None
            elif y < 0.65:
                to = a_room(ns, 0.8)
            elif y < 0.75:
                sid = known_sid(ns)
                to = {'s': sid} if sid else None
            else:
                to = {'list': [a_room(ns, 0.8) for _ in range(rng.randint(1, 3))]}
            if cb is None and v is None and mode == 'B' and rng.random() < 0.1:
                cb = idx                       # write-only manager with a callback: RuntimeError
            z = rng.random()
            if z < 0.45:
                skip = None
            elif z < 0.8:
                s = known_sid(ns, 0.9)
                skip = {'one': s} if s else None
            else:
                skip = {'many': [s for s in (known_sid(ns, 0.85) for _ in range(rng.randint(0, 3))) if s]}
            push({'op': 'emit', 'via': v, 'ns': ns, 'to': to, 'skip': skip, 'cb': cb, 'idx': idx,
                  'data': rng.choice(DATA_KINDS)})
        else:
            cands = [(s, i) for s, lst in sorted(spec.asked.items()) for i, e in enumerate(lst)]
            if not cands:
                continue
            openc = [(s, i) for s, i in cands if spec.asked[s][i]['open']]
            s, i = rng.choice(openc) if openc and rng.random() < 0.85 else rng.choice(cands)
            ns = next((n for n in namespaces if spec.where(n, s)), namespaces[0])
            args = rng.choice([[], [1], ['ok', i], [{'r': i}], [[1, 2]]])
            push({'op': 'ack', 'ns': ns, 'sid': s, 'n': i, 'args': args})
    if mode == 'B':
        for h in hosts:
            ops.append({'op': 'deliver', 'h': h, 'k': BIG})
        for h in hosts:
            ops.append({'op': 'deliver', 'h': h, 'k': BIG})
    return {'mode': mode, 'hosts': hosts, 'namespaces': namespaces, 'ops': ops}


RACED_INNER = ['deliver.leave', 'deliver.enter', 'deliver.disconnect', 'deliver.close',
               'local.leave', 'local.enter', 'local.disconnect', 'local.close', 'local.connect', 'cdisc']


def gen_raced(rng):
    """mode R: a cluster with several clients of one host in the same rooms, then emits whose local
    fan-out on that host is interleaved with ONE interfering action (see the module docstring)"""
    n_hosts = rng.choice([2, 2, 3])
    hosts = ['h%d' % i for i in range(n_hosts)]
    namespaces = ['/'] if rng.random() < 0.75 else ['/', '/a']
    spec = Spec(hosts, namespaces)
    ops = []
    counter = {'sid': 0, 'idx': 0, 't': 0}
    tr_host = {}

    def push(op):
        ops.append(op)
        spec.step(op)

    def new_transport(h):
        t = 't%d' % counter['t']
        counter['t'] += 1
        tr_host[t] = h
        return t

    def do_connect(t, ns):
        name = 's%d' % counter['sid']
        counter['sid'] += 1
        push({'op': 'connect', 'h': tr_host[t], 't': t, 'ns': ns, 'name': name})
        return name

    def connect_op(t, ns):
        name = 's%d' % counter['sid']
        counter['sid'] += 1
        return {'op': 'connect', 'h': tr_host[t], 't': t, 'ns': ns, 'name': name}

    def drain(h=None):
        for x in ([h] if h else hosts):
            if spec.cursor[x] < len(spec.chan):
                push({'op': 'deliver', 'h': x, 'k': BIG})

    busy = rng.choice(hosts)                 # most raced fan-outs happen here
    for h in hosts:
        for _ in range(rng.randint(3, 5) if h == busy else rng.randint(1, 2)):
            t = new_transport(h)
            for i, ns in enumerate(namespaces):
                if rng.random() < (0.95 if i == 0 else 0.6):
                    do_connect(t, ns)
    for ns in namespaces:
        for sid in list(spec.all_connected(ns)):
            for r, p in (('r1', 0.8), ('r2', 0.45)):
                if rng.random() < p:
                    push({'op': 'enter', 'via': spec.where(ns, sid) if rng.random() < 0.8 else rng.choice(hosts),
                          'ns': ns, 'sid': sid, 'room': {'r': r}})
    drain()

    def other(h):
        return rng.choice([x for x in hosts if x != h])

    def an_emit(v, ns, h):
        """an emit (no callback) with >= 1 recipient on host h, or None"""
        for _ in range(6):
            y = rng.random()
            if y < 0.5:
                to = {'r': 'r1'}
            elif y < 0.62:
                to = {'r': 'r2'}
            elif y < 0.82:
                to = None
            elif y < 0.94:
                to = {'list': rng.choice([[{'r': 'r1'}, {'r': 'r2'}], [{'r': 'r2'}, {'r': 'r1'}], [{'r': 'r1'}]])}
            else:
                here = sorted(spec.book[h].conn[ns])
                if not here:
                    continue
                to = {'s': rng.choice(here)}
            skip = None
            if rng.random() < 0.3:
                cands = sorted(spec._local_recipients(h, {'ns': ns, 'to': to, 'skip': None}))
                if cands:
                    s1 = rng.choice(cands)
                    skip = {'one': s1} if rng.random() < 0.7 else {'many': [s1, rng.choice(cands)]}
            e = {'op': 'emit', 'via': v, 'ns': ns, 'to': to, 'skip': skip, 'cb': None, 'idx': counter['idx'],
                 'data': rng.choice(DATA_KINDS)}
            n = len(spec._local_recipients(h, e))
            if n >= 2 or (n == 1 and rng.random() < 0.25):
                counter['idx'] += 1
                return e
        return None

    def one_raced():
        h = busy if rng.random() < 0.8 else rng.choice(hosts)
        ns = namespaces[0] if rng.random() < 0.75 else rng.choice(namespaces)
        listener = rng.random() < 0.3
        if listener:
            # the emit comes from another host (or the write-only manager): h's listener thread fans it out
            drain(h)
            e = an_emit(None if rng.random() < 0.2 else other(h), ns, h)
            if e is None:
                return
            push(e)
            outer = {'op': 'deliver', 'h': h, 'k': 1}
        else:
            e = an_emit(h, ns, h)
            if e is None:
                return
            outer = e
        pre = spec._local_recipients(h, e)
        rooms = emit_rooms(e['to'])
        here = sorted(spec.book[h].conn[ns])
        kinds = [x for x in RACED_INNER if not (listener and x.startswith('deliver.'))]
        if rooms is None:
            # everybody is addressed: only connections count (room changes are tried as well, rarely)
            kinds = [x for x in kinds if x.split('.')[-1] in ('disconnect', 'connect', 'cdisc') or rng.random() < 0.15]
        kind = rng.choice(kinds)
        what = kind.split('.')[-1]
        member = rng.choice(sorted(pre)) if rng.random() < 0.85 else rng.choice(here)
        outsiders = [x for x in here if x not in pre]
        room = rng.choice(rooms) if rooms else rng.choice(['r1', 'r2'])
        room = {'r': room} if room in PLAIN_ROOMS else {'s': room}
        if what == 'leave':
            act = {'op': 'leave', 'ns': ns, 'sid': member, 'room': room}
        elif what == 'enter':
            act = {'op': 'enter', 'ns': ns, 'sid': rng.choice(outsiders) if outsiders and rng.random() < 0.85 else member,
                   'room': room}
        elif what == 'disconnect':
            act = {'op': 'disconnect', 'ns': ns, 'sid': member if rng.random() < 0.8 or not outsiders
                   else rng.choice(outsiders)}
        elif what == 'close':
            act = {'op': 'close', 'ns': ns, 'room': room}
        elif what == 'cdisc':
            act = {'op': 'cdisc', 'ns': ns, 'sid': member if rng.random() < 0.8 or not outsiders
                   else rng.choice(outsiders)}
        else:
            free_t = [t for t in tr_host if tr_host[t] == h and spec.book[h].tsid(ns, t) is None]
            t = rng.choice(free_t) if free_t and rng.random() < 0.5 else new_transport(h)
            act = connect_op(t, ns)
        if kind.startswith('deliver.'):
            if not listener:
                drain(h)
            act['via'] = other(h)
            push(act)                       # published by another host: pending for h
            inner = {'op': 'deliver', 'h': h, 'k': 1}
        else:
            if 'via' not in act and act['op'] in ('leave', 'enter', 'disconnect', 'close'):
                act['via'] = h
            inner = act
        push({'op': 'raced', 'outer': outer, 'inner': inner, 'after': rng.randrange(len(pre)),
              'pos': rng.choice(['pre', 'post'])})

    def filler():
        x = rng.random()
        ns = rng.choice(namespaces)
        cur = spec.all_connected(ns)
        if x < 0.3 and cur:
            push({'op': 'enter', 'via': rng.choice(hosts), 'ns': ns, 'sid': rng.choice(cur),
                  'room': {'r': rng.choice(['r1', 'r2'])}})
        elif x < 0.4 and cur:
            push({'op': 'leave', 'via': rng.choice(hosts), 'ns': ns, 'sid': rng.choice(cur),
                  'room': {'r': rng.choice(['r1', 'r2'])}})
        elif x < 0.75:
            e = an_emit(rng.choice(hosts), ns, busy)
            if e is not None:
                push(e)
        else:
            push({'op': 'deliver', 'h': rng.choice(hosts), 'k': rng.choice([1, 2, BIG])})

    for _ in range(rng.choice([1, 1, 2, 3])):
        for _ in range(rng.choice([0, 0, 1, 2])):
            filler()
        n0 = len(ops)
        for _ in range(4):
            one_raced()
            if len(ops) > n0 and ops[-1]['op'] == 'raced':
                break
        if rng.random() < 0.5:
            filler()
    for _ in range(2):
        for h in hosts:
            ops.append({'op': 'deliver', 'h': h, 'k': BIG})
    return {'mode': 'R', 'hosts': hosts, 'namespaces': namespaces, 'ops': ops}


def in_domain(sc):
    """the quantifier of C07 plus what the executors need"""
    spec = Spec(sc['hosts'], sc['namespaces'])
    seen_names = set()
    conn_t = {}

    def raced_ok(op):
        outer, inner = op.get('outer') or {}, op.get('inner') or {}
        if sc['mode'] != 'R' or op.get('pos', 'pre') not in ('pre', 'post'):
            return False
        if outer.get('op') == 'emit':
            if outer['via'] is None or outer['cb'] is not None or not op_ok(outer):
                return False
            h, e = outer['via'], outer
        elif outer.get('op') == 'deliver':
            h = outer['h']
            if outer['k'] != 1 or h not in spec.cursor or spec.cursor[h] >= len(spec.chan):
                return False
            m = spec.chan[spec.cursor[h]]
            if m['kind'] != 'emit' or m['origin'] == h or m['op']['cb'] is not None:
                return False
            e = m['op']
        else:
            return False
        if not isinstance(op.get('after'), int) or not 0 <= op['after'] < len(spec._local_recipients(h, e)):
            return False
        ik = inner.get('op')
        if ik == 'deliver':
            # the listener thread of h: one thread, so not while it is itself delivering the outer emit
            return outer['op'] == 'emit' and inner['h'] == h and inner['k'] == 1 and spec.cursor[h] < len(spec.chan)
        if ik in ('enter', 'leave', 'disconnect', 'close'):
            return inner['via'] == h and op_ok(inner)
        if ik == 'connect':
            return inner['h'] == h and op_ok(inner)
        if ik == 'cdisc':
            return op_ok(inner) and spec.home.get(inner['sid']) == h
        return False

    def op_ok(op):
        k = op['op']
        if k == 'raced':
            return raced_ok(op)
        if k == 'cdisc' and sc['mode'] != 'R':
            return False
        if k == 'connect':
            if op['name'] in seen_names:
                return False
            if conn_t.setdefault(op['t'], op['h']) != op['h']:
                return False
            if spec.book[op['h']].tsid(op['ns'], op['t']) is not None:
                return False
        elif k in ('enter', 'leave', 'disconnect', 'ack', 'cdisc'):
            if op['sid'] not in seen_names:
                return False
        if k in ('enter', 'leave', 'close') and 's' in op['room'] and op['room']['s'] not in seen_names:
            return False
        if k == 'emit':
            rooms = [] if op['to'] is None else (op['to']['list'] if 'list' in op['to'] else [op['to']])
            for r in rooms:
                if 's' in r and r['s'] not in seen_names:
                    return False
            for s in skip_list(op['skip']):
                if s not in seen_names:
                    return False
            if 'list' in (op['to'] or {}) and not op['to']['list']:
                return False
            if op['cb'] is not None and sc['mode'] == 'A':
                # "Callback functions can only be used when addressing an individual client"
                if op['via'] is None or op['to'] is None or 's' not in op['to']:
                    return False
                if not spec.members(op['ns'], op['to']['s']) <= {op['to']['s']}:
                    return False
        if k in ('deliver', 'drain') and sc['mode'] == 'A':
            return False
        return True

    for op in sc['ops']:
        if not op_ok(op):
            return False
        for c in ([op['inner'], op['outer']] if op['op'] == 'raced' else [op]):
            if c['op'] == 'connect':
                seen_names.add(c['name'])
                conn_t.setdefault(c['t'], c['h'])
        spec.step(op)
        if sc['mode'] == 'A':
            spec.step({'op': 'drain'})
    return True


# ---------------------------------------------------------------- real executors

def canon_frames(frames):
    out = []
    for f in W.decode_frames([x for x in frames if not isinstance(x, tuple)]):
        if not isinstance(f[0], int):
            out.append(('other', repr(f)))
            continue
        t, ns, pid, data = f
        if t in (2, 5):
            out.append(('event', ns, data, pid))
        elif t == 1:
            out.append(('disc', ns))
        else:
            out.append(('other', t, ns, pid, repr(data)[:40]))
    return out


class Names:
    def __init__(self):
        self.real = {}
        self.name = {}

    def bind(self, name, real):
        self.real[name] = real
        self.name[real] = name

    def sid(self, name):
        return self.real.get(name, 'unbound-' + name)

    def room(self, room):
        return room['r'] if 'r' in room else self.sid(room['s'])

    def back(self, v):
        if isinstance(v, str):
            if v in self.name:
                return self.name[v]
            if v.startswith('unbound-'):
                return v[8:]
        return v


def api_args(names, op):
    to = op['to']
    if to is None:
        target = None
    elif 'list' in to:
        target = [names.room(r) for r in to['list']]
    else:
        target = names.room(to)
    sk = op['skip']
    if sk is None:
        skip = None
    elif 'one' in sk:
        skip = names.sid(sk['one'])
    else:
        skip = [names.sid(x) for x in sk['many']]
    return target, skip


def ack_frame(ns, pid, args):
    from socketio import packet as sp
    enc = sp.Packet(sp.ACK, data=list(args), namespace=ns, id=pid).encode()
    return enc if isinstance(enc, list) else [enc]


def canon_pub(names, d):
    d = dict(d)
    out = {'method': d.get('method'), 'host_id': d.get('host_id')}
    m = d.get('method')
    if m == 'emit':
        room = d.get('room')
        if isinstance(room, (list, tuple)):
            room = {'many': [names.back(r) for r in room]}
        elif room is not None:
            room = {'one': names.back(room)}
        sk = d.get('skip_sid')
        if isinstance(sk, list):
            sk = {'many': [names.back(s) for s in sk]}
        elif sk is not None:
            sk = {'one': names.back(sk)}
        cb = d.get('callback')
        if cb is not None:
            cb = [names.back(cb[0]), cb[1], cb[2]]
        out.update(event=d.get('event'), data=packed(d.get('data')), namespace=d.get('namespace'),
                   room=room, skip_sid=sk, callback=cb)
    elif m == 'callback':
        out.update(sid=names.back(d.get('sid')), namespace=d.get('namespace'), id=d.get('id'),
                   args=list(d.get('args')))
    else:
        for f in ('sid', 'room'):
            if f in d:
                out[f] = names.back(d[f])
        out['namespace'] = d.get('namespace')
    return out


def run_cluster(family, sc):
    """-> list of observations, one per op (mode A: the drain after the op is folded in)"""
    pw = WP.PubSubWorld(family, len(sc['hosts']), namespaces=sc['namespaces'], host_ids=sc['hosts'])
    names = Names()
    asked = collections.defaultdict(list)      # sid name -> ids asked, in order
    tids = []
    tid_ns_name = {}
    cur = {'host': None}
    trace = []

    def mk_cb(tok):
        def cb(*a):
            pw.app.append(('cb', cur['host'], tok, list(a)))
        return cb

    def exec_op(op, extra_frames, info):
        k = op['op']
        res = ('ok', None)
        if k == 'connect':
            cur['host'] = op['h']
            if op['t'] not in tids:
                tids.append(op['t'])
            sid, rest = pw.connect(op['h'], op['t'], op['ns'])
            if sid is None:
                res = ('exc', 'refused')
            else:
                names.bind(op['name'], sid)
                tid_ns_name[(op['t'], op['ns'])] = op['name']
            if rest:
                extra_frames.setdefault(op['t'], []).extend(rest)
        elif k == 'enter':
            cur['host'] = op['via']
            res = pw.api(op['via'], 'enter_room', names.sid(op['sid']), names.room(op['room']), namespace=op['ns'])
        elif k == 'leave':
            cur['host'] = op['via']
            res = pw.api(op['via'], 'leave_room', names.sid(op['sid']), names.room(op['room']), namespace=op['ns'])
        elif k == 'close':
            cur['host'] = op['via']
            res = pw.api(op['via'], 'close_room', names.room(op['room']), namespace=op['ns'])
        elif k == 'disconnect':
            cur['host'] = op['via']
            res = pw.api(op['via'], 'disconnect', names.sid(op['sid']), namespace=op['ns'])
        elif k == 'emit':
            ev, data = payload(op)
            target, skip = api_args(names, op)
            cb = mk_cb(op['cb']) if op['cb'] is not None else None
            if op['via'] is None:
                cur['host'] = 'wo'
                res = pw.wo_emit(ev, data, namespace=op['ns'], room=target, skip_sid=skip, callback=cb)
            else:
                cur['host'] = op['via']
                res = pw.api(op['via'], 'emit', ev, data, to=target, skip_sid=skip, namespace=op['ns'],
                             callback=cb)
        elif k == 'ack':
            t = next((t for (t, ns), nm in tid_ns_name.items() if nm == op['sid'] and ns == op['ns']), None)
            if t is not None and op['n'] < len(asked[op['sid']]):
                cur['host'] = pw.ids[pw.where[t]]
                for fr in ack_frame(op['ns'], asked[op['sid']][op['n']], op['args']):
                    r, contained = pw.recv(t, fr)
                    if contained:
                        res = ('exc', contained[0][1])
        elif k == 'cdisc':
            # the client's DISCONNECT packet arrives on its transport
            t = next((t for (t, ns), nm in tid_ns_name.items() if nm == op['sid'] and ns == op['ns']), None)
            if t is not None:
                cur['host'] = pw.ids[pw.where[t]]
                r, contained = pw.recv(t, '1' if op['ns'] == '/' else '1%s,' % op['ns'])
                if r[0] != 'ok':
                    res = r
                elif contained:
                    res = ('exc', contained[0][1])
        elif k == 'raced':
            outer, inner = op['outer'], op['inner']
            if outer['op'] == 'emit':
                h = outer['via']
                ev = payload(outer)[0]
            else:
                h = outer['h']
                m = pw.mgr[pw.index(h)]
                ev = None
                if m.cursor < len(pw.chan.msgs) and isinstance(pw.chan.msgs[m.cursor], bytes):
                    ev = pickle.loads(pw.chan.msgs[m.cursor]).get('event')
            if inner['op'] == 'connect' and inner['t'] not in pw.where:
                pw.open(inner['h'], inner['t'])     # the engine.io connection exists before the flight
            needle = '[' + json.dumps(ev)
            box = {}

            def action():
                box['res'] = exec_op(inner, extra_frames, info)
                cur['host'] = h

            pw.arm(h, lambda text: needle in text, op['after'], op.get('pos', 'pre'), action)
            try:
                res = exec_op(outer, extra_frames, info)
            finally:
                fired = pw.disarm(h)
            if not fired:
                action()                            # keeps the rest of the history meaningful; reported
            info['fired'] = fired
            info['inner_res'] = 'ok' if box['res'][0] == 'ok' else box['res'][1]
        elif k == 'deliver':
            cur['host'] = op['h']
            res = pw.deliver(op['h'], op['k'])
        elif k == 'drain':
            for h in sc['hosts']:
                cur['host'] = h
                pw.deliver(h, BIG)
        return res

    try:
        for op in sc['ops']:
            n_pub0 = len(pw.chan.published)
            extra_frames = {}
            info = {}
            res = exec_op(op, extra_frames, info)
            if sc['mode'] == 'A':
                for h in sc['hosts']:
                    cur['host'] = h
                    pw.deliver(h, BIG)
            for w in pw.hosts:
                w.settle()
            frames = {}
            for t in tids:
                fr = canon_frames(extra_frames.get(t, []) + pw.sent(t))
                if fr:
                    frames[t] = fr
                for f in fr:
                    if f[0] == 'event' and f[3] is not None:
                        nm = tid_ns_name.get((t, f[1]))
                        asked[nm].append(f[3])
            app = []
            for a in pw.app:
                if a[0] == 'cb':
                    app.append(a)
                else:
                    # ('disc', host, real sid, reason)
                    nm = names.back(a[2])
                    ns = next((n for (t, n), x in tid_ns_name.items() if x == nm), None)
                    app.append(('disc', a[1], nm, ns))
            pw.app.clear()
            pub = [canon_pub(names, d) for _h, d in pw.chan.published[n_pub0:]]
            status = 'ok' if res[0] == 'ok' else res[1]
            if status == 'RuntimeError':
                status = 'Exception'
            trace.append(dict(info, frames=frames, app=app, pub=pub, res=status,
                              raised=None if res[0] == 'ok' else res[1],
                              log=[(x[0], x[2], x[3]) for x in pw.log if x[1] == 'exception'],
                              drained=pw.drained()))
            pw.log.clear()
    finally:
        pw.close()
    return trace


def run_single(family, sc):
    """ONE plain server (default Manager) holding all the clients; same operations"""
    w = W.ServerWorld(family, namespaces=list(sc['namespaces']))
    names = Names()
    asked = collections.defaultdict(list)
    tids = []
    tid_ns_name = {}
    app = []

    def on_disc(ns):
        def h(sid, reason=None):
            app.append(('disc', names.back(sid), ns))
        if family == 'asyncio':
            async def ah(sid, reason=None):
                return h(sid, reason)
            return ah
        return h

    for ns in sc['namespaces']:
        w.sio.on('disconnect', on_disc(ns), namespace=ns)
    trace = []
    try:
        for op in sc['ops']:
            k = op['op']
            if k == 'connect':
                if op['t'] not in tids:
                    tids.append(op['t'])
                    w.open(op['t'])
                w.recv(op['t'], '0' if op['ns'] == '/' else '0%s,' % op['ns'])
                for f in w.sent(op['t']):
                    d = W.decode_frames([f])
                    if d and d[0][0] == 0 and d[0][1] == op['ns']:
                        names.bind(op['name'], d[0][3]['sid'])
                        tid_ns_name[(op['t'], op['ns'])] = op['name']
            elif k == 'enter':
                w.api('enter_room', names.sid(op['sid']), names.room(op['room']), namespace=op['ns'])
            elif k == 'leave':
                w.api('leave_room', names.sid(op['sid']), names.room(op['room']), namespace=op['ns'])
            elif k == 'close':
                w.api('close_room', names.room(op['room']), namespace=op['ns'])
            elif k == 'disconnect':
                w.api('disconnect', names.sid(op['sid']), namespace=op['ns'])
            elif k == 'emit':
                ev, data = payload(op)
                target, skip = api_args(names, op)
                tok = op['cb']
                cb = (lambda tok: (lambda *a: app.append(('cb', tok, list(a)))))(tok) if tok is not None else None
                w.api('emit', ev, data, to=target, skip_sid=skip, namespace=op['ns'], callback=cb)
            elif k == 'ack':
                t = next((t for (t, ns), nm in tid_ns_name.items() if nm == op['sid'] and ns == op['ns']), None)
                if t is not None and op['n'] < len(asked[op['sid']]):
                    for fr in ack_frame(op['ns'], asked[op['sid']][op['n']], op['args']):
                        w.recv(t, fr)
            w.settle()
            frames = {}
            for t in tids:
                fr = canon_frames(w.sent(t))
                if fr:
                    frames[t] = fr
                for f in fr:
                    if f[0] == 'event' and f[3] is not None:
                        asked[tid_ns_name.get((t, f[1]))].append(f[3])
            trace.append({'frames': frames, 'app': list(app)})
            app.clear()
    finally:
        w.close()
    return trace


# ---------------------------------------------------------------- the model

def room_w(room):
    return C.s2w(room_key(room))


def op_to_wire(op):
    k = op['op']
    if k == 'connect':
        return {'op': 'connect', 'h': C.s2w(op['h']), 'ns': C.s2w(op['ns']), 'eio': C.s2w(op['t']),
                'sid': C.s2w(op['name'])}
    if k in ('enter', 'leave'):
        return {'op': k, 'via': C.s2w(op['via']), 'ns': C.s2w(op['ns']), 'sid': C.s2w(op['sid']),
                'room': room_w(op['room'])}
    if k == 'close':
        return {'op': 'close', 'via': C.s2w(op['via']), 'ns': C.s2w(op['ns']), 'room': room_w(op['room'])}
    if k == 'disconnect':
        return {'op': 'disconnect', 'via': C.s2w(op['via']), 'ns': C.s2w(op['ns']), 'sid': C.s2w(op['sid'])}
    if k == 'emit':
        ev, data = payload(op)
        to = op['to']
        target = None if to is None else (
            {'many': [room_w(r) for r in to['list']]} if 'list' in to else {'one': room_w(to)})
        sk = op['skip']
        skip = None if sk is None else (
            {'one': C.s2w(sk['one'])} if 'one' in sk else {'many': [C.s2w(x) for x in sk['many']]})
        return {'op': 'emit', 'via': C.os2w(op['via']), 'ev': C.s2w(ev), 'data': C.data2w(data),
                'ns': C.s2w(op['ns']), 'to': target, 'skip': skip, 'cb': op['cb']}
    if k == 'ack':
        return {'op': 'ack', 'ns': C.s2w(op['ns']), 'sid': C.s2w(op['sid']), 'n': op['n'],
                'args': [C.j2w(a) for a in op['args']]}
    if k == 'deliver':
        return {'op': 'deliver', 'h': C.s2w(op['h']), 'k': min(op['k'], BIG)}
    if k == 'drain':
        return {'op': 'drain'}
    raise ValueError(k)


def outs_to_obs(outs, with_host=True):
    frames = collections.defaultdict(list)
    app = []
    res = 'ok'
    log = []
    for o in outs:
        k = o['k']
        if k == 'send':
            pid = None if o['id'] is None else int(o['id'])
            frames[C.w2s(o['eio'])].append(('event', C.w2s(o['ns']), [C.w2j(o['ev'])] + [C.w2j(a) for a in o['args']], pid))
        elif k == 'disc':
            frames[C.w2s(o['eio'])].append(('disc', C.w2s(o['ns'])))
        elif k == 'disc_handler':
            if with_host:
                app.append(('disc', C.w2s(o['host']), C.w2s(o['sid']), C.w2s(o['ns'])))
            else:
                app.append(('disc', C.w2s(o['sid']), C.w2s(o['ns'])))
        elif k == 'callback':
            if with_host:
                app.append(('cb', C.w2s(o['host']), int(o['tok']), [C.w2j(a) for a in o['args']]))
            else:
                app.append(('cb', int(o['tok']), [C.w2j(a) for a in o['args']]))
        elif k == 'raised':
            res = o['exc']
        elif k == 'handler_error':
            log.append((C.w2s(o['host']), 'handler', o['exc']))
        elif k == 'restarted':
            log.append((C.w2s(o['host']), 'restarted', None))
    return {'frames': dict(frames), 'app': app, 'res': res, 'log': log}


def pub_from_wire(p):
    m = p['method']
    out = {'method': m, 'host_id': C.ow2s(p.get('host_id'))}

    def tgt(x):
        if x is None:
            return None
        if 'one' in x:
            return {'one': C.w2s(x['one'])}
        return {'many': [C.w2s(r) for r in x['many']]}
    if m == 'emit':
        d = p['data']
        data = [] if 'none' in d else ([C.w2j(d['one'])] if 'one' in d else [C.w2j(x) for x in d['tuple']])
        cb = p['callback']
        out.update(event=C.w2s(p['event']), data=data, namespace=C.w2s(p['namespace']), room=tgt(p['room']),
                   skip_sid=tgt(p['skip_sid']),
                   callback=None if cb is None else [C.w2s(cb[0]), C.w2s(cb[1]), int(cb[2])])
    elif m == 'callback':
        out.update(sid=C.w2s(p['sid']), namespace=C.w2s(p['namespace']), id=int(p['id']),
                   args=[C.w2j(a) for a in p['args']])
    else:
        for f in ('sid', 'room'):
            if f in p:
                out[f] = C.w2s(p[f])
        out['namespace'] = C.w2s(p['namespace'])
    return out


def run_model(drv, sc):
    """-> (cluster trace, single trace)"""
    drv.ask({'op': 'reset', 'hosts': [C.s2w(h) for h in sc['hosts']], 'wo': C.s2w('wo')})
    ctrace, strace = [], []
    for op in sc['ops']:
        w = op_to_wire(op)
        r = drv.ask({'op': 'c', 'do': w})
        outs = list(r['out'])
        pubs = list(r['pub'])
        if sc['mode'] == 'A':
            r2 = drv.ask({'op': 'c', 'do': {'op': 'drain'}})
            outs += r2['out']
            pubs += r2['pub']
            r = r2
        obs = outs_to_obs(outs)
        obs['pub'] = [pub_from_wire(p) for p in pubs]
        obs['drained'] = all(int(c[1]) == int(r['chan']) for c in r['cursors'])
        ctrace.append(obs)
        if sc['mode'] == 'A':
            rs = drv.ask({'op': 's', 'do': w})
            strace.append(outs_to_obs(rs['out'], with_host=False))
    return ctrace, strace


# ---------------------------------------------------------------- comparisons

def seen_view(frames):
    """ack ids abstracted: what `Sio.PubSub.seenBy` keeps"""
    out = {}
    for t, fr in frames.items():
        out[t] = [(f[0], f[1], f[2], f[3] is not None) if f[0] == 'event' else f for f in fr]
    return out


def app_nohost(app):
    return [(a[0],) + tuple(a[2:]) for a in app]


def jl(x):
    return json.loads(json.dumps(C.jsonable(x)))


def oracle_failures(sc, real, single_real=None):
    """the statement against the implementation"""
    bad = []
    spec = Spec(sc['hosts'], sc['namespaces'])
    sref = SingleSpec(sc['namespaces'])
    delivered = collections.defaultdict(collections.Counter)     # emit idx -> tid -> count
    ev_idx = {}
    for op in sc['ops']:
        if op['op'] == 'raced':
            op = op['outer']
        if op['op'] == 'emit':
            ev_idx[payload(op)[0]] = op['idx']
    for i, (op, got) in enumerate(zip(sc['ops'], real)):
        want = spec.step(op)
        if sc['mode'] == 'A':
            w2 = spec.step({'op': 'drain'})
            for t, v in w2['frames'].items():
                want['frames'].setdefault(t, []).extend(v)
            want['app'] += w2['app']
            want['pub'] += w2['pub']
        gseen = seen_view(got['frames'])
        if 'raced' in want:
            # a membership change landed inside this message's fan-out on host rc['host']: what the
            # statement fixes is judged here; everything else the operation did is the interfering
            # action's own (exact) outcome, compared below once the raced message is set aside
            rc = want['raced']
            what = 'raced op %s [%s, inside write %d of %d]' % (json.dumps(op), rc['label'], op['after'], rc['n_pre'])
            n_got = collections.Counter()
            rest = {}
            for t, fr in gseen.items():
                keep = []
                for f in fr:
                    if f[0] == 'event' and f[2] and f[2][0] == rc['ev']:
                        n_got[t] += 1
                        if jl(f) != jl(rc['frame']):
                            bad.append((i, '%s: client %s received %r, the message is %r' % (what, t, f, rc['frame'])))
                    else:
                        keep.append(f)
                if keep:
                    rest[t] = keep
            gseen = rest
            if got['raised'] is not None:
                bad.append((i, '%s: the call raised %s' % (what, got['raised'])))
            for t in rc['stable']:
                if n_got[t] != 1:
                    bad.append((i, '%s: client %s was addressed on %s before, during and after the flight and '
                                   'received the message %d times' % (what, t, rc['host'], n_got[t])))
            for t, n in n_got.items():
                if t not in rc['union']:
                    bad.append((i, '%s: client %s was addressed at no point of the flight and received the '
                                   'message' % (what, t)))
                elif n > 1:
                    bad.append((i, '%s: client %s received the message %d times' % (what, t, n)))
            if not got.get('fired'):
                bad.append((i, '%s: the fan-out made fewer than %d writes' % (what, op['after'] + 1)))
            if got.get('inner_res') != rc['inner_res']:
                bad.append((i, '%s: the interfering action must end with %r, ended with %r' % (
                    what, rc['inner_res'], got.get('inner_res'))))
            mine = [d for d in got['pub'] if d.get('method') == 'emit' and d.get('event') == rc['ev']]
            if len(mine) != (1 if rc['published'] else 0) or (mine and got['pub'][-1] is not mine[0]):
                bad.append((i, '%s: the message must be published %s, channel got %r' % (
                    what, 'exactly once, after what the interfering action published' if rc['published']
                    else 'by nobody again', got['pub'])))
        for t in set(gseen) | set(want['frames']):
            if jl(gseen.get(t, [])) != jl(want['frames'].get(t, [])):
                bad.append((i, 'op %s: client %s must receive %r, received %r' % (
                    json.dumps(op), t, want['frames'].get(t, []), gseen.get(t, []))))
        if jl(got['app']) != jl(want['app']):
            bad.append((i, 'op %s: application must see %r, saw %r' % (json.dumps(op), want['app'], got['app'])))
        if got['res'] != want['res']:
            bad.append((i, 'op %s: call must end with %r, ended with %r' % (json.dumps(op), want['res'], got['res'])))
        if len(got['pub']) != want['pub']:
            bad.append((i, 'op %s: %d message(s) must reach the channel, %d did' % (
                json.dumps(op), want['pub'], len(got['pub']))))
        if got.get('log'):
            bad.append((i, 'op %s: the listener logged an exception: %r' % (json.dumps(op), got['log'])))
        for t, fr in got['frames'].items():
            for f in fr:
                if f[0] == 'event' and f[2] and f[2][0] in ev_idx:
                    delivered[ev_idx[f[2][0]]][t] += 1
                elif f[0] == 'other':
                    bad.append((i, 'op %s: unexpected packet for %s: %r' % (json.dumps(op), t, f)))
        if sc['mode'] == 'A':
            # exact equivalence with ONE server holding all clients (book form of the statement)
            sw = sref.step(op)
            for t in set(gseen) | set(sw['frames']):
                if jl(gseen.get(t, [])) != jl(sw['frames'].get(t, [])):
                    bad.append((i, 'op %s: a single server would send %s %r, the cluster sent %r' % (
                        json.dumps(op), t, sw['frames'].get(t, []), gseen.get(t, []))))
            if jl(app_nohost(got['app'])) != jl(sw['app']):
                bad.append((i, 'op %s: on a single server the application would see %r, saw %r' % (
                    json.dumps(op), sw['app'], app_nohost(got['app']))))
            if single_real is not None:
                sr = single_real[i]
                if jl(seen_view(sr['frames'])) != jl(gseen):
                    bad.append((i, 'op %s: the real single server sent %r, the cluster %r' % (
                        json.dumps(op), seen_view(sr['frames']), gseen)))
                if jl(sr['app']) != jl(app_nohost(got['app'])):
                    bad.append((i, 'op %s: on the real single server the application saw %r, on the cluster %r' % (
                        json.dumps(op), sr['app'], app_nohost(got['app']))))
            if not got['drained']:
                bad.append((i, 'op %s: the channel is not drained after one pass' % json.dumps(op)))
    # at most once, whatever the schedule
    for idx, cnt in delivered.items():
        for t, n in cnt.items():
            if n > 1:
                bad.append((len(sc['ops']) - 1, 'emit #%d reached client %s %d times' % (idx, t, n)))
    # callbacks: at most once each, on the issuing host
    seen_cb = collections.Counter()
    issuer = {op['cb']: op['via'] for op in sc['ops'] if op['op'] == 'emit' and op['cb'] is not None}
    for i, got in enumerate(real):
        for a in got['app']:
            if a[0] == 'cb':
                seen_cb[a[2]] += 1
                if issuer.get(a[2]) != a[1]:
                    bad.append((i, 'callback %r ran on %s, the emit was issued on %s' % (a[2], a[1], issuer.get(a[2]))))
    for tok, n in seen_cb.items():
        if n > 1:
            bad.append((len(sc['ops']) - 1, 'callback %r was invoked %d times' % (tok, n)))
    return bad


def unraced_failures(sc, real):
    """mode B: an emit that no membership change races is delivered exactly like on one server"""
    bad = []
    spec = Spec(sc['hosts'], sc['namespaces'])
    ref = Book(sc['namespaces'])
    open_emits = []         # [idx, position in channel, expected Counter, raced?]
    ev_idx = {}
    got_by_idx = collections.defaultdict(collections.Counter)
    checked = 0
    for i, (op, got) in enumerate(zip(sc['ops'], real)):
        k = op['op']
        membership = k in ('connect', 'enter', 'leave', 'close', 'disconnect')
        if membership:
            for e in open_emits:
                e[3] = True
        if k == 'emit' and (op['cb'] is None or (op['via'] is not None and op['to'] is not None
                                                 and 'list' not in op['to'])):
            raced = spec.membership_in_flight()
            # membership operations issued through different hosts are not linearised by the channel (a
            # delayed remote leave_room can land after a later local enter_room): where that has already
            # made the hosts' tables differ from the issue-order book, the emit is not "unraced"
            rooms_ = emit_rooms(op['to'])
            if set(spec.all_connected(op['ns'])) != set(ref.conn[op['ns']]) or any(
                    spec.members(op['ns'], r) != ref.mem[op['ns']][r] for r in (rooms_ or [])):
                raced = True
            exp = ref.expected(op['ns'], emit_rooms(op['to']), skip_list(op['skip']))
            open_emits.append([op['idx'], len(spec.chan), exp, raced])
            ev_idx[payload(op)[0]] = op['idx']
        # reference book: operations take effect when issued
        if k == 'connect':
            ref.connect(op['ns'], op['t'], op['name'])
        elif k == 'enter':
            ref.enter(op['ns'], op['sid'], room_key(op['room']))
        elif k == 'leave':
            ref.leave(op['ns'], op['sid'], room_key(op['room']))
        elif k == 'close':
            ref.close(op['ns'], room_key(op['room']))
        elif k == 'disconnect':
            ref.disconnect(op['ns'], op['sid'])
        spec.step(op)
        for t, fr in got['frames'].items():
            for f in fr:
                if f[0] == 'event' and f[2] and f[2][0] in ev_idx:
                    got_by_idx[ev_idx[f[2][0]]][t] += 1
        still = []
        for e in open_emits:
            if all(spec.cursor[h] > e[1] for h in spec.ids):
                if not e[3]:
                    checked += 1
                    if dict(got_by_idx[e[0]]) != dict(e[2]):
                        bad.append((i, 'emit #%d was not raced by any membership change: a single server delivers '
                                       'to %r, the cluster delivered to %r' % (e[0], dict(e[2]), dict(got_by_idx[e[0]]))))
            else:
                still.append(e)
        open_emits = still
    return bad, checked


def correspondence_failures(sc, real, model):
    bad = []
    for i, (op, got, mod) in enumerate(zip(sc['ops'], real, model)):
        for key in ('frames', 'app', 'pub', 'res', 'drained'):
            if jl(got[key]) != jl(mod[key]):
                bad.append((i, 'op %s: %s: implementation %r, model %r' % (json.dumps(op), key, got[key], mod[key])))
                break
    return bad


def model_equiv_failures(sc, cmodel, smodel):
    """C07.sync_equiv evaluated by the driver: a difference means the build is not the audited one"""
    bad = []
    for i, (op, c, s) in enumerate(zip(sc['ops'], cmodel, smodel)):
        if jl(seen_view(c['frames'])) != jl(seen_view(s['frames'])) or jl(app_nohost(c['app'])) != jl(s['app']):
            bad.append((i, 'op %s: Lean cluster %r / %r, Lean single %r / %r' % (
                json.dumps(op), seen_view(c['frames']), c['app'], seen_view(s['frames']), s['app'])))
    return bad


def shrink(sc, still_fails, budget=150):
    cur = list(sc['ops'])
    changed = True
    while changed and budget > 0:
        changed = False
        i = len(cur) - 1
        while i >= 0 and budget > 0:
            cand = cur[:i] + cur[i + 1:]
            c2 = dict(sc, ops=cand)
            if cand and in_domain(c2):
                budget -= 1
                if still_fails(c2):
                    cur = cand
                    changed = True
            i -= 1
    return dict(sc, ops=cur)


def nontrivial(sc):
    """emit whose recipients live on >= 2 hosts, or a callback crossing hosts"""
    spec = Spec(sc['hosts'], sc['namespaces'])
    n = 0
    for op in sc['ops']:
        if op['op'] == 'raced':
            # the interfering action changed who is addressed on the host while the fan-out was under way
            if spec.step(op)['raced']['changed']:
                n += 1
            continue
        if op['op'] == 'emit':
            hosts = set()
            rooms = emit_rooms(op['to'])
            for h in sc['hosts']:
                if spec.book[h].expected(op['ns'], rooms, skip_list(op['skip'])):
                    hosts.add(h)
            if len(hosts) >= 2:
                n += 1
            if op['cb'] is not None and op['to'] and 's' in op['to'] and \
                    spec.home.get(op['to']['s']) not in (None, op['via']):
                n += 1
        spec.step(op)
        if sc['mode'] == 'A':
            spec.step({'op': 'drain'})
    return n


def judge(ctx, drv, family, sc, shrink_it=True):
    real = run_cluster(family, sc)
    single_real = run_single(family, sc) if sc['mode'] == 'A' else None
    oracle_only = sc['mode'] == 'R'          # emits are atomic in the model: no correspondence for raced fan-outs
    cmodel, smodel = ([], []) if oracle_only else run_model(drv, sc)
    obad = oracle_failures(sc, real, single_real)
    checked = 0
    if sc['mode'] == 'B' and not obad:
        ub, checked = unraced_failures(sc, real)
        obad += ub
    cbad = [] if oracle_only else correspondence_failures(sc, real, cmodel)
    ebad = model_equiv_failures(sc, cmodel, smodel) if sc['mode'] == 'A' else []
    if obad:
        small = sc
        if shrink_it:
            def f(c):
                r = run_cluster(family, c)
                s = run_single(family, c) if c['mode'] == 'A' else None
                return bool(oracle_failures(c, r, s)) or (c['mode'] == 'B' and bool(unraced_failures(c, r)[0]))
            small = shrink(sc, f)
        sreal = run_cluster(family, small)
        ssingle = run_single(family, small) if small['mode'] == 'A' else None
        sb = oracle_failures(small, sreal, ssingle) or (unraced_failures(small, sreal)[0] if small['mode'] == 'B' else []) or obad
        ctx.violation('oracle', '%s mode %s: %s' % (family, sc['mode'], sb[0][1]),
                      dict(small, family=family, failures=[b[1] for b in sb[:6]],
                           observed=[jl({k: v for k, v in o.items() if k != 'log'}) for o in sreal]))
    elif cbad:
        small = sc
        if shrink_it:
            small = shrink(sc, lambda c: bool(correspondence_failures(c, run_cluster(family, c), run_model(drv, c)[0])),
                           budget=80)
        sreal = run_cluster(family, small)
        smod = run_model(drv, small)[0]
        cb = correspondence_failures(small, sreal, smod) or cbad
        ctx.violation('correspondence', '%s mode %s: %s (oracle found no failing input)' % (family, sc['mode'], cb[0][1]),
                      dict(small, family=family, failures=[b[1] for b in cb[:6]]), no_input=True)
    if ebad:
        ctx.violation('proof', 'driver: %s' % ebad[0][1], dict(sc, family=family), no_input=True)
    return real, not (obad or cbad or ebad), checked


# ---------------------------------------------------------------- mode I: the host's one-time initialisation

def gen_init(rng):
    """Mode I (oracle only: the model's hosts are born initialised): nobody initialises the hosts' managers but the
    library itself, in `_handle_eio_connect` of a host's first engine.io connection.  On threaded hosts the first
    connections OVERLAP: while the first one is inside `manager.initialize()` (before / after the base class's
    body) 1-2 further transports of the same host run their `_handle_eio_connect` (optionally their CONNECT as
    well) re-entrantly — what request threads arriving meanwhile do.  The asyncio twin has no switching point there
    (`_handle_eio_connect` does not await between the flag test and the synchronous `initialize()`): its
    connections only follow each other.  Then emits from other hosts / the write-only manager / the host itself."""
    family = 'threading' if rng.random() < 0.75 else 'asyncio'
    hosts = ['h%d' % i for i in range(rng.choice([2, 2, 3]))]
    nss = rng.choice([['/'], ['/'], ['/', '/chat']])
    transports = []
    at = {}
    n = 0
    for h in hosts:
        k = rng.choice([1, 2, 2, 3])
        first = 't%d' % n
        overlap = 0
        if family == 'threading' and k > 1 and rng.random() < 0.85:
            overlap = rng.randint(1, k - 1)
        at[h] = rng.choice(['before', 'after', 'after'])
        for j in range(k):
            t = {'t': 't%d' % n, 'h': h, 'ns': sorted(rng.sample(nss, rng.randint(1, len(nss)))),
                 'inside': None, 'connect_inside': False}
            if 0 < j <= overlap:
                t['inside'] = first
                t['connect_inside'] = rng.random() < 0.4
            transports.append(t)
            n += 1
    rng.shuffle(transports)
    # a host's first connection is the first of its transports that does not arrive inside another one's
    transports.sort(key=lambda t: t['inside'] is not None)
    clients = [(t['t'], ns) for t in transports for ns in t['ns']]
    rooms = []
    for _ in range(rng.randint(0, 4)):
        t, ns = rng.choice(clients)
        r = [t, ns, rng.choice(PLAIN_ROOMS)]
        if r not in rooms:
            rooms.append(r)
    emits = []
    for _ in range(rng.randint(2, 5)):
        ns = rng.choice(nss)
        here = [c for c in clients if c[1] == ns]
        kind = rng.choice(['all', 'all', 'sid', 'room']) if here else 'all'
        to = None
        if kind == 'sid':
            to = ['sid', rng.choice(here)[0]]
        elif kind == 'room':
            to = ['room', rng.choice(PLAIN_ROOMS)]
        skip = rng.choice(here)[0] if here and rng.random() < 0.25 else None
        emits.append({'via': rng.choice(hosts + [None]), 'ns': ns, 'to': to, 'skip': skip})
    return {'mode': 'I', 'family': family, 'hosts': hosts, 'namespaces': nss, 'transports': transports, 'at': at,
            'rooms': rooms, 'emits': emits}


def init_firsts(sc):
    """host -> the transport whose `_handle_eio_connect` is the host's first"""
    firsts = {}
    for t in sc['transports']:
        if t['inside'] is None:
            firsts.setdefault(t['h'], t['t'])
    return firsts


def run_init(sc):
    """-> observation: per host (initialize() calls, listeners started, flag); per emit the api result and how many
    copies every client received; problems met while connecting"""
    family = sc['family']
    pw = WP.PubSubWorld(family, len(sc['hosts']), namespaces=sc['namespaces'], host_ids=sc['hosts'], lazy_init=True)
    obs = {'problems': [], 'init': {}, 'emits': [], 'overlapped': {}}
    sid = {}
    try:
        firsts = init_firsts(sc)
        by_tid = {t['t']: t for t in sc['transports']}

        def connect_ns(t):
            for ns in t['ns']:
                s, _rest = pw.connect(t['h'], t['t'], ns)
                if s is None:
                    obs['problems'].append('CONNECT of %s to %s on %s was not accepted' % (t['t'], ns, t['h']))
                else:
                    sid[(t['t'], ns)] = s

        def open_t(t):
            r = pw.open(t['h'], t['t'])
            if r[0] != 'ok':
                obs['problems'].append('engine.io connection %s on %s: %r' % (t['t'], t['h'], r))

        later = []
        for t in sc['transports']:
            if t['inside'] is not None and firsts.get(t['h']) == t['inside']:
                continue
            if firsts.get(t['h']) == t['t']:
                inner = [u for u in sc['transports'] if u['inside'] == t['t'] and u['h'] == t['h']]

                def hook(inner=inner, h=t['h']):
                    # request threads that arrive while the first one is inside manager.initialize()
                    obs['overlapped'][h] = [u['t'] for u in inner]
                    for u in inner:
                        open_t(u)
                        if u['connect_inside']:
                            connect_ns(u)
                if inner:
                    pw.init_hook(t['h'], hook, sc['at'].get(t['h'], 'after'))
                open_t(t)
                connect_ns(t)
                later += [u for u in inner if not u['connect_inside']]
            else:
                open_t(t)
                connect_ns(t)
        for u in later:
            connect_ns(u)
        for t, ns, room in sc['rooms']:
            if (t, ns) in sid:
                r = pw.api(by_tid[t]['h'], 'enter_room', sid[(t, ns)], room, namespace=ns)
                if r[0] != 'ok':
                    obs['problems'].append('enter_room(%s,%s,%s): %r' % (t, ns, room, r))
        for h in sc['hosts']:
            pw.deliver(h, BIG)
        for t in sc['transports']:
            pw.sent(t['t'])
        for h in sc['hosts']:
            obs['init'][h] = list(pw.init_state(h))
        for i, e in enumerate(sc['emits']):
            ev = 'e%d' % i
            target = None
            if e['to'] is not None:
                target = sid.get((e['to'][1], e['ns']), 'nobody') if e['to'][0] == 'sid' else e['to'][1]
            skip = sid.get((e['skip'], e['ns'])) if e['skip'] is not None else None
            if e['via'] is None:
                res = pw.wo_emit(ev, i, namespace=e['ns'], room=target, skip_sid=skip)
            else:
                res = pw.api(e['via'], 'emit', ev, i, to=target, skip_sid=skip, namespace=e['ns'])
            how = [pw.deliver(h, BIG) for h in sc['hosts']]
            got = {}
            for t in sc['transports']:
                for f in canon_frames(pw.sent(t['t'])):
                    key = '%s %s' % (t['t'], f[1]) if f[0] == 'event' and f[2] == [ev, i] else '%s ? %r' % (t['t'], f)
                    got[key] = got.get(key, 0) + 1
            obs['emits'].append({'res': list(res), 'deliver': [list(x) for x in how], 'got': got})
        obs['log'] = [list(x) for x in pw.log if x[2] != 'pubsub listen() exited unexpectedly']
    finally:
        pw.close()
    return obs


def init_expected(sc, e):
    """the clients an emit addresses, from the scenario alone: {'<tid> <ns>'}"""
    out = set()
    for t in sc['transports']:
        if e['ns'] not in t['ns'] or e['skip'] == t['t']:
            continue
        if e['to'] is None or (e['to'][0] == 'sid' and e['to'][1] == t['t']) or \
                (e['to'][0] == 'room' and [t['t'], e['ns'], e['to'][1]] in sc['rooms']):
            out.add('%s %s' % (t['t'], e['ns']))
    return out


def init_failures(sc, obs):
    """C07 for a cluster whose hosts initialise themselves: every host that accepted a connection runs
    `initialize()` once and has exactly ONE listener on the channel, and every emit — wherever it is issued —
    reaches every addressed client exactly once and nobody else"""
    bad = list(obs['problems'])
    firsts = init_firsts(sc)
    host_of = {t['t']: t['h'] for t in sc['transports']}
    for i, (e, o) in enumerate(zip(sc['emits'], obs['emits'])):
        if o['res'][0] != 'ok':
            bad.append('emit #%d %s raised %s' % (i, json.dumps(e), o['res'][1]))
        for d in o['deliver']:
            if d[0] != 'ok':
                bad.append('emit #%d: a listener ended with %r' % (i, d))
        want = init_expected(sc, e)
        for key in sorted(set(o['got']) | want):
            n = o['got'].get(key, 0)
            w = 1 if key in want else 0
            if n != w:
                bad.append('emit #%d %s: client %s (host %s) received %d copies, the statement says exactly %d'
                           % (i, json.dumps(e), key, host_of.get(key.split(' ')[0]), n, w))
    for h in sc['hosts']:
        calls, listeners, flag = obs['init'][h]
        want = 1 if h in firsts else 0
        if calls != want or listeners != want or flag != bool(want):
            bad.append('host %s (first connections: %s%s): manager.initialize() ran %d times, %d pub/sub listeners '
                       'started, manager_initialized=%r; a host that accepted a connection is initialised exactly '
                       'once and has exactly one listener'
                       % (h, firsts.get(h), ' with %s arriving inside initialize()' % obs['overlapped'][h]
                          if obs['overlapped'].get(h) else '', calls, listeners, flag))
    for l in obs.get('log', []):
        bad.append('listener logged %r' % (l,))
    return bad


def shrink_init(sc, budget=60):
    def fails(c):
        return bool(init_failures(c, run_init(c)))

    cur = sc
    for key in ('emits', 'rooms', 'transports'):
        i = len(cur[key]) - 1
        while i >= 0 and budget > 0:
            items = cur[key][:i] + cur[key][i + 1:]
            cand = dict(cur, **{key: items})
            if key == 'transports':
                gone = cur[key][i]['t']
                cand['transports'] = [dict(t, inside=None, connect_inside=False) if t['inside'] == gone else t
                                      for t in items]
                cand['transports'].sort(key=lambda t: t['inside'] is not None)
                cand['rooms'] = [r for r in cur['rooms'] if r[0] != gone]
                cand['emits'] = [dict(e, skip=None if e['skip'] == gone else e['skip']) for e in cur['emits']
                                 if not (e['to'] and e['to'] == ['sid', gone])]
            budget -= 1
            if cand['transports'] and cand['emits'] and fails(cand):
                cur = cand
            i -= 1
    return cur


def run_init_cases(ctx, corpus):
    n = ctx.scale(120, 1500)
    cases = [c for c in corpus] + [gen_init(ctx.rng) for _ in range(n)]
    failures = overlapping = 0
    sample = None
    for sc in cases:
        if failures >= 2:
            break
        obs = run_init(sc)
        ctx.count('init.history.%s' % sc['family'])
        for h in sc['hosts']:
            inner = obs['overlapped'].get(h) or []
            ctx.count('init.host.%s' % ('first_connections_overlap.%s_initialize_body' % sc['at'][h] if inner
                                        else 'connections_follow_each_other'))
            if inner:
                overlapping += 1
                ctx.count('init.connections_arriving_inside_initialize', len(inner))
                if any(t['connect_inside'] for t in sc['transports'] if t['t'] in inner):
                    ctx.count('init.host.overlapping_client_also_CONNECTs_inside')
        for e in sc['emits']:
            ctx.count('init.emit.via.%s' % ('write_only' if e['via'] is None else 'host'))
            ctx.count('init.emit.copies_checked', len(sc['transports']))
        bad = init_failures(sc, obs)
        if bad:
            failures += 1
            small = shrink_init(sc)
            sobs = run_init(small)
            sbad = init_failures(small, sobs) or bad
            ctx.violation('oracle', '%s mode I: %s' % (sc['family'], sbad[0]),
                          dict(small, failures=sbad[:6], observed=jl(sobs)))
        elif sample is None and overlapping and len(sc['transports']) <= 4:
            sample = sc
    return len(cases), overlapping, sample


# ---------------------------------------------------------------- entry points

def run(ctx):
    C.proof_step(ctx, [
        'pickle round-trips the published dicts (tuples stay tuples)',
        'bidict / dict semantics and engineio.generate_id() never repeating an id (as in C03)',
        'python-engineio queues a packet on the addressed socket; one transport lives on one host',
    ])
    if ctx.thorough:
        ok, out = C.leanchecker(['Sio.Props.C07'])
        ctx.notes.append('leanchecker Sio.Props.C07: %s' % ('ok' if ok else 'FAILED'))
        if not ok:
            ctx.violation('proof', 'leanchecker rejected Sio.Props.C07: ' + out, {'theorem_or_build': out},
                          no_input=True)
    rng = ctx.rng
    n_hist = ctx.scale(1400, 20000)
    deadline = ctx.t0 + ctx.scale(60, 560)
    drv = C.Driver('pubsub')
    evals = validated = failures = 0
    nontriv = set()
    samples = []
    unraced_checked = 0
    raced_ops = 0
    init_evals = init_overlaps = 0
    init_sample = None
    try:
        cases = []
        init_corpus = []
        for path in sorted(glob.glob(os.path.join(C.ROOT, 'corpus', 'C07', '*.json'))):
            r = json.load(open(path))
            r = r.get('replay', r)
            if r.get('mode') == 'I':
                init_corpus.append(r)
                continue
            cases.append((r, 'corpus'))
        init_evals, init_overlaps, init_sample = run_init_cases(ctx, init_corpus)
        n_raced = ctx.scale(260, 4000)
        every = max(1, n_hist // n_raced)
        for i in range(n_hist):
            cases.append((gen_scenario(rng, 'A' if i % 2 == 0 else 'B'), 'generated'))
            if i % every == 0 and i // every < n_raced:
                cases.append((gen_raced(rng), 'generated'))
        for sc, origin in cases:
            if time.time() > deadline or failures >= 3:
                ctx.notes.append('stopped after %d histories (time budget or 3 failing histories)' % evals)
                break
            if not in_domain(sc):
                ctx.count('skipped.outside_domain')
                continue
            evals += 1
            ctx.count('history.%s.mode%s' % (origin, sc['mode']))
            ctx.count('hosts.%d' % len(sc['hosts']))
            for op in sc['ops']:
                ctx.count('op.' + op['op'])
                if op['op'] == 'emit':
                    ctx.count('emit.via.' + ('write_only' if op['via'] is None else 'host'))
                    if op['cb'] is not None:
                        ctx.count('emit.callback')
            if sc['mode'] == 'R':
                rspec = Spec(sc['hosts'], sc['namespaces'])
                for op in sc['ops']:
                    o = rspec.step(op)
                    if op['op'] == 'raced':
                        rc = o['raced']
                        raced_ops += 1
                        ctx.count('raced.' + rc['label'])
                        ctx.count('raced.membership_' + ('changed_in_flight' if rc['changed'] else 'unchanged'))
                        ctx.count('raced.write.%s.%s' % (
                            'first' if op['after'] == 0 else 'last' if op['after'] == rc['n_pre'] - 1 else 'middle',
                            op.get('pos', 'pre')))
                        ctx.count('raced.clients_addressed_throughout', len(rc['stable']))
                        ctx.count('raced.clients_whose_membership_changed', len(rc['union']) - len(rc['stable']))
            good = True
            fams = [sc['family']] if sc.get('family') else ['threading', 'asyncio']
            for family in fams:
                real, ok, chk = judge(ctx, drv, family, sc)
                unraced_checked += chk
                validated += 1
                good = good and ok
                if family == 'threading':
                    for o in real:
                        for a in o['app']:
                            ctx.count('app.' + a[0])
            if not good:
                failures += 1
            nt = nontrivial(sc)
            if nt:
                nontriv.add(hashlib.sha1(json.dumps(sc, sort_keys=True).encode()).hexdigest())
                ctx.count('nontrivial_events', nt)
                is_r = sc['mode'] == 'R'
                if len(sc['ops']) <= (30 if is_r else 16) and \
                        sum(1 for x in samples if (x['mode'] == 'R') == is_r) < (1 if is_r else 2):
                    samples.append(sc)
    finally:
        drv.close()
    ctx.count('unraced_emits_checked_exact', unraced_checked)
    ctx.coverage.update({
        'evaluations': evals, 'distinct_nontrivial': len(nontriv),
        'rule': 'one evaluation = one generated history (8-45 operations, 2-4 hosts, 2-6 transports, 1-2 namespaces; '
                'even ones with every host draining after every operation, odd ones with arbitrary deliver(h,k)) '
                'executed on real Server+PubSubManager hosts, on the AsyncServer twin, on one real plain server '
                '(mode A), on the Lean model and on the oracle, every operation compared. non-trivial = distinct '
                'history with an emit whose recipients live on >= 2 hosts or a callback that crosses hosts, or '
                '(mode R) a fan-out during which the set of addressed clients of the host changed',
        'samples': samples, 'traces_validated_against_impl': validated,
        'raced_fanouts': raced_ops,
        'self_initialising_clusters': init_evals,
        'hosts_with_overlapping_first_connections': init_overlaps,
        'self_initialising_rule': 'mode I histories (ORACLE ONLY: the model\'s hosts are born initialised): nobody '
                                  'but the library initialises the managers (`_handle_eio_connect` of a host\'s first '
                                  'engine.io connection); every listener the library starts is a subscription of its '
                                  'own and all of them are driven.  On threaded hosts 1-2 further first connections '
                                  'run re-entrantly inside `manager.initialize()` of the first one (before / after the '
                                  'base body, optionally with their CONNECT); the asyncio twin has no switching point '
                                  'between the flag test and the synchronous initialize(), so its connections only '
                                  'follow each other.  Judged by the statement: initialize() once and exactly one '
                                  'listener per host that accepted a connection; every emit (issued on another host, '
                                  'the write-only manager or the host itself) reaches every addressed client exactly '
                                  'once and nobody else',
        'self_initialising_sample': init_sample,
        'raced_fanouts_rule': 'mode R histories (real threaded hosts and asyncio twins, ORACLE ONLY: the Lean model '
                              'treats an emit as atomic, so there is no model correspondence for them): inside the '
                              'k-th transport write of an emit\'s local fan-out (k = 0..n-1, before or after the '
                              'write) one scripted interfering action runs re-entrantly and the emit then continues. '
                              'Counters `raced.<emit|listener>/<action>`: emit = an emit() issued on the host, '
                              'listener = the host delivering a channel emit; action = deliver.<kind> (the listener '
                              'applies a pending remote leave/enter/disconnect/close), local.<leave|enter|disconnect|'
                              'close|connect> (another local thread), cdisc (a client DISCONNECT frame arrives). '
                              'Judged by the statement: no exception, at most once, exactly once for clients '
                              'addressed before and after, never for clients addressed at no point, published '
                              'exactly once; other hosts exact via Spec once they consume the channel',
    })
    ctx.assumptions += [
        'an emit with a callback addresses one client by its session id, and nobody else is in that personal '
        'room (docs: "Callback functions can only be used when addressing an individual client"); mode B also '
        'exercises the documented errors (no room, list of rooms, write-only manager)',
        'clients acknowledge only ids they were asked for (hostile ACKs: C06/C12)',
        'session ids are fresh (engine.io generator), a transport lives on one host',
        'falsy / empty targets are not generated; room names are strings or session ids',
        'client-initiated DISCONNECT appears only as the interfering action of a raced fan-out (mode R); transport '
        'loss is not part of the C07 operation set (C04/C11)',
        'mode R runs the interfering action re-entrantly on the emitting thread inside a transport write (what a '
        'second thread does between two sends); preemption at other points of the fan-out loop is not generated',
    ]


def replay(ctx, r):
    r = r.get('replay', r)
    if r.get('mode') == 'I':
        sc = {k: r[k] for k in ('mode', 'family', 'hosts', 'namespaces', 'transports', 'at', 'rooms', 'emits')}
        obs = run_init(sc)
        print('--- %s, hosts initialised by their first connections' % sc['family'])
        for t in sc['transports']:
            print('transport %s' % json.dumps(t))
        for h in sc['hosts']:
            print('host %s: initialize() calls / listeners started / manager_initialized = %r; arrived inside '
                  'initialize(): %r' % (h, obs['init'][h], obs['overlapped'].get(h, [])))
        for e, o in zip(sc['emits'], obs['emits']):
            print('emit %s\n      addressed %r\n      received  %r' % (json.dumps(e), sorted(init_expected(sc, e)),
                                                                       o['got']))
        bad = init_failures(sc, obs)
        print('oracle: %s' % ('FAILS: ' + '; '.join(bad) if bad else 'holds'))
        print('correspondence: not applicable (mode I is oracle-only: the model\'s hosts are born initialised)')
        return 1 if bad else 0
    sc = {k: r[k] for k in ('mode', 'hosts', 'namespaces', 'ops')}
    fams = [r['family']] if r.get('family') else ['threading', 'asyncio']
    drv = C.Driver('pubsub')
    rc = 0
    oracle_only = sc['mode'] == 'R'
    try:
        cmodel, smodel = ([], []) if oracle_only else run_model(drv, sc)
        for family in fams:
            real = run_cluster(family, sc)
            single = run_single(family, sc) if sc['mode'] == 'A' else None
            print('--- %s' % family)
            for i, op in enumerate(sc['ops']):
                if oracle_only:
                    print('%3d %s\n      impl   %r' % (i, json.dumps(op), {k: real[i].get(k) for k in (
                        'frames', 'app', 'pub', 'res', 'raised', 'fired', 'inner_res', 'log') if k in real[i]}))
                    continue
                print('%3d %s\n      impl   %r\n      model  %r' % (
                    i, json.dumps(op), {k: real[i][k] for k in ('frames', 'app', 'pub', 'res')},
                    {k: cmodel[i][k] for k in ('frames', 'app', 'pub', 'res')}))
                if single:
                    print('      single %r' % (single[i],))
            obad = oracle_failures(sc, real, single)
            if sc['mode'] == 'B':
                obad += unraced_failures(sc, real)[0]
            cbad = [] if oracle_only else correspondence_failures(sc, real, cmodel)
            print('oracle: %s' % ('FAILS: ' + '; '.join(b[1] for b in obad) if obad else 'holds'))
            print('correspondence: %s' % ('not applicable (mode R is oracle-only: the model\'s emits are atomic)'
                                          if oracle_only else 'DIFFERS: ' + '; '.join(b[1] for b in cbad) if cbad
                                          else 'agrees'))
            if obad or cbad:
                rc = 1
    finally:
        drv.close()
    return rc
