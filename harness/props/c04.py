"""C04 — server connection lifecycle (K4 histories; asyncio schedules are in the sched kernel)."""
import collections

from .. import common as C
from .. import server_sim as S

LEVEL = 'proof'

PROFILE = {
    'weights': {'open': 3, 'connect': 10, 'client_disconnect': 4, 'event': 2, 'ack': 0, 'emit': 3, 'emit_cb': 0,
                'api_disconnect': 4, 'enter': 3, 'leave': 1, 'close': 1, 'rooms': 2, 'lost': 3, 'partial_binary': 0,
                # "... while the same transport's other namespaces are unaffected": a session is ended by disconnect()
                # while a multi-frame (binary) event of the same transport is half received
                'binary_across_end': 5},
    'connect_outcomes': {'accept': 5, 'false': 2, 'refuse': 4, 'raise': 0},
    'async_handlers': False,
    # "from then on that session id is in no room and is never delivered to again": the application goes on using
    # session ids after their end (and with the wrong namespace) -- enter_room / rooms / emit to that room
    'stale_p': 0.4, 'stale_enter_p': 0.4,
    # "for every accepted connection the disconnect handler runs exactly once ...": whatever the application's other
    # disconnect handlers do -- some of them raise (every cause of an end: client DISCONNECT, disconnect(), loss of a
    # transport that carries several namespaces, where the handlers of the earlier namespaces raise)
    'disconnect_raise': 0.3,
}

STATS = collections.Counter()      # what the oracle saw (flushed into the evidence by run())
MEASURING = [False]                # the oracle counts only when called by measure(): once per generated history


def stat(key):
    if MEASURING[0]:
        STATS[key] += 1


def measure(cfg, trace):
    """called once per generated history (never while shrinking): the oracle's own classification of the calls that
    name no live session goes into the evidence; then the non-triviality key"""
    MEASURING[0] = True
    try:
        oracle(cfg, trace, {})
    finally:
        MEASURING[0] = False
    return nontrivial(cfg, trace)


# ---- the engine.io boundary: every write the Socket.IO server hands to engine.io during an op, by destination
def probe_pre(runner, op):
    if getattr(runner, '_c04_writes', None) is None:
        runner._c04_writes = writes = []
        eio = runner.w.eio
        orig = eio.send_packet         # eio.send() goes through it too
        if runner.w.is_async:
            async def send_packet(sid, pkt, *a, **k):
                writes.append(sid)
                return await orig(sid, pkt, *a, **k)
        else:
            def send_packet(sid, pkt, *a, **k):
                writes.append(sid)
                return orig(sid, pkt, *a, **k)
        eio.send_packet = send_packet
    del runner._c04_writes[:]
    return None


def probe_post(runner, op, pre):
    return [d if isinstance(d, str) or d is None else repr(d) for d in runner._c04_writes]


def is_disc(slot):
    return slot[2] in ('disconnect', 'on_disconnect')


def is_conn(slot):
    return slot[2] in ('connect', 'on_connect')


def responsible_slot(cfg, ns, ev):
    """documented precedence for an ordinary event, as the slot that has to run: function handlers ns/event, ns/*,
    */event, */* (an event literally named '*' only reaches catch-alls), then the class-based namespace of ns, then the
    catch-all one (None when its class has no such method: nothing is invoked)"""
    fns = [tuple(f) for f in cfg['fn']]
    for key in ([(ns, ev)] if ev != '*' else []) + [(ns, '*')] + ([('*', ev)] if ev != '*' else []) + [('*', '*')]:
        if key in fns:
            return ('fn',) + key
    for want_ns in (ns, '*'):
        for cns, ms in cfg['cls']:
            if cns == want_ns:
                return ('cls', cns, 'on_' + ev) if ('on_' + ev) in ms else None
    return None


def judge_event(cfg, op, im, p, sid, pkts, ends, fails):
    """A complete EVENT / BINARY_EVENT of a client: a live session's event is dispatched -- the responsible handler
    once, with the session id and the reconstructed arguments, acknowledged when it carries an id -- exactly as if
    nothing else had ended meanwhile (`ends`: the sessions that ended while its attachments were outstanding); an
    event for a namespace the client has no live session on is not handled."""
    t, ns, data = op['t'], p['ns'], p['data']
    if cfg['asyncHandlers'] or not (isinstance(data, list) and data and isinstance(data[0], str)
                                    and data[0] not in ('connect', 'disconnect')):
        return
    ctx_txt = (' (while its attachments were outstanding, disconnect() ended %s)' % ', '.join(
        '%s on %s [%s]' % e for e in ends)) if ends else ''
    evs = [i for i in im['invokes'] if not is_conn(i[0]) and not is_disc(i[0])]
    acks = [(tt, q) for tt, q in pkts if q['type'] in (3, 6)]
    if [1 for tt, q in pkts if q['type'] not in (3, 6)]:
        fails.append((None, 'a client event caused packets other than its acknowledgement: %r%s' % (pkts, ctx_txt)))
    if sid is None:
        if evs or acks:
            fails.append((None, 'an event for %s, where transport %s has no live session, was handled: %r %r%s'
                          % (ns, t, evs, acks, ctx_txt)))
        return
    want = responsible_slot(cfg, ns, data[0])
    if want is None:
        if evs:
            fails.append((None, 'an event nobody is responsible for invoked %r' % (evs,)))
    elif len(evs) != 1 or tuple(evs[0][0]) != want:
        fails.append((None, 'event %r of the live session %s on %s (transport %s) must be dispatched to %r exactly once; '
                            'invoked: %r, contained error: %r%s' % (data, sid, ns, t, want, evs, im['raised'], ctx_txt)))
    for slot, args in evs:
        pos = S.sid_position(slot)
        if len(args) <= pos or args[pos] != sid or not C.same(list(args[pos + 1:]), list(data[1:])):
            fails.append((None, 'handler arguments %r are not the session id %s + the event\'s arguments %r%s'
                          % (args, sid, data[1:], ctx_txt)))
    responsible = bool(evs) or any(c[0] in (ns, '*') for c in cfg['cls'])
    if p['id'] is None or not responsible or im['handler_raised']:
        if acks:
            fails.append((None, 'unexpected acknowledgement %r of %r%s' % (acks, data, ctx_txt)))
    elif want is not None and (len(acks) != 1 or acks[0][0] != t or acks[0][1]['id'] != p['id']
                               or acks[0][1]['ns'] != ns):
        fails.append((None, 'event %r with id %r of the live session %s on %s must be acknowledged once to %s; sent: %r%s'
                      % (data, p['id'], sid, ns, t, acks, ctx_txt)))


def oracle(cfg, trace, residue):
    fails = []
    half = {}             # tid -> sessions ended by disconnect() while a client packet of tid is incomplete
    conn = {}             # (tid, ns) -> sid (accepted, not ended)
    ever = set()          # every sid ever announced
    ended = {}            # sid -> number of disconnect-handler runs
    accepted = {}         # sid -> (tid, ns)
    cf = S.ClientFrames()
    nconn = 0
    members = {}          # (ns, room) -> session ids: the room table the documentation describes, live sessions only
    end_cause = {}        # sid -> how its connection ended
    open_t = set()

    def end(sid, ns, cause):
        end_cause[sid] = cause
        for (n, _room), m in members.items():
            if n == ns:
                m.discard(sid)

    def is_live(sid, ns):
        return any(v == sid and k[1] == ns for k, v in conn.items())

    def rooms_of(sid, ns):
        return sorted(room for (n, room), m in members.items() if n == ns and sid in m)

    def describe(sid, ns):
        """what kind of (sid, namespace) pair that names no live session this is, from the history"""
        busy = '.namespace_has_clients' if any(k[1] == ns for k in conn) else '.namespace_empty'
        if sid in end_cause:
            other = '' if accepted.get(sid, (None, ns))[1] == ns else '.other_namespace'
            return 'session_ended_by_%s%s%s' % (end_cause[sid], other, busy)
        if sid in conn.values():
            t = [k[0] for k, v in conn.items() if v == sid][0]
            return 'live_session_wrong_namespace%s%s' % ('.same_client_connected_there' if (t, ns) in conn else '', busy)
        if sid in ever:
            return 'refused_session' + busy
        return 'unknown_id' + busy

    for op, im, _mo in trace:
        pkts = S.sent_packets(im)
        if op['op'] == 'open':
            open_t.add(op['t'])
        for dest in im.get('probe') or []:
            # whatever the cause, the server hands engine.io writes for open transports only: a write for anything
            # else is a write on behalf of a session that is not there (any more)
            if dest not in open_t:
                fails.append((None, 'during %r the server performed an engine.io write addressed to %r, which is not '
                                    'an open transport (a delivery on behalf of a session that has ended)'
                              % (S._brief(op), dest)))
        cinv = [i for i in im['invokes'] if is_conn(i[0])]
        dinv = [i for i in im['invokes'] if is_disc(i[0])]
        if dinv and im.get('handler_raised') and op['op'] != 'lost':
            stat('end_with_raising_handler.other_causes')
        for slot, args in dinv:
            sid = args[-2]
            reason = args[-1]
            ended[sid] = ended.get(sid, 0) + 1
            if ended[sid] > 1:
                fails.append((None, 'disconnect handler ran %d times for %s' % (ended[sid], sid)))
            if sid not in accepted:
                fails.append((None, 'disconnect handler for a session that was never accepted: %s' % sid))
            want = {'frame': 'client disconnect', 'frameval': 'client disconnect', 'disconnect': 'server disconnect',
                    'lost': op.get('reason')}.get(op['op'])
            if want and reason != want:
                fails.append((None, 'disconnect reason %r, the cause in progress is %r' % (reason, want)))
        p = cf.feed(op)
        if isinstance(p, dict) and p['type'] == 0:
            t, ns = op['t'], p['ns']
            auth = p['data']
            if not S.served(cfg, ns) or (t, ns) in conn:
                if cinv:
                    fails.append((None, 'connect handler ran for an unserved / repeated CONNECT %r' % (op,)))
                if [(q['type'], q['ns'], q['data']) for tt, q in pkts] != [(4, ns, 'Unable to connect')] or pkts[0][0] != t:
                    fails.append((None, 'unserved / repeated CONNECT not answered by CONNECT_ERROR "Unable to connect": %r' % (pkts,)))
            else:
                handled = S.has_handler(cfg, ns, 'connect')
                if len(cinv) != (1 if handled else 0):
                    fails.append((None, 'connect handler ran %d times for one CONNECT' % len(cinv)))
                out = 'accept'
                if handled:
                    out = cfg['onConnect'][nconn] if nconn < len(cfg['onConnect']) else 'accept'
                    nconn += 1
                    if cinv:
                        a = cinv[0][1]
                        got_auth = a[-1] if (auth and len(a) >= 2 and not isinstance(a[-1], str) or (auth and isinstance(auth, str))) else None
                        if auth and not C.same(a[-1], auth):
                            fails.append((None, 'connect handler did not receive the auth payload: %r vs %r' % (a, auth)))
                mine = [q for tt, q in pkts if tt == t and q['ns'] == ns]
                if [tt for tt, q in pkts if tt != t]:
                    fails.append((None, 'a CONNECT caused packets to another transport'))
                if out == 'raise':
                    pass
                elif out == 'accept':
                    if [q['type'] for q in mine] != [0] or not isinstance(mine[0]['data'], dict):
                        fails.append((None, 'accepted CONNECT not answered by exactly one CONNECT: %r' % (mine,)))
                    else:
                        sid = mine[0]['data'].get('sid')
                        if sid in ever:
                            fails.append((None, 'session id %s was used before' % sid))
                        ever.add(sid)
                        conn[(t, ns)] = sid
                        accepted[sid] = (t, ns)
                        members.setdefault((ns, sid), set()).add(sid)
                else:
                    why = S.error_args([]) if out == 'false' else S.error_args(out['refuse'])
                    if cfg['alwaysConnect']:
                        ok = ([q['type'] for q in mine] == [0, 1] and C.same(mine[1]['data'], why))
                        if ok:
                            ever.add(mine[0]['data'].get('sid'))
                    else:
                        ok = [q['type'] for q in mine] == [4] and C.same(mine[0]['data'], why)
                    if not ok:
                        fails.append((None, 'refusal %r answered by %r' % (out, mine)))
        elif isinstance(p, dict) and p['type'] == 1:
            sid = conn.pop((op['t'], p['ns']), None)
            if sid is not None:
                end(sid, p['ns'], 'client_disconnect')
            if sid is not None and S.has_handler(cfg, p['ns'], 'disconnect') and ended.get(sid, 0) != 1:
                fails.append((None, 'client DISCONNECT processed but the disconnect handler ran %d times' % ended.get(sid, 0)))
        elif p == 'incomplete':
            half.setdefault(op['t'], [])
            if im['invokes'] or pkts:
                fails.append((None, 'handler or packet before the attachments of a client packet are complete: %r' % (op,)))
        elif isinstance(p, dict) and p['type'] in (2, 5):
            ends = half.pop(op['t'], None)
            for e in set(x[2] for x in ends or []):
                stat('event_completed_after_disconnect_of.' + e)
                if p['id'] is not None:
                    stat('event_completed_after_disconnect_of.%s.with_id' % e)
            if ends:
                stat('events_completed_after_a_disconnect_while_half_received')
            judge_event(cfg, op, im, p, conn.get((op['t'], p['ns'])), pkts, ends, fails)
        elif op['op'] == 'disconnect':
            hit = [k for k, v in conn.items() if v == op['sid'] and k[1] == op['ns']]
            for k in hit:
                for tt, lst in half.items():
                    pend_ns = cf.pending_ns(tt)
                    lst.append((op['sid'], k[1], 'another_transport' if tt != k[0] else
                                'the_namespace_the_packet_is_for' if pend_ns == k[1] else
                                'another_namespace_of_the_same_transport'))
                sid = conn.pop(k)
                end(sid, k[1], 'server_disconnect')
                if [(tt, q['type'], q['ns']) for tt, q in pkts] != [(k[0], 1, k[1])]:
                    fails.append((None, 'disconnect() did not send exactly one DISCONNECT to the client: %r' % (pkts,)))
                if S.has_handler(cfg, k[1], 'disconnect') and ended.get(sid, 0) != 1:
                    fails.append((None, 'disconnect() processed but the handler ran %d times' % ended.get(sid, 0)))
        elif op['op'] == 'lost':
            cf.drop(op['t'])
            half.pop(op['t'], None)
            open_t.discard(op['t'])
            mine = [k for k in conn if k[0] == op['t']]
            handled = [k for k in mine if S.has_handler(cfg, k[1], 'disconnect')]
            raised = im.get('handler_raised', 0)
            carried = ', '.join('%s on %s' % (conn[k], k[1]) for k in mine)
            if mine:
                stat('transport_loss.sessions_%s' % ('1' if len(mine) == 1 else '2_or_more'))
            if len(handled) >= 2 and raised:
                stat('transport_loss.2_or_more_namespaces_with_disconnect_handlers.some_handler_raised')
                if raised >= len(handled):
                    stat('transport_loss.2_or_more_namespaces_with_disconnect_handlers.every_handler_raised')
            for k in mine:
                sid = conn.pop(k)
                end(sid, k[1], 'transport_loss')
                if S.has_handler(cfg, k[1], 'disconnect') and ended.get(sid, 0) != 1:
                    fails.append((None, 'transport %s lost (it carried %d sessions: %s; %d of their disconnect handlers '
                                        'raised) but the disconnect handler of %s on %s ran %d times'
                                  % (op['t'], len(mine), carried, raised, sid, k[1], ended.get(sid, 0))))
        elif op['op'] == 'emit':
            # never delivered to a session that ended / was refused; other namespaces unaffected
            for tt, q in pkts:
                if q['type'] in (2, 5) and (tt, q['ns']) not in conn:
                    fails.append((None, 'event delivered to %s on %s which has no live session there' % (tt, q['ns'])))
            if op.get('to') is None and not op.get('skip'):
                want = sorted(k for k in conn if k[1] == op['ns'])
                got = sorted((tt, q['ns']) for tt, q in pkts if q['type'] in (2, 5))
                if want != got:
                    fails.append((None, 'broadcast reached %r, live sessions are %r' % (got, want)))
            if not im['exc']:
                # recipients = the live sessions that are members of the addressed rooms, each once; a session id
                # that ended is in no room, whatever the application did with that id afterwards
                to = op.get('to')
                if to is None:
                    base = set(v for k, v in conn.items() if k[1] == op['ns'])
                else:
                    base = set()
                    for room in (to['many'] if 'many' in to else [to['one']]):
                        base |= members.get((op['ns'], room), set())
                base -= set(op.get('skip', []))
                want = sorted(k for k, v in conn.items() if k[1] == op['ns'] and v in base)
                got = sorted((tt, q['ns']) for tt, q in pkts if q['type'] in (2, 5))
                if want != got:
                    fails.append((None, 'emit(to=%r, skip=%r) on %s reached %r; the live members of the addressed rooms '
                                        'are %r' % (to, op.get('skip'), op['ns'], got, want)))
                if op.get('_stale'):
                    stat('emit_to_the_room_afterwards')
                    if want:
                        stat('emit_to_the_room_afterwards.room_has_live_members')
        elif op['op'] == 'enter':
            sid, ns = op['sid'], op['ns']
            if is_live(sid, ns):
                if im['exc']:
                    fails.append((None, 'enter_room(%s, %r) of a live session on %s raised %s' % (sid, op['room'], ns, im['exc'])))
                else:
                    members.setdefault((ns, op['room']), set()).add(sid)
            else:
                stat('enter_room.' + describe(sid, ns))
                # the unchanged library raises (ValueError: nobody on that namespace; KeyError: id not connected there)
                if im['exc'] not in ('KeyError', 'ValueError'):
                    fails.append((None, 'enter_room(%s, %r, namespace=%r) names no live session (%s) but %s' % (
                        sid, op['room'], ns, describe(sid, ns),
                        ('raised ' + im['exc']) if im['exc'] else 'was accepted')))
        elif op['op'] == 'leave':
            members.get((op['ns'], op['room']), set()).discard(op['sid'])
        elif op['op'] == 'close':
            members.pop((op['ns'], op['room']), None)
        elif op['op'] == 'rooms':
            sid, ns = op['sid'], op['ns']
            live = is_live(sid, ns)
            if not live:
                stat('rooms.' + describe(sid, ns))
            if not live and (im['result'] or im['exc']):
                fails.append((None, 'rooms(%s, namespace=%r) names no live session (%s) but gives %r' % (
                    sid, ns, describe(sid, ns), im['exc'] or im['result'])))
            elif live and (im['exc'] or sorted(im['result'] or []) != rooms_of(sid, ns)):
                fails.append((None, 'rooms(%s, namespace=%r) is %r, the session entered %r' % (
                    sid, ns, im['exc'] or sorted(im['result'] or []), rooms_of(sid, ns))))
    return fails


def nontrivial(cfg, trace):
    refusals = sum(1 for op, im, _ in trace for tt, q in S.sent_packets(im) if q['type'] == 4 and q['data'] != 'Unable to connect')
    causes = set(op['op'] for op, im, _ in trace if any(is_disc(i[0]) for i in im['invokes']))
    if refusals >= 1 and len(causes) >= 2:
        return hash(repr([o for o, _, _ in trace]))
    return None


def run(ctx):
    C.proof_step(ctx, ['engine.io generate_id() never repeats an id (12 random bytes + 24-bit counter)'])
    # literals of the model tied to the source: refusal strings / keys, disconnect reasons (regenerated every run)
    C.audit_extra(ctx, 'GlueServer', ['unable_to_connect', 'refused_error_args', 'server_disconnect_reason',
                                'client_disconnect_reason'])
    STATS.clear()
    S.run_cases(ctx, PROFILE, ctx.scale(150, 3000), 45, oracle=oracle, nontrivial=measure, final_lose_all=True,
                probe_pre=probe_pre, probe_post=probe_post)
    for k, v in sorted(STATS.items()):
        ctx.count(k if k.startswith(('event', 'transport_loss', 'end_with')) else 'no_live_session.' + k, v)
    ctx.coverage['ends_with_raising_disconnect_handlers'] = {
        'rule': 'the application\'s disconnect handlers raise (scripted, p=%.2f per run) at every cause of an end: client '
                'DISCONNECT, disconnect(), loss of a transport that carries one / several namespaces. Oracle: the '
                'disconnect handler of EVERY session of the lost transport runs exactly once whatever the other '
                'namespaces\' handlers did, the session is from then on in no room and never delivered to (later emits, '
                'rooms(), engine.io write tap); also part of the model correspondence' % PROFILE['disconnect_raise'],
        'transport_losses_with_2_or_more_sessions': STATS['transport_loss.sessions_2_or_more'],
        'of_which_2_or_more_handled_and_some_handler_raised':
            STATS['transport_loss.2_or_more_namespaces_with_disconnect_handlers.some_handler_raised'],
        'of_which_every_handler_raised':
            STATS['transport_loss.2_or_more_namespaces_with_disconnect_handlers.every_handler_raised'],
        'ends_by_disconnect_call_or_client_DISCONNECT_whose_handler_raised': STATS['end_with_raising_handler.other_causes'],
    }
    ctx.coverage['stale_session_id_calls'] = {
        'rule': 'server API calls (enter_room, rooms, then emit to that room) whose (sid, namespace) names no live '
                'session: ids that ended by client DISCONNECT / disconnect() / transport loss, refused ids, live ids '
                'with another namespace, while the namespace has / has no other clients; oracle: such enter_room raises '
                'and creates no membership, rooms() is empty, every emit reaches exactly the live members of the rooms '
                'addressed, and every engine.io write of the server is addressed to an open transport (tap on eio.send_packet)',
        'enter_room': sum(v for k, v in STATS.items() if k.startswith('enter_room.')),
        'enter_room_ended_session_while_namespace_has_clients': {
            c: STATS['enter_room.session_ended_by_%s.namespace_has_clients' % c]
            for c in ('client_disconnect', 'server_disconnect', 'transport_loss')},
        'rooms': sum(v for k, v in STATS.items() if k.startswith('rooms.')),
        'emit_to_the_room_afterwards': STATS['emit_to_the_room_afterwards'],
    }
    ctx.coverage['half_received_event_across_a_disconnect'] = {
        'rule': 'header of a multi-frame (binary) event for namespace B of a transport connected to >=2 namespaces; '
                'before the remaining attachments the server ends, with disconnect(), another namespace of that transport '
                '/ all its other namespaces / a session of another transport / B itself (sometimes with a broadcast in '
                'between); then the attachments. Oracle (every complete client event of these histories): a live '
                'session\'s event is dispatched once to the responsible handler with sid + the reconstructed arguments '
                'and acknowledged when it has an id; an event for an ended session is not handled; also part of the '
                'model correspondence',
        'events_completed_after_a_disconnect': STATS['events_completed_after_a_disconnect_while_half_received'],
        'by_what_ended': {k.split('.', 1)[1]: v for k, v in sorted(STATS.items())
                          if k.startswith('event_completed_after_disconnect_of.')},
    }
    ctx.coverage['rule'] = ('histories over CONNECT(ns, auth)/DISCONNECT/transport loss/disconnect()/broadcasts for several transports '
                            'and namespaces, handlers accepting / returning False / raising ConnectionRefusedError(0-3 args), '
                            'always_connect both ways, namespaces default/list/"*", function and class-based handlers, both server '
                            'families + model; non-trivial = history with >=1 refusal and disconnect handlers triggered by >=2 '
                            'different causes')
    ctx.assumptions.append('asyncio interleavings at suspension points are decided by the sched kernel (see C20 check / DESIGN)')
    # K5: asyncio schedules (Sio.C04sched.async_disconnect_once + real AsyncServer under controlled suspension)
    from .. import sched_async
    sched_async.run_async_schedules(ctx)


def replay(ctx, r):
    if isinstance(r.get('replay'), dict) and r['replay'].get('kernel') == 'sched_async':
        from .. import sched_async
        return sched_async.replay(ctx, r['replay'])
    S.PROBES['pre'], S.PROBES['post'] = probe_pre, probe_post
    return S.replay_case(ctx, r, oracle=oracle)
