"""C04 — server connection lifecycle (K4 histories; asyncio schedules are in the sched kernel)."""
from .. import common as C
from .. import server_sim as S

LEVEL = 'proof'

PROFILE = {
    'weights': {'open': 3, 'connect': 10, 'client_disconnect': 4, 'event': 2, 'ack': 0, 'emit': 3, 'emit_cb': 0,
                'api_disconnect': 4, 'enter': 1, 'leave': 0, 'close': 0, 'rooms': 1, 'lost': 3, 'partial_binary': 0},
    'connect_outcomes': {'accept': 5, 'false': 2, 'refuse': 4, 'raise': 0},
    'async_handlers': False,
}


def is_disc(slot):
    return slot[2] in ('disconnect', 'on_disconnect')


def is_conn(slot):
    return slot[2] in ('connect', 'on_connect')


def oracle(cfg, trace, residue):
    fails = []
    conn = {}             # (tid, ns) -> sid (accepted, not ended)
    ever = set()          # every sid ever announced
    ended = {}            # sid -> number of disconnect-handler runs
    accepted = {}         # sid -> (tid, ns)
    cf = S.ClientFrames()
    nconn = 0
    for op, im, _mo in trace:
        pkts = S.sent_packets(im)
        cinv = [i for i in im['invokes'] if is_conn(i[0])]
        dinv = [i for i in im['invokes'] if is_disc(i[0])]
        for slot, args in dinv:
            sid = args[-2]
            reason = args[-1]
            ended[sid] = ended.get(sid, 0) + 1
            if ended[sid] > 1:
                fails.append((None, 'disconnect handler ran %d times for %s' % (ended[sid], sid)))
            if sid not in accepted:
                fails.append((None, 'disconnect handler for a session that was never accepted: %s' % sid))
            want = {'frame': 'client disconnect', 'frameval': 'client disconnect', 'disconnect': 'server disconnect',
                    'lost': op.get('reason')}.get(op['op'])
            if want and reason != want:
                fails.append((None, 'disconnect reason %r, the cause in progress is %r' % (reason, want)))
        p = cf.feed(op)
        if isinstance(p, dict) and p['type'] == 0:
            t, ns = op['t'], p['ns']
            auth = p['data']
            if not S.served(cfg, ns) or (t, ns) in conn:
                if cinv:
                    fails.append((None, 'connect handler ran for an unserved / repeated CONNECT %r' % (op,)))
                if [(q['type'], q['ns'], q['data']) for tt, q in pkts] != [(4, ns, 'Unable to connect')] or pkts[0][0] != t:
                    fails.append((None, 'unserved / repeated CONNECT not answered by CONNECT_ERROR "Unable to connect": %r' % (pkts,)))
            else:
                handled = S.has_handler(cfg, ns, 'connect')
                if len(cinv) != (1 if handled else 0):
                    fails.append((None, 'connect handler ran %d times for one CONNECT' % len(cinv)))
                out = 'accept'
                if handled:
                    out = cfg['onConnect'][nconn] if nconn < len(cfg['onConnect']) else 'accept'
                    nconn += 1
                    if cinv:
                        a = cinv[0][1]
                        got_auth = a[-1] if (auth and len(a) >= 2 and not isinstance(a[-1], str) or (auth and isinstance(auth, str))) else None
                        if auth and not C.same(a[-1], auth):
                            fails.append((None, 'connect handler did not receive the auth payload: %r vs %r' % (a, auth)))
                mine = [q for tt, q in pkts if tt == t and q['ns'] == ns]
                if [tt for tt, q in pkts if tt != t]:
                    fails.append((None, 'a CONNECT caused packets to another transport'))
                if out == 'raise':
                    pass
                elif out == 'accept':
                    if [q['type'] for q in mine] != [0] or not isinstance(mine[0]['data'], dict):
                        fails.append((None, 'accepted CONNECT not answered by exactly one CONNECT: %r' % (mine,)))
                    else:
                        sid = mine[0]['data'].get('sid')
                        if sid in ever:
                            fails.append((None, 'session id %s was used before' % sid))
                        ever.add(sid)
                        conn[(t, ns)] = sid
                        accepted[sid] = (t, ns)
                else:
                    why = S.error_args([]) if out == 'false' else S.error_args(out['refuse'])
                    if cfg['alwaysConnect']:
                        ok = ([q['type'] for q in mine] == [0, 1] and C.same(mine[1]['data'], why))
                        if ok:
                            ever.add(mine[0]['data'].get('sid'))
                    else:
                        ok = [q['type'] for q in mine] == [4] and C.same(mine[0]['data'], why)
                    if not ok:
                        fails.append((None, 'refusal %r answered by %r' % (out, mine)))
        elif isinstance(p, dict) and p['type'] == 1:
            sid = conn.pop((op['t'], p['ns']), None)
            if sid is not None and S.has_handler(cfg, p['ns'], 'disconnect') and ended.get(sid, 0) != 1:
                fails.append((None, 'client DISCONNECT processed but the disconnect handler ran %d times' % ended.get(sid, 0)))
        elif op['op'] == 'disconnect':
            hit = [k for k, v in conn.items() if v == op['sid'] and k[1] == op['ns']]
            for k in hit:
                sid = conn.pop(k)
                if [(tt, q['type'], q['ns']) for tt, q in pkts] != [(k[0], 1, k[1])]:
                    fails.append((None, 'disconnect() did not send exactly one DISCONNECT to the client: %r' % (pkts,)))
                if S.has_handler(cfg, k[1], 'disconnect') and ended.get(sid, 0) != 1:
                    fails.append((None, 'disconnect() processed but the handler ran %d times' % ended.get(sid, 0)))
        elif op['op'] == 'lost':
            cf.drop(op['t'])
            for k in [k for k in conn if k[0] == op['t']]:
                sid = conn.pop(k)
                if S.has_handler(cfg, k[1], 'disconnect') and ended.get(sid, 0) != 1:
                    fails.append((None, 'transport lost but the disconnect handler of %s on %s ran %d times' % (sid, k[1], ended.get(sid, 0))))
        elif op['op'] == 'emit':
            # never delivered to a session that ended / was refused; other namespaces unaffected
            for tt, q in pkts:
                if q['type'] in (2, 5) and (tt, q['ns']) not in conn:
                    fails.append((None, 'event delivered to %s on %s which has no live session there' % (tt, q['ns'])))
            if op.get('to') is None and not op.get('skip'):
                want = sorted(k for k in conn if k[1] == op['ns'])
                got = sorted((tt, q['ns']) for tt, q in pkts if q['type'] in (2, 5))
                if want != got:
                    fails.append((None, 'broadcast reached %r, live sessions are %r' % (got, want)))
        elif op['op'] == 'rooms':
            live = op['sid'] in conn.values()
            if not live and im['result']:
                fails.append((None, 'rooms() of an ended session is %r' % (im['result'],)))
    return fails


def nontrivial(cfg, trace):
    refusals = sum(1 for op, im, _ in trace for tt, q in S.sent_packets(im) if q['type'] == 4 and q['data'] != 'Unable to connect')
    causes = set(op['op'] for op, im, _ in trace if any(is_disc(i[0]) for i in im['invokes']))
    if refusals >= 1 and len(causes) >= 2:
        return hash(repr([o for o, _, _ in trace]))
    return None


def run(ctx):
    C.proof_step(ctx, ['engine.io generate_id() never repeats an id (12 random bytes + 24-bit counter)'])
    # literals of the model tied to the source: refusal strings / keys, disconnect reasons (regenerated every run)
    C.audit_extra(ctx, 'GlueServer', ['unable_to_connect', 'refused_error_args', 'server_disconnect_reason',
                                'client_disconnect_reason'])
    S.run_cases(ctx, PROFILE, ctx.scale(150, 3000), 45, oracle=oracle, nontrivial=nontrivial, final_lose_all=True)
    ctx.coverage['rule'] = ('histories over CONNECT(ns, auth)/DISCONNECT/transport loss/disconnect()/broadcasts for several transports '
                            'and namespaces, handlers accepting / returning False / raising ConnectionRefusedError(0-3 args), '
                            'always_connect both ways, namespaces default/list/"*", function and class-based handlers, both server '
                            'families + model; non-trivial = history with >=1 refusal and disconnect handlers triggered by >=2 '
                            'different causes')
    ctx.assumptions.append('asyncio interleavings at suspension points are decided by the sched kernel (see C20 check / DESIGN)')
    # K5: asyncio schedules (Sio.C04sched.async_disconnect_once + real AsyncServer under controlled suspension)
    from .. import sched_async
    sched_async.run_async_schedules(ctx)


def replay(ctx, r):
    if isinstance(r.get('replay'), dict) and r['replay'].get('kernel') == 'sched_async':
        from .. import sched_async
        return sched_async.replay(ctx, r['replay'])
    return S.replay_case(ctx, r, oracle=oracle)
