"""C13 — handler resolution follows the documented precedence on server and client (K8).

Tie of `Sio/Model/Dispatch.lean` to the code: every case builds a REAL `socketio.Server()`,
`AsyncServer()`, `Client()` or `AsyncClient()`, registers recording handlers through the public API
(`on`, `register_namespace`), calls the real `_trigger_event` and compares *which recorder ran, with
exactly which arguments, and what came back* with the model's answer for the registry read back
from the object.  Independently the property oracle (the documented table, coded here without
looking at the implementation or the model) judges the implementation's behaviour.
"""
import asyncio
import itertools
import json

from .. import common as C
from .. import gen as G
from .. import regen

LEVEL = 'proof'

KINDS = ['server', 'asyncServer', 'client', 'asyncClient']
SLOTS = ['fnNsEv', 'fnNsStar', 'fnStarEv', 'fnStarStar', 'clsNs', 'clsStar']

# The documented reserved events (property statement + docs); `__disconnect_final` is the client's
# internal notification, never an application event.  Deliberately NOT read from the source.
DOC_RESERVED = {
    'server': {'connect', 'disconnect'},
    'asyncServer': {'connect', 'disconnect'},
    'client': {'connect', 'disconnect', 'connect_error', '__disconnect_final'},
    'asyncClient': {'connect', 'disconnect', 'connect_error', '__disconnect_final'},
}


def sio_mod():
    import socketio
    return socketio


def make_object(kind, config=None):
    """`config`: constructor arguments that could influence the registry (servers: namespaces=, always_connect=,
    async_handlers=).  The property does not mention them: resolution is a function of what was registered."""
    s = sio_mod()
    cfg = dict(config or {})
    if kind == 'server':
        return s.Server(async_mode='threading', **cfg)
    if kind == 'asyncServer':
        return s.AsyncServer(async_mode='asgi', **cfg)
    if kind == 'client':
        return s.Client(handle_sigint=False, **cfg)
    return s.AsyncClient(handle_sigint=False, **cfg)


def ns_class(kind):
    s = sio_mod()
    return {'server': s.Namespace, 'asyncServer': s.AsyncNamespace, 'client': s.ClientNamespace,
            'asyncClient': s.AsyncClientNamespace}[kind]


class Log:
    def __init__(self):
        self.calls = []      # (recorder id, args tuple)
        self.tokens = {}

    def recorder(self, rid, coroutine, arity=None):
        """arity=None: accepts anything.  arity=n: a handler with exactly n positional parameters (a real
        signature, so that calling it with another number of arguments raises TypeError at the call,
        which is what sends the library down its legacy-disconnect retry path)."""
        token = ('token', rid)
        self.tokens[rid] = token
        calls = self.calls

        def note(*args, **kw):
            calls.append((rid, args, kw))
            return token
        if arity is None:
            if coroutine:
                async def rec(*args, **kw):
                    return note(*args, **kw)
            else:
                def rec(*args, **kw):
                    return note(*args, **kw)
        else:
            ps = ', '.join('a%d' % i for i in range(arity))
            src = '%sdef rec(%s):\n    return note(%s)\n' % ('async ' if coroutine else '', ps, ps)
            env = {'note': note}
            exec(src, env)
            rec = env['rec']
        rec.__name__ = 'rec_' + rid
        return rec


def legacy_arity(case):
    """slot -> number of parameters of a LEGACY-signature handler: one fewer than the arguments the
    slot is called with (prefix + event arguments), i.e. a `disconnect` handler without `reason`"""
    if not case.get('legacy'):
        return {}
    n = len(case['args'])
    return {'fnNsEv': n - 1, 'fnNsStar': n, 'fnStarEv': n, 'fnStarStar': n + 1, 'clsNs': n - 1, 'clsStar': n}


def build(case):
    """Register everything the case asks for on a fresh real object; -> (obj, log)."""
    kind, ns, ev = case['kind'], case['ns'], case['ev']
    co = case['mode'] == 'coroutine'
    bits = case['bits']
    obj = make_object(kind)
    log = Log()
    ar = legacy_arity(case)
    other_ev = ev + '~unrelated'
    other_ns = ns + '/unrelated'
    # for ev == '*' the exact-name key IS the catch-all key: bits 0 and 2 are forced to 0 by the generators
    # likewise for ns == '*' the namespace key IS the catch-all key: bits 0, 1 and 4 are forced to 0
    if bits[0] and ev != '*' and ns != '*':
        obj.on(ev, handler=log.recorder('fnNsEv', co, ar.get('fnNsEv')), namespace=ns)
    if bits[1] and ns != '*':
        obj.on('*', handler=log.recorder('fnNsStar', co, ar.get('fnNsStar')), namespace=ns)
    if bits[2] and ev != '*':
        obj.on(ev, handler=log.recorder('fnStarEv', co, ar.get('fnStarEv')), namespace='*')
    if bits[3]:
        obj.on('*', handler=log.recorder('fnStarStar', co, ar.get('fnStarStar')), namespace='*')
    cls = ns_class(kind)
    if bits[4] and ns != '*':
        o = cls(ns)
        if case['m5']:
            setattr(o, 'on_' + ev, log.recorder('clsNs', co, ar.get('clsNs')))
        if case['un'] & 1:
            setattr(o, 'on_' + other_ev, log.recorder('x:clsNs.other', co))
        obj.register_namespace(o)
    if bits[5]:
        o = cls('*')
        if case['m6']:
            setattr(o, 'on_' + ev, log.recorder('clsStar', co, ar.get('clsStar')))
        if case['un'] & 2:
            setattr(o, 'on_' + other_ev, log.recorder('x:clsStar.other', co))
        obj.register_namespace(o)
    if case['un'] & 1:      # the namespace has other, unrelated handlers
        obj.on(other_ev, handler=log.recorder('x:ns.other', co), namespace=ns)
    if case['un'] & 2:      # so has the catch-all namespace, and another namespace has everything
        obj.on(other_ev, handler=log.recorder('x:star.other', co), namespace='*')
        if ev != '*':
            obj.on(ev, handler=log.recorder('x:otherns.ev', co), namespace=other_ns)
        obj.on('*', handler=log.recorder('x:otherns.star', co), namespace=other_ns)
        o = cls(other_ns)
        setattr(o, 'on_' + ev, log.recorder('x:otherns.cls', co))
        obj.register_namespace(o)
    return obj, log


def read_registry(obj):
    """The registry as the real object holds it (input of the model)."""
    fn = [[k1, k2] for k1, d in obj.handlers.items() for k2 in d]
    cls = list(obj.namespace_handlers)
    attr = []
    for k, o in obj.namespace_handlers.items():
        names = set(n for n in dir(o) if n.startswith('on_')) | set(
            n for n in vars(o) if isinstance(n, str) and n.startswith('on_'))
        attr += [[k, n] for n in sorted(names)]
    return fn, cls, attr


def observe(obj, log, ev, ns, args, loop):
    """One real `_trigger_event(ev, ns, *args)` on `obj`; -> {'calls': what the recorders saw during this
    dispatch, 'ret': description of what came back}"""
    del log.calls[:]
    try:
        r = obj._trigger_event(ev, ns, *args)
        if asyncio.iscoroutine(r):
            r = loop.run_until_complete(r)
        # a coroutine handler registered on a threaded class comes back un-awaited: run it to see
        # which one it is
        if asyncio.iscoroutine(r):
            r = loop.run_until_complete(r)
    except Exception as ex:      # noqa
        return {'calls': list(log.calls), 'ret': ('exc', type(ex).__name__, str(ex)[:80])}
    if isinstance(r, tuple) and len(r) == 2 and r[0] == 'token':
        ret = ('token', r[1])
    elif r is None:
        ret = ('none',)
    elif r is getattr(obj, 'not_handled', object()):
        ret = ('not_handled',)
    else:
        ret = ('other', repr(r)[:60])
    return {'calls': list(log.calls), 'ret': ret}


def run_impl(case, loop):
    """-> observed behaviour {'calls': [(rid, args)], 'ret': description}"""
    obj, log = build(case)
    return observe(obj, log, case['ev'], case['ns'], tuple(case['args']), loop), obj, log


def expected_view(kind, ans, case):
    """Expected observation from a model/spec/oracle answer of the form
    {'res': 'invoke'|'dropped'|'notHandled', 'slot':…, 'args': [prefix strings]}."""
    if ans['res'] == 'invoke':
        full = tuple(ans['args']) + tuple(case['args'])
        if case.get('legacy'):          # the legacy handler is invoked once, without the last argument
            full = full[:-1]
        return {'calls': [(ans['slot'], full, {})], 'ret': ('token', ans['slot'])}
    if ans['res'] == 'dropped':
        return {'calls': [], 'ret': ('none',)}
    return {'calls': [], 'ret': ('not_handled',) if kind in ('server', 'asyncServer') else ('none',)}


def same_view(a, b):
    if a['ret'] != b['ret'] or len(a['calls']) != len(b['calls']):
        return False
    for (r1, a1, k1), (r2, a2, k2) in zip(a['calls'], b['calls']):
        if r1 != r2 or k1 != k2 or not C.same(list(a1), list(a2)):
            return False
    return True


def oracle(case):
    """The documented precedence table, first match wins (property statement)."""
    kind, ns, ev = case['kind'], case['ns'], case['ev']
    b = case['bits']
    reserved = ev in DOC_RESERVED[kind]
    # an exact-name handler exists only for a name other than the catch-all key: an event literally
    # named '*' is an ordinary event that nobody can register a handler of its own for
    # … and a namespace literally named '*' is an ordinary namespace that nothing can be registered for
    own = ns != '*'
    if own and b[0] and ev != '*':
        return {'res': 'invoke', 'slot': 'fnNsEv', 'args': []}
    if own and b[1] and not reserved:
        return {'res': 'invoke', 'slot': 'fnNsStar', 'args': [ev]}
    if b[2] and ev != '*':
        return {'res': 'invoke', 'slot': 'fnStarEv', 'args': [ns]}
    if b[3] and not reserved:
        return {'res': 'invoke', 'slot': 'fnStarStar', 'args': [ev, ns]}
    if own and b[4]:        # the class-based namespace registered for the namespace: method on_<event>
        return {'res': 'invoke', 'slot': 'clsNs', 'args': []} if case['m5'] else \
            {'res': 'dropped', 'slot': 'clsNs'}
    if b[5]:                # the catch-all class-based namespace
        return {'res': 'invoke', 'slot': 'clsStar', 'args': [ns]} if case['m6'] else \
            {'res': 'dropped', 'slot': 'clsStar'}
    return {'res': 'notHandled'}


def model_op(case, reg):
    fn, cls, attr = reg
    return {'op': 'resolve', 'kind': case['kind'], 'ns': C.s2w(case['ns']), 'ev': C.s2w(case['ev']),
            'fn': [[C.s2w(a), C.s2w(b)] for a, b in fn], 'cls': [C.s2w(k) for k in cls],
            'attr': [[C.s2w(a), C.s2w(b)] for a, b in attr]}


def model_view(ans):
    out = dict(ans)
    if 'args' in out:
        out['args'] = [C.w2s(a) for a in out['args']]
    return out


def case_json(case):
    c = dict(case)
    c['args'] = repr(case['args'])
    return c


def exhaustive_cases(reserved_by_kind):
    """2^6 presence bits (x has-the-method for each registered class) x {ordinary, each reserved
    name} x {unrelated handlers: none / same namespace / elsewhere / both} x 4 classes x 2 modes."""
    for kind in KINDS:
        events = ['my event', '*', '**', '*x'] + sorted(set(reserved_by_kind[kind]) | DOC_RESERVED[kind])
        for mode in ('sync', 'coroutine'):
            for ns, ev in itertools.product(['/chat', '*', '**', '/*'], events):
                for bits in itertools.product([0, 1], repeat=6):
                    if ev == '*' and (bits[0] or bits[2]):
                        continue        # no exact-name handler can exist for the catch-all key
                    if ns == '*' and (bits[0] or bits[1] or bits[4]):
                        continue        # nothing can be registered for the catch-all key as a namespace
                    for m5 in ([1, 0] if bits[4] else [1]):
                        for m6 in ([1, 0] if bits[5] else [1]):
                            for un in (range(4) if ns in ('/chat', '*') else [3]):
                                yield {'kind': kind, 'mode': mode, 'ns': ns, 'ev': ev,
                                       'bits': list(bits), 'm5': m5, 'm6': m6, 'un': un,
                                       'args': ['sid-1', {'k': [1, 2]}] if ev not in ('connect_error',)
                                       else ['reason']}
                                if ev == 'disconnect' and ns == '/chat' and un in (0, 3):
                                    # handlers with the LEGACY signature (no `reason` parameter): the
                                    # library's TypeError retry must still invoke exactly one target
                                    yield {'kind': kind, 'mode': mode, 'ns': ns, 'ev': ev,
                                           'bits': list(bits), 'm5': m5, 'm6': m6, 'un': un, 'legacy': 1,
                                           'args': ['sid-1', 'transport close'] if kind in (
                                               'server', 'asyncServer') else ['transport close']}


def gen_name(rng, kind):
    while True:
        r = rng.random()
        if r < 0.12:
            ev = rng.choice(['*', '*', '**', '*x', 'x*', ' *'])
        elif r < 0.5:
            ev = G.gen_event_name(rng)
        elif r < 0.7:
            ev = rng.choice(sorted(DOC_RESERVED[kind]))
        else:
            ev = G.gen_str(rng)
        try:
            C.s2w(ev)
        except C.Unrepresentable:
            continue
        return ev


def gen_ns(rng):
    while True:
        ns = G.gen_namespace(rng, allow_none=False)
        if rng.random() < 0.1:
            ns = rng.choice(['*', '*', '**', '/*', '*/', ' *'])
        try:
            C.s2w(ns)
        except C.Unrepresentable:
            continue
        return ns


def random_case(rng):
    kind = rng.choice(KINDS)
    bits = [int(rng.random() < 0.45) for _ in range(6)]
    ev = gen_name(rng, kind)
    if ev == '*':
        bits[0] = bits[2] = 0
    ns = gen_ns(rng)
    if ns == '*':
        bits[0] = bits[1] = bits[4] = 0
    legacy = int(ev == 'disconnect' and rng.random() < 0.5)
    return {'kind': kind, 'mode': rng.choice(['sync', 'coroutine']), 'ns': ns,
            'ev': ev, 'bits': bits,
            'm5': int(rng.random() < 0.75), 'm6': int(rng.random() < 0.75), 'un': rng.randint(0, 3),
            'legacy': legacy,
            'args': [G.gen_value(rng, 2, 0.15) for _ in range(rng.randint(1 if legacy else 0, 4))]}


def judge(ctx, case, impl, model_ans, spec_ans, stats):
    """Compare one executed case with model, Lean spec table and Python oracle; report."""
    kind = case['kind']
    want_oracle = expected_view(kind, oracle(case), case)
    ok_oracle = same_view(impl, want_oracle)
    want_model = expected_view(kind, model_ans, case)
    ok_model = same_view(impl, want_model)
    ok_spec = same_view(want_oracle, expected_view(kind, spec_ans, case))
    rep = {'case': case_json(case), 'impl': repr(impl), 'model': repr(model_ans), 'oracle': repr(oracle(case))}
    if not ok_oracle:
        stats['oracle_fail'] += 1
        ctx.violation('oracle', 'documented precedence violated by %s._trigger_event: expected %r, observed %r'
                      % (kind, want_oracle, impl), rep)
    if not ok_model:
        stats['model_fail'] += 1
        ctx.violation('correspondence', 'Sio.Dispatch.resolve differs from %s._trigger_event' % kind, rep,
                      no_input=ok_oracle)
    if not ok_spec and ok_model and ok_oracle:
        # Lean table and Python oracle disagree although the implementation satisfies one of them
        ctx.violation('correspondence', 'Lean specification table and the Python oracle disagree', rep,
                      no_input=True)
    return ok_oracle and ok_model


def execute(ctx, cases, loop, stats, nontrivial, samples):
    impls, ops = [], []
    for case in cases:
        impl, obj, _log = run_impl(case, loop)
        impls.append(impl)
        ops.append(model_op(case, read_registry(obj)))
    answers = C.batch('dispatch', ops)
    for case, impl, ans in zip(cases, impls, answers):
        m, s = model_view(ans['model']), model_view(ans['spec'])
        judge(ctx, case, impl, m, s, stats)
        ctx.count('kind.' + case['kind'])
        ctx.count('res.' + m['res'] + ('.' + m['slot'] if 'slot' in m else ''))
        ctx.count('reserved' if ans['reserved'] else 'ordinary')
        if case['ev'] == '*':
            ctx.count('event_named_star')
        if case['ns'] == '*':
            ctx.count('namespace_named_star')
        if case.get('legacy'):
            ctx.count('legacy_disconnect_signature')
        if sum(case['bits']) >= 2:
            nontrivial.add(json.dumps([case['kind'], case['mode'], case['ns'], case['ev'], case['bits'],
                                       case['m5'], case['m6'], case['un']]))
        if sum(case['bits']) >= 3 and m['res'] == 'invoke' and case['un'] == 3 \
                and case['kind'] not in [x['kind'] for x in samples]:
            samples.append({'kind': case['kind'], 'case': case_json(case), 'impl': repr(impl), 'model': m})


# ---------------------------------------------------------------------------------------------------
# Evolving registries: the property speaks about the registry AS IT IS when the event arrives.  An
# application may register handlers while traffic is already flowing, so a scenario here is ONE real
# object that lives through a sequence of registrations (`on(...)` as a call, as a decorator,
# `event(...)`, `register_namespace(...)`, a method added to a registered class-based namespace,
# re-registration of a key with a NEW function / namespace object) with dispatches of the same
# (namespace, event) pairs before the first and after every change.  Every single dispatch is judged
#   * by the model, for the registry read back from the object at that moment (`resolve` is a function
#     of an arbitrary registry, so a changing registry is a sequence of resolutions), and
#   * by the property oracle, evaluated on the harness's own record of what was registered so far
#     (built from the steps alone): the documented first-match table; the target must be the object
#     registered LAST under the winning key.
# The library offers no way to unregister a handler (no `off`/`unregister_*` in base_server.py /
# base_client.py), so registries only grow or have keys replaced.
# ---------------------------------------------------------------------------------------------------

LOWEST_FIRST = ['clsStar', 'clsNs', 'fnStarStar', 'fnStarEv', 'fnNsStar', 'fnNsEv']
VIAS = ['handler', 'decorator', 'event']


def slot_step(slot, ns, ev, methods=None, via='handler'):
    """the registration that fills `slot` of the precedence table for the pair (ns, ev)"""
    if slot == 'fnNsEv':
        return {'op': 'on', 'ns': ns, 'ev': ev, 'via': via}
    if slot == 'fnNsStar':
        return {'op': 'on', 'ns': ns, 'ev': '*', 'via': via}
    if slot == 'fnStarEv':
        return {'op': 'on', 'ns': '*', 'ev': ev, 'via': via}
    if slot == 'fnStarStar':
        return {'op': 'on', 'ns': '*', 'ev': '*', 'via': via}
    return {'op': 'cls', 'ns': ns if slot == 'clsNs' else '*', 'methods': [ev] if methods is None else methods}


class Shadow:
    """What the application has registered so far — kept from the steps alone, never read from the
    object under test."""

    def __init__(self):
        self.fn = {}        # (namespace key, event key) -> id of the function registered last
        self.cls = {}       # namespace key -> {event: id of the on_<event> method} of the object registered last


def slot_rids(sh, ns, ev):
    """slot -> the recorder currently sitting in that slot for the pair (ns, ev), if any"""
    return {'fnNsEv': sh.fn.get((ns, ev)), 'fnNsStar': sh.fn.get((ns, '*')),
            'fnStarEv': sh.fn.get(('*', ev)), 'fnStarStar': sh.fn.get(('*', '*')),
            'clsNs': sh.cls.get(ns, {}).get(ev), 'clsStar': sh.cls.get('*', {}).get(ev)}


def shadow_registry(sh):
    """The registry in the model's input format, built from what was REGISTERED (never from the object's own
    tables): sharing or copying of tables inside the object — between namespaces, between instances — then shows
    up as a difference between model and implementation."""
    fn = [[k1, k2] for (k1, k2) in sh.fn]
    cls = list(sh.cls)
    attr = [[k, 'on_' + ev] for k, ms in sh.cls.items() for ev in sorted(ms)]
    return fn, cls, attr


def has_own(sh, ns):
    return ns in sh.cls or any(k1 == ns for (k1, _k2) in sh.fn)


def oracle_dyn(kind, sh, ns, ev):
    """The documented precedence table, first match wins, on the registrations made so far."""
    reserved = ev in DOC_RESERVED[kind]
    own = ns != '*'         # nothing can be registered for a namespace literally named '*' …
    named = ev != '*'       # … nor for an event literally named '*': those keys are the catch-alls
    if own and named and (ns, ev) in sh.fn:
        return {'res': 'invoke', 'slot': 'fnNsEv', 'args': [], 'rid': sh.fn[(ns, ev)]}
    if own and not reserved and (ns, '*') in sh.fn:
        return {'res': 'invoke', 'slot': 'fnNsStar', 'args': [ev], 'rid': sh.fn[(ns, '*')]}
    if named and ('*', ev) in sh.fn:
        return {'res': 'invoke', 'slot': 'fnStarEv', 'args': [ns], 'rid': sh.fn[('*', ev)]}
    if not reserved and ('*', '*') in sh.fn:
        return {'res': 'invoke', 'slot': 'fnStarStar', 'args': [ev, ns], 'rid': sh.fn[('*', '*')]}
    if own and ns in sh.cls:
        if ev in sh.cls[ns]:
            return {'res': 'invoke', 'slot': 'clsNs', 'args': [], 'rid': sh.cls[ns][ev]}
        return {'res': 'dropped', 'slot': 'clsNs'}
    if '*' in sh.cls:
        if ev in sh.cls['*']:
            return {'res': 'invoke', 'slot': 'clsStar', 'args': [ns], 'rid': sh.cls['*'][ev]}
        return {'res': 'dropped', 'slot': 'clsStar'}
    return {'res': 'notHandled'}


def view_dyn(kind, ans, rid, args):
    if ans['res'] == 'invoke':
        return {'calls': [(rid, tuple(ans['args']) + tuple(args), {})], 'ret': ('token', rid)}
    if ans['res'] == 'dropped':
        return {'calls': [], 'ret': ('none',)}
    return {'calls': [], 'ret': ('not_handled',) if kind in ('server', 'asyncServer') else ('none',)}


def apply_step(obj, kind, log, sh, live, step, co, serial):
    """Perform one registration through the public API and note it in the shadow registry."""
    op = step['op']
    key_ns = step['ns'] or '/'          # `namespace or '/'` is the documented default
    if op == 'on':
        rid = 'g%d:fn[%s][%s]' % (serial, key_ns, step['ev'])
        rec = log.recorder(rid, co)
        via = step.get('via', 'handler')
        if via == 'handler':
            obj.on(step['ev'], handler=rec, namespace=step['ns'])
        elif via == 'decorator':
            got = obj.on(step['ev'], namespace=step['ns'])(rec)
            assert got is rec
        else:               # @sio.event / @sio.event(namespace=…): the event name is the function's name
            rec.__name__ = step['ev']
            got = obj.event(rec) if step['ns'] is None else obj.event(namespace=step['ns'])(rec)
            assert got is rec
        sh.fn[(key_ns, step['ev'])] = rid
    elif op == 'cls':
        o = ns_class(kind)(step['ns'])
        ms = {}
        for ev in step['methods']:
            ms[ev] = 'g%d:cls[%s].on_%s' % (serial, key_ns, ev)
            setattr(o, 'on_' + ev, log.recorder(ms[ev], co))
        obj.register_namespace(o)
        sh.cls[key_ns] = ms
        live[key_ns] = o
    elif op == 'setattr':       # a method appears on (or is replaced on) the class-based namespace registered for the key
        rid = 'g%d:cls[%s].on_%s' % (serial, key_ns, step['ev'])
        setattr(live[key_ns], 'on_' + step['ev'], log.recorder(rid, co))
        sh.cls[key_ns][step['ev']] = rid
    else:
        raise ValueError(op)


def run_evolving(sc, loop):
    """Execute a scenario on ONE real object (or, with `{'op': 'new'}` steps, on several objects of the same
    class built one after the other in this process, each with its own shadow registry; a registration names
    its object with 'obj', every dispatch round goes to every object); -> one record per dispatch.
    `sc['config']`: constructor arguments of the objects.  `sc['registry_from'] == 'shadow'`: the model is
    asked about the registrations made (shadow), not about the tables read back from the object."""
    kind = sc['kind']
    cfg = sc.get('config')
    log = Log()             # one log for all objects: a recorder of ANOTHER object running is seen too
    objs = []               # (object, shadow registry, live class-based namespaces)
    declared = cfg.get('namespaces') if isinstance(cfg, dict) else None
    declared = declared if isinstance(declared, list) else []
    from_shadow = sc.get('registry_from') == 'shadow'
    records = []
    n = [0]

    def dispatch(step_no, idxs):
        for oi, (obj, sh, _live) in enumerate(objs):
            for p in idxs:
                ns, ev = sc['probes'][p]
                n[0] += 1
                args = ('sid-1', {'k': [1, 2]}, n[0])
                impl = observe(obj, log, ev, ns, args, loop)
                o = oracle_dyn(kind, sh, ns, ev)
                records.append({'step': step_no, 'probe': p, 'obj': oi, 'ns': ns, 'ev': ev, 'args': args,
                                'impl': impl, 'reg': shadow_registry(sh) if from_shadow else read_registry(obj),
                                'oracle': o, 'rids': slot_rids(sh, ns, ev),
                                # a declared namespace with nothing of its own while a sibling has something
                                'sibling': ns in declared and not has_own(sh, ns) and any(
                                    d != ns and has_own(sh, d) for d in declared),
                                # another instance would answer this pair differently
                                'foreign': any(oracle_dyn(kind, sh2, ns, ev) != o
                                               for j, (_o, sh2, _l) in enumerate(objs) if j != oi)})
    objs.append((make_object(kind, cfg), Shadow(), {}))
    dispatch(-1, sc.get('first', []))
    for i, step in enumerate(sc['steps']):
        if step['op'] == 'new':
            objs.append((make_object(kind, step.get('config', cfg)), Shadow(), {}))
        else:
            co = {'sync': False, 'coroutine': True}.get(sc['mode'], bool(step.get('co')))
            obj, sh, live = objs[step.get('obj', 0)]
            apply_step(obj, kind, log, sh, live, step, co, i)
        dispatch(i, step.get('dispatch', []))
    return records


def judge_evolving(ctx, sc, records, answers, stats):
    """Every dispatch of the scenario against model and oracle; the FIRST failing dispatch is reported
    (later ones are usually consequences)."""
    kind = sc['kind']
    last = {}           # probe -> (slot, rid) the oracle expected at its previous dispatch
    history = {}
    reported = False
    for rec, ans in zip(records, answers):
        m, s = model_view(ans['model']), model_view(ans['spec'])
        o = rec['oracle']
        want_oracle = view_dyn(kind, o, o.get('rid'), rec['args'])
        want_model = view_dyn(kind, m, rec['rids'].get(m.get('slot')), rec['args'])
        want_spec = view_dyn(kind, s, rec['rids'].get(s.get('slot')), rec['args'])
        ok_oracle = same_view(rec['impl'], want_oracle)
        ok_model = same_view(rec['impl'], want_model)
        ok_spec = same_view(want_oracle, want_spec)
        now = (o.get('slot'), o.get('rid'), o['res'])
        p = (rec.get('obj', 0), rec['probe'])
        if rec.get('sibling'):
            stats['sibling_dispatches'] = stats.get('sibling_dispatches', 0) + 1
            ctx.count('configured.dispatch.declared_namespace_without_handlers_beside_one_with.' + o['res'])
        if rec.get('foreign'):
            stats['foreign_dispatches'] = stats.get('foreign_dispatches', 0) + 1
            ctx.count('configured.dispatch.another_instance_would_answer_differently.' + o['res'])
        ctx.count('evolving.res.' + o['res'] + ('.' + o['slot'] if 'slot' in o else ''))
        if p in last:
            if last[p] == now:
                ctx.count('evolving.redispatch.same_target')
            elif last[p][0] == now[0]:
                stats['replaced'] += 1
                ctx.count('evolving.redispatch.same_slot_new_object')
            else:
                stats['takeover'] += 1
                ctx.count('evolving.redispatch.taken_over_by.%s' % (now[0] or 'nothing'))
                ctx.count('evolving.takeover.%s>%s' % (last[p][0] or 'none', now[0] or 'none'))
        last[p] = now
        history.setdefault(p, []).append({'after_step': rec['step'], 'expected': repr(want_oracle),
                                          'observed': repr(rec['impl'])})
        if reported or (ok_oracle and ok_model and ok_spec):
            continue
        reported = True
        rep = {'evolving': sc,
               'failed_at': {'after_step': rec['step'], 'probe': [rec['ns'], rec['ev']], 'object': rec.get('obj', 0),
                             'registration': sc['steps'][rec['step']] if rec['step'] >= 0 else None},
               'impl': repr(rec['impl']), 'model': repr(m), 'oracle': repr(o),
               'registry_at_that_moment': {'fn': rec['reg'][0], 'cls': rec['reg'][1]},
               'history_of_this_pair': history[p]}
        if not ok_oracle:
            stats['oracle_fail'] += 1
            ctx.violation('oracle', 'documented precedence violated by %s%s._trigger_event(%r, %r) after the registry '
                          'changed (registration %r%s): expected %r, observed %r'
                          % (kind, '(**%r)' % sc['config'] if sc.get('config') else '', rec['ev'], rec['ns'],
                             rep['failed_at']['registration'],
                             ', dispatched on object %d' % rec['obj'] if rec.get('obj') else '',
                             want_oracle, rec['impl']), rep)
        if not ok_model:
            stats['model_fail'] += 1
            ctx.violation('correspondence', 'Sio.Dispatch.resolve on the registry of the moment differs from %s.'
                          '_trigger_event' % kind, rep, no_input=ok_oracle)
        if not ok_spec and ok_model and ok_oracle:
            ctx.violation('correspondence', 'Lean specification table and the Python oracle disagree (evolving '
                          'registry)', rep, no_input=True)


def execute_evolving(ctx, scenarios, loop, stats, samples):
    recs, ops = [], []
    for sc in scenarios:
        r = run_evolving(sc, loop)
        recs.append(r)
        ops += [model_op({'kind': sc['kind'], 'ns': x['ns'], 'ev': x['ev']}, x['reg']) for x in r]
    answers = C.batch('dispatch', ops)
    at = 0
    for sc, r in zip(scenarios, recs):
        judge_evolving(ctx, sc, r, answers[at:at + len(r)], stats)
        at += len(r)
        stats['evolving_cases'] += len(r)
        ctx.count('evolving.scenarios.' + sc['tag'])
        ctx.count('evolving.kind.' + sc['kind'])
        for st in sc['steps']:
            ctx.count('evolving.registration.' + st['op'] + ('.' + st['via'] if 'via' in st else ''))
        if sc['tag'].startswith('configured'):
            stats['configured_scenarios'] = stats.get('configured_scenarios', 0) + 1
            stats['configured_cases'] = stats.get('configured_cases', 0) + len(r)
            cfg = sc.get('config') or {}
            nsp = cfg.get('namespaces')
            ctx.count('configured.namespaces.' + ('default' if nsp is None else 'star' if nsp == '*'
                                                  else 'list%d' % len(nsp)))
            for k in ('always_connect', 'async_handlers'):
                if k in cfg:
                    ctx.count('configured.%s=%r' % (k, cfg[k]))
            ctx.count('configured.objects.%d' % (1 + sum(st['op'] == 'new' for st in sc['steps'])))
        if sc['tag'] == 'random' and len(samples) < 2 and len(sc['steps']) >= 5:
            samples.append({'scenario': sc, 'dispatches': [
                {'after_step': x['step'], 'pair': [x['ns'], x['ev']], 'observed': repr(x['impl'])} for x in r[:12]]})


def evolving_probes(ns, ev, kind):
    """the pair under test, then its neighbours (other event, other namespace, a reserved / an ordinary
    event): all of them are dispatched again after every change"""
    other_ev = 'connect' if ev not in DOC_RESERVED[kind] else 'my event'
    return [[ns, ev], [ns, ev + '~other'], [ns + '/other', ev], [ns, other_ev], [ns + '/other', other_ev]]


def exhaustive_evolving(ctx, reserved_by_kind):
    """pairs, replacements and whole chains on all four classes"""
    rng = ctx.rng
    perms = list(itertools.permutations(SLOTS))
    for kind in KINDS:
        events = ['my event'] + sorted(set(reserved_by_kind[kind]) | DOC_RESERVED[kind])
        for mode in ('sync', 'coroutine'):
            for ev in events:
                for ns, reg_ns in (('/chat', '/chat'), ('/', None)):
                    if ns == '/' and ev not in ('my event', 'disconnect'):
                        continue
                    probes = evolving_probes(ns, ev, kind)
                    allp = list(range(len(probes)))
                    base = {'kind': kind, 'mode': mode, 'probes': probes, 'first': allp}
                    # (a) every ordered pair of slots: the first registered, dispatched, then the second
                    for a, b in itertools.permutations(SLOTS, 2):
                        via = VIAS[(SLOTS.index(a) + SLOTS.index(b)) % 3]
                        yield dict(base, tag='pair', steps=[
                            dict(slot_step(a, reg_ns, ev, via=via), dispatch=allp),
                            dict(slot_step(b, reg_ns, ev, via=via), dispatch=allp)])
                    # (b) a slot is filled again with a NEW object while another slot is (or is not) filled
                    for a in SLOTS:
                        for b in [None] + [x for x in SLOTS if x != a]:
                            steps = [] if b is None else [dict(slot_step(b, reg_ns, ev), dispatch=allp)]
                            steps += [dict(slot_step(a, reg_ns, ev, via='decorator'), dispatch=allp),
                                      dict(slot_step(a, reg_ns, ev, via='handler'), dispatch=allp)]
                            yield dict(base, tag='replace', steps=steps)
                    # (c) a class-based namespace gains the method after it was registered and used
                    for a in ('clsNs', 'clsStar'):
                        key = reg_ns if a == 'clsNs' else '*'
                        yield dict(base, tag='method_added', steps=[
                            dict(slot_step(a, reg_ns, ev, methods=[]), dispatch=allp),
                            {'op': 'setattr', 'ns': key, 'ev': ev, 'dispatch': allp},
                            {'op': 'setattr', 'ns': key, 'ev': ev, 'dispatch': allp}])
        # (d) whole chains: all six slots one after the other, a dispatch round after each; lowest
        # precedence first (every registration must take over), highest first (none may), and other orders
        some = [tuple(LOWEST_FIRST), tuple(reversed(LOWEST_FIRST))]
        some += perms if ctx.thorough else [perms[rng.randrange(len(perms))] for _ in range(16)]
        for i, perm in enumerate(some):
            for ev in ('my event', 'disconnect', 'connect'):
                probes = evolving_probes('/chat', ev, kind)
                allp = list(range(len(probes)))
                yield {'kind': kind, 'mode': ('sync', 'coroutine', 'mixed')[i % 3], 'probes': probes, 'first': allp,
                       'tag': 'chain',
                       'steps': [dict(slot_step(a, '/chat', ev, via=VIAS[(i + j) % 3]), dispatch=allp, co=(i + j) % 2)
                                 for j, a in enumerate(perm)]}


def random_scenario(rng):
    kind = rng.choice(KINDS)
    nss, evs = [], []
    while len(nss) < 2:
        x = gen_ns(rng)
        if x not in nss:
            nss.append(x)
    while len(evs) < 3:
        x = gen_name(rng, kind)
        if x not in evs:
            evs.append(x)
    pairs = [[a, b] for a in nss for b in evs]
    rng.shuffle(pairs)
    probes = pairs[:rng.randint(3, 6)]
    ns, ev = probes[0]
    n = rng.randint(3, 8)
    steps = []

    def methods():
        return [e for e in evs if rng.random() < 0.7]

    def free():
        r = rng.random()
        classes = sorted(set((s['ns'] or '/') for s in steps if s['op'] == 'cls'))
        if r < 0.6:
            return {'op': 'on', 'ns': rng.choice(nss + ['*']), 'ev': rng.choice(evs + ['*', '*']),
                    'via': rng.choice(VIAS)}
        if r < 0.88 or not classes:
            return {'op': 'cls', 'ns': rng.choice(nss + ['*']), 'methods': methods()}
        return {'op': 'setattr', 'ns': rng.choice(classes), 'ev': rng.choice(evs)}
    shape = rng.random()
    if shape < 0.5:
        # the slots of the first pair, lowest precedence first (every step must take over) or shuffled
        avail = [s for s in LOWEST_FIRST if not (ev == '*' and s in ('fnNsEv', 'fnStarEv'))
                 and not (ns == '*' and s in ('fnNsEv', 'fnNsStar', 'clsNs'))]
        chosen = [s for s in avail if rng.random() < 0.75] or avail[:1]
        if shape >= 0.3:
            rng.shuffle(chosen)
        steps = [slot_step(s, ns, ev, methods=methods() if rng.random() < 0.6 else None, via=rng.choice(VIAS))
                 for s in chosen]
        shape_tag = 'lowest_first' if shape < 0.3 else 'slots_shuffled'
    else:
        shape_tag = 'free'
    out = []
    for st in steps:
        out.append(st)
        if rng.random() < 0.25:         # the same key again, with a new function / namespace object
            out.append(dict(rng.choice(out)))
    steps = out[:8]
    while len(steps) < n:
        if steps and rng.random() < 0.25:
            steps.insert(rng.randint(1, len(steps)), dict(rng.choice(steps)))
        else:
            steps.insert(rng.randint(0, len(steps)), free())
    # a method can only be added to a class-based namespace that is registered by then
    seen, fixed = set(), []
    for st in steps:
        st = dict(st)
        if st['op'] == 'cls':
            st['methods'] = list(st['methods'])
            seen.add(st['ns'] or '/')
        if st['op'] == 'setattr' and (st['ns'] or '/') not in seen:
            st = {'op': 'cls', 'ns': st['ns'], 'methods': [st['ev']]}
            seen.add(st['ns'] or '/')
        if st['op'] == 'on' and st['ns'] == '/' and rng.random() < 0.3:
            st['ns'] = None             # the default namespace, left out
        st['co'] = int(rng.random() < 0.5)
        st['dispatch'] = [i for i in range(len(probes)) if rng.random() < 0.8]
        fixed.append(st)
    return {'kind': kind, 'mode': rng.choice(['sync', 'coroutine', 'mixed']), 'probes': probes,
            'first': [i for i in range(len(probes)) if rng.random() < 0.8], 'tag': 'random', 'shape': shape_tag,
            'steps': fixed}


# ---------------------------------------------------------------------------------------------------
# Constructor configurations and several instances.  Resolution is a function of what was REGISTERED on
# the object the event arrives at; the constructor arguments (declared namespaces, always_connect,
# async_handlers) and other objects living in the process are not in the statement.  The scenarios below
# are evolving-registry scenarios on objects built with those arguments, with handlers registered for
# SOME of the declared namespaces and dispatches on the OTHERS (and on an undeclared one), and with a
# second object created before / between / after the registrations on the first.  Here the model is
# asked about the shadow registry (the registrations made), not about the object's tables.
# ---------------------------------------------------------------------------------------------------

SERVER_CONFIGS = [{'namespaces': ['/a', '/b']}, {'namespaces': ['/a', '/b', '/c']},
                  {'namespaces': ['/b', '/a'], 'always_connect': True, 'async_handlers': False},
                  {'namespaces': ['/a']}, {'namespaces': '*'}, {'always_connect': True}]


def configured_scenarios(ctx):
    for kind in KINDS:
        server = kind in ('server', 'asyncServer')
        for ci, cfg in enumerate(SERVER_CONFIGS if server else [{}]):
            d = cfg.get('namespaces')
            d = list(d) if isinstance(d, list) else ['/a', '/b']
            nss = d + ['/undeclared']
            second = nss[1]
            for ei, ev in enumerate(('my event', 'disconnect', 'connect')):
                for mode in (('sync', 'coroutine') if ev == 'my event' else (('sync', 'coroutine')[(ci + ei) % 2],)):
                    probes = [[n, ev] for n in nss] + [[second, ev + '~other']]
                    allp = list(range(len(probes)))
                    base = {'kind': kind, 'mode': mode, 'probes': probes, 'first': [], 'config': cfg,
                            'registry_from': 'shadow', 'tag': 'configured'}
                    # something registered for the first declared namespace only, everything dispatched;
                    # then something for the second one
                    for a in SLOTS:
                        for b in SLOTS:
                            if a not in ('fnNsEv', 'fnNsStar', 'clsNs') and b not in ('fnNsEv', 'fnNsStar', 'clsNs'):
                                continue
                            via = VIAS[(SLOTS.index(a) + SLOTS.index(b) + ci) % 3]
                            yield dict(base, steps=[dict(slot_step(a, nss[0], ev, via=via), dispatch=allp),
                                                    dict(slot_step(b, second, ev, via=via), dispatch=allp)])
        # two instances: registrations on one, dispatches on both; the second one born before or after them
        for cfg in ([{'namespaces': ['/a', '/b']}, {}] if server else [{}]):
            for mode in ('sync', 'coroutine'):
                for ev in ('my event', 'disconnect'):
                    probes = [['/a', ev], ['/b', ev], ['/a', ev + '~other']]
                    allp = list(range(len(probes)))
                    base = {'kind': kind, 'mode': mode, 'probes': probes, 'first': allp, 'config': cfg,
                            'registry_from': 'shadow', 'tag': 'configured_instances'}
                    for a in SLOTS:
                        reg0 = dict(slot_step(a, '/a', ev), dispatch=allp, obj=0)
                        reg1 = dict(slot_step(SLOTS[(SLOTS.index(a) + 1) % 6], '/a', ev, via='decorator'),
                                    dispatch=allp, obj=1)
                        new = {'op': 'new', 'dispatch': allp}
                        yield dict(base, steps=[reg0, new, reg1])
                        yield dict(base, steps=[new, reg0, reg1])
                        yield dict(base, steps=[new, reg1, reg0])


def random_configured(rng):
    kind = rng.choice(KINDS)
    server = kind in ('server', 'asyncServer')
    names = rng.sample(['/', '/a', '/b', '/c', '/chat'], 3)
    extra = gen_ns(rng)
    if extra not in names and extra != '*':
        names.append(extra)
    declared = names[:rng.randint(1, 3)]
    cfg = {}
    if server:
        r = rng.random()
        if r < 0.12:
            pass
        elif r < 0.24:
            cfg['namespaces'] = '*'
        else:
            cfg['namespaces'] = list(declared)
        if rng.random() < 0.3:
            cfg['always_connect'] = rng.random() < 0.7
        if rng.random() < 0.3:
            cfg['async_handlers'] = rng.random() < 0.3
    evs = []
    while len(evs) < 2:
        x = gen_name(rng, kind)
        if x not in evs:
            evs.append(x)
    # one declared namespace gets no function handler of its own
    quiet = rng.choice(declared[1:] or declared)
    loud = [x for x in names if x != quiet]
    steps = []
    for _ in range(rng.randint(2, 6)):
        r = rng.random()
        star = ['*'] if rng.random() < 0.15 else []
        classes = sorted(set(st['ns'] for st in steps if st['op'] == 'cls'))
        if r < 0.6:
            steps.append({'op': 'on', 'ns': rng.choice(loud + star), 'ev': rng.choice(evs + ['*']),
                          'via': rng.choice(VIAS)})
        elif r < 0.9 or not classes:
            steps.append({'op': 'cls', 'ns': rng.choice(loud + [quiet] + star),
                          'methods': [e for e in evs if rng.random() < 0.7]})
        else:
            steps.append({'op': 'setattr', 'ns': rng.choice(classes), 'ev': rng.choice(evs)})
    n_obj = 1
    if rng.random() < 0.35:
        steps.insert(rng.randint(0, len(steps)), {'op': 'new'})
    probes = [[a, b] for a in names for b in evs]
    rng.shuffle(probes)
    probes = [[quiet, evs[0]]] + [x for x in probes if x != [quiet, evs[0]]][:5]
    allp = list(range(len(probes)))
    seen, fixed = {}, []
    for st in steps:
        st = dict(st)
        if st['op'] == 'new':
            n_obj += 1
        else:
            st['obj'] = rng.randrange(n_obj)
            mine = seen.setdefault(st['obj'], set())
            if st['op'] == 'cls':
                mine.add(st['ns'])
            if st['op'] == 'setattr' and st['ns'] not in mine:
                st = {'op': 'cls', 'ns': st['ns'], 'methods': [st['ev']], 'obj': st['obj']}
                mine.add(st['ns'])
            if st['op'] == 'on' and st['ns'] == '/' and rng.random() < 0.3:
                st['ns'] = None
            st['co'] = int(rng.random() < 0.5)
        st['dispatch'] = allp
        fixed.append(st)
    return {'kind': kind, 'mode': rng.choice(['sync', 'coroutine', 'mixed']), 'probes': probes, 'first': allp,
            'tag': 'configured_random', 'config': cfg, 'registry_from': 'shadow', 'steps': fixed}


def prepare(ctx):
    """called by the runner before the driver is built"""
    try:
        regen.run(C.REPO)
    except regen.TranslatorError:
        pass            # reported by run()


def run(ctx):
    # 1. regenerate the reserved lists from the source, rebuild, audit
    gen_problem = None
    try:
        regen.run(C.REPO)
    except regen.TranslatorError as e:
        gen_problem = str(e)
    C.build_driver('dispatch')
    C.proof_step(ctx, ['translator harness/translate_reserved.py (ast -> Sio/Generated/Reserved.lean); the '
                       'lists it emits are compared with the run-time `reserved_events` of the four classes',
                       'handler truthiness (`if handler:`) is not modelled; the TypeError retry for legacy '
                       'disconnect handlers is exercised with fixed-arity recorders and judged by the oracle '
                       '(one target, invoked once without the reason)'])
    # the same table for the handler resolution inside the server-core model (K4) and the client
    # model's registry (K7): Sio/Props/GlueDispatch.lean
    C.audit_extra(ctx, 'GlueDispatch', ['server_reserved_eq', 'server_resolve_eq', 'step_invokes_dispatch',
                                'step_invokes_table', 'server_reserved_never_catchall', 'client_reserved_eq',
                                'client_resolve_eq', 'client_event_dispatch'])
    if gen_problem and 'Reserved.lean' in gen_problem:
        ctx.violation('proof', 'translator cannot read reserved_events: ' + gen_problem,
                      {'translator': gen_problem}, no_input=True)

    # translator validation: generated lists == what the live classes say
    s = sio_mod()
    live = {'server': s.Server.reserved_events, 'asyncServer': s.AsyncServer.reserved_events,
            'client': s.Client.reserved_events, 'asyncClient': s.AsyncClient.reserved_events}
    gen_lists = C.batch('dispatch', [{'op': 'reserved', 'kind': k} for k in KINDS])
    reserved_by_kind = {}
    for k, g in zip(KINDS, gen_lists):
        reserved_by_kind[k] = [C.w2s(x) for x in g]
        if list(live[k]) != reserved_by_kind[k]:
            ctx.violation('correspondence', 'generated reserved list of %s differs from the live class: %r vs %r'
                          % (k, reserved_by_kind[k], list(live[k])),
                          {'kind': k, 'generated': reserved_by_kind[k], 'live': list(live[k])}, no_input=True)
            reserved_by_kind[k] = sorted(set(reserved_by_kind[k]) | set(live[k]))

    loop = asyncio.new_event_loop()
    stats = {'oracle_fail': 0, 'model_fail': 0, 'evolving_cases': 0, 'takeover': 0, 'replaced': 0}
    nontrivial, samples, evo_samples, conf_samples = set(), [], [], []
    try:
        ex = list(exhaustive_cases(reserved_by_kind))
        execute(ctx, ex, loop, stats, nontrivial, samples)
        n_rand = ctx.scale(4000, 80000)
        rnd = [random_case(ctx.rng) for _ in range(n_rand)]
        execute(ctx, rnd, loop, stats, nontrivial, samples)
        # registries that change between dispatches
        evo = list(exhaustive_evolving(ctx, reserved_by_kind))
        n_evo_ex = len(evo)
        evo += [random_scenario(ctx.rng) for _ in range(ctx.scale(1200, 20000))]
        for at in range(0, len(evo), 2000):
            execute_evolving(ctx, evo[at:at + 2000], loop, stats, evo_samples)
        # constructor configurations x instances (registry handed to the model = what was registered)
        evo_stats = dict(stats)
        conf = list(configured_scenarios(ctx))
        conf += [random_configured(ctx.rng) for _ in range(ctx.scale(400, 10000))]
        for at in range(0, len(conf), 2000):
            execute_evolving(ctx, conf[at:at + 2000], loop, stats, conf_samples)
    finally:
        loop.close()
    if ctx.thorough:
        ok, out = C.leanchecker(['Sio.Props.C13'])
        ctx.coverage['leanchecker'] = 'ok' if ok else out
        if not ok:
            ctx.violation('proof', 'leanchecker rejects Sio.Props.C13: ' + out[-800:], {'leanchecker': out[-800:]},
                          no_input=True)
    C.fold_proof_failures(ctx)
    # keep the report small: one replay per distinct (kind of violation, class)
    if len(ctx.violations) > 12:
        seen, kept = set(), []
        for v in ctx.violations:
            key = (v['kind'], v['no_input'], str(v['replay'].get('case', {}).get('kind')) if isinstance(
                v['replay'].get('case'), dict) else '', str(v['replay'].get('evolving', {}).get('kind')) if isinstance(
                v['replay'].get('evolving'), dict) else '')
            if key not in seen:
                seen.add(key)
                kept.append(v)
        ctx.notes.append('%d violations recorded, %d kept (one per kind and class)' % (len(ctx.violations), len(kept)))
        ctx.violations[:] = kept
    ctx.coverage.update({
        'exhaustive': True,
        'exhaustive_cases': len(ex), 'random_cases': len(rnd),
        'evaluations': len(ex) + len(rnd), 'distinct_nontrivial': len(nontrivial),
        'rule': 'exhaustive: {namespace "/chat", "*", "**", "/*"} x 2^6 presence bits x {class has on_<event> or not, per registered class} x '
                '{ordinary event, the event names "*", "**", "*x", each reserved name of the class} x {unrelated handlers: none, same namespace, '
                'catch-all/other namespace, both} x {Server, AsyncServer, Client, AsyncClient} x {sync, coroutine '
                'recorders}; for `disconnect` additionally handlers with the legacy signature (one parameter fewer: '
                'TypeError retry path, function handlers and class methods); plus random namespaces, event names (reserved ones included), argument lists. '
                'non-trivial = at least two of the six targets registered (precedence decides)',
        'samples': samples, 'traces_validated_against_impl': len(ex) + len(rnd) + stats['evolving_cases'],      # (configured ones included)
        'oracle_failures': stats['oracle_fail'], 'model_disagreements': stats['model_fail'],
        'evolving_registry_scenarios': len(evo), 'evolving_registry_exhaustive_scenarios': n_evo_ex,
        'evolving_registry_random_scenarios': len(evo) - n_evo_ex,
        'evolving_registry_cases': evo_stats['evolving_cases'],
        'evolving_registry_takeovers': evo_stats['takeover'],
        'evolving_registry_replacements': evo_stats['replaced'],
        'evolving_rule': 'one real object per scenario; registrations (on() as call / decorator, event(), register_namespace(), '
                         'a method added to a registered class-based namespace, the same key again with a new object) '
                         'interleaved with dispatches of the same (namespace, event) pairs; every dispatch compared with '
                         'Sio.Dispatch.resolve on the registry read back at that moment and with the precedence table on '
                         'the registrations made so far.  exhaustive: every ordered pair of the six slots, every slot '
                         'replaced with each other slot present, method added later, x {ordinary, each reserved event} x 4 '
                         'classes x {sync, coroutine}; chains over all six slots (lowest first, highest first, %s '
                         'orders); random: 3-8 registrations.  takeover = the expected target of a pair differs from the one '
                         'at its previous dispatch; replacement = same slot, new object.  No unregister API exists.'
                         % ('all 720' if ctx.thorough else '16 sampled'),
        'evolving_samples': evo_samples,
        'configured_scenarios': stats.get('configured_scenarios', 0),
        'configured_cases': stats.get('configured_cases', 0),
        'configured_dispatches_on_declared_sibling': stats.get('sibling_dispatches', 0),
        'configured_dispatches_instances_differ': stats.get('foreign_dispatches', 0),
        'configured_rule': 'evolving-registry scenarios on objects built with constructor arguments: Server/AsyncServer '
                           'namespaces= default | "*" | list of 1-3 names, always_connect, async_handlers; handlers '
                           'registered for some declared namespaces, every round dispatched on all of them and on an '
                           'undeclared one; a second instance built before/between/after the registrations, each instance '
                           'judged by its own registrations.  The model is asked about the registrations made (shadow '
                           'registry), not about the tables of the object.  declared_sibling = dispatch on a declared '
                           'namespace with nothing registered while another declared namespace has something; '
                           'instances_differ = another live instance would answer the same pair differently',
    })
    ctx.assumptions += ['namespace and event names are str without lone surrogates ("*" included for both)',
                        'handlers are truthy callables accepting the arguments they are given',
                        'class-based namespaces do not override trigger_event']


def replay_evolving(sc):
    sc = C.unjsonable(sc)
    regen.run(C.REPO)
    C.build_driver('dispatch')
    loop = asyncio.new_event_loop()
    try:
        records = run_evolving(sc, loop)
    finally:
        loop.close()
    answers = C.batch('dispatch', [model_op({'kind': sc['kind'], 'ns': x['ns'], 'ev': x['ev']}, x['reg'])
                                   for x in records])
    bad, at = 0, None
    many = any(st['op'] == 'new' for st in sc['steps'])
    if sc.get('config'):
        print('constructor arguments: %r' % (sc['config'],))
    for rec, ans in zip(records, answers):
        if rec['step'] != at:
            at = rec['step']
            print('--- %s' % ('before any registration' if at < 0 else 'after registration %d: %r' % (
                at, {k: v for k, v in sc['steps'][at].items() if k not in ('dispatch', 'co')})))
        o = rec['oracle']
        want = view_dyn(sc['kind'], o, o.get('rid'), rec['args'])
        m = model_view(ans['model'])
        ok = same_view(rec['impl'], want)
        ok_m = same_view(rec['impl'], view_dyn(sc['kind'], m, rec['rids'].get(m.get('slot')), rec['args']))
        bad += not ok
        print('  %s%s._trigger_event(%r, %r): oracle %s, model %s' % (
            sc['kind'], '#%d' % rec['obj'] if many else '', rec['ev'], rec['ns'],
            'holds' if ok else 'VIOLATED', 'agrees' if ok_m else 'DIFFERS'))
        if not (ok and ok_m):
            print('      implementation :', rec['impl'])
            print('      oracle expects :', want)
            print('      model          :', m)
    print('oracle verdict :', 'holds' if not bad else 'VIOLATED (%d dispatches)' % bad)
    return 1 if bad else 0


def replay(ctx, r):
    rep = r.get('replay', r)
    case = rep.get('case')
    print(json.dumps(r, indent=1)[:3000])
    if isinstance(rep.get('evolving'), dict):
        return replay_evolving(rep['evolving'])
    if not isinstance(case, dict):
        print('no executable case in this replay (theorem / translator failure): rerun ./check C13')
        return 0
    case = dict(case)
    import ast as _ast
    case['args'] = _ast.literal_eval(case['args']) if isinstance(case['args'], str) else case['args']
    regen.run(C.REPO)
    C.build_driver('dispatch')
    loop = asyncio.new_event_loop()
    try:
        impl, obj, _ = run_impl(case, loop)
    finally:
        loop.close()
    ans = C.batch('dispatch', [model_op(case, read_registry(obj))])[0]
    want = expected_view(case['kind'], oracle(case), case)
    print('implementation :', impl)
    print('model          :', model_view(ans['model']))
    print('oracle expects :', want)
    ok = same_view(impl, want)
    print('oracle verdict :', 'holds' if ok else 'VIOLATED')
    return 0 if ok else 1
