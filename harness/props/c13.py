"""C13 — handler resolution follows the documented precedence on server and client (K8).

Tie of `Sio/Model/Dispatch.lean` to the code: every case builds a REAL `socketio.Server()`,
`AsyncServer()`, `Client()` or `AsyncClient()`, registers recording handlers through the public API
(`on`, `register_namespace`), calls the real `_trigger_event` and compares *which recorder ran, with
exactly which arguments, and what came back* with the model's answer for the registry read back
from the object.  Independently the property oracle (the documented table, coded here without
looking at the implementation or the model) judges the implementation's behaviour.
"""
import asyncio
import itertools
import json

from .. import common as C
from .. import gen as G
from .. import regen

LEVEL = 'proof'

KINDS = ['server', 'asyncServer', 'client', 'asyncClient']
SLOTS = ['fnNsEv', 'fnNsStar', 'fnStarEv', 'fnStarStar', 'clsNs', 'clsStar']

# The documented reserved events (property statement + docs); `__disconnect_final` is the client's
# internal notification, never an application event.  Deliberately NOT read from the source.
DOC_RESERVED = {
    'server': {'connect', 'disconnect'},
    'asyncServer': {'connect', 'disconnect'},
    'client': {'connect', 'disconnect', 'connect_error', '__disconnect_final'},
    'asyncClient': {'connect', 'disconnect', 'connect_error', '__disconnect_final'},
}


def sio_mod():
    import socketio
    return socketio


def make_object(kind):
    s = sio_mod()
    if kind == 'server':
        return s.Server(async_mode='threading')
    if kind == 'asyncServer':
        return s.AsyncServer(async_mode='asgi')
    if kind == 'client':
        return s.Client(handle_sigint=False)
    return s.AsyncClient(handle_sigint=False)


def ns_class(kind):
    s = sio_mod()
    return {'server': s.Namespace, 'asyncServer': s.AsyncNamespace, 'client': s.ClientNamespace,
            'asyncClient': s.AsyncClientNamespace}[kind]


class Log:
    def __init__(self):
        self.calls = []      # (recorder id, args tuple)
        self.tokens = {}

    def recorder(self, rid, coroutine, arity=None):
        """arity=None: accepts anything.  arity=n: a handler with exactly n positional parameters (a real
        signature, so that calling it with another number of arguments raises TypeError at the call,
        which is what sends the library down its legacy-disconnect retry path)."""
        token = ('token', rid)
        self.tokens[rid] = token
        calls = self.calls

        def note(*args, **kw):
            calls.append((rid, args, kw))
            return token
        if arity is None:
            if coroutine:
                async def rec(*args, **kw):
                    return note(*args, **kw)
            else:
                def rec(*args, **kw):
                    return note(*args, **kw)
        else:
            ps = ', '.join('a%d' % i for i in range(arity))
            src = '%sdef rec(%s):\n    return note(%s)\n' % ('async ' if coroutine else '', ps, ps)
            env = {'note': note}
            exec(src, env)
            rec = env['rec']
        rec.__name__ = 'rec_' + rid
        return rec


def legacy_arity(case):
    """slot -> number of parameters of a LEGACY-signature handler: one fewer than the arguments the
    slot is called with (prefix + event arguments), i.e. a `disconnect` handler without `reason`"""
    if not case.get('legacy'):
        return {}
    n = len(case['args'])
    return {'fnNsEv': n - 1, 'fnNsStar': n, 'fnStarEv': n, 'fnStarStar': n + 1, 'clsNs': n - 1, 'clsStar': n}


def build(case):
    """Register everything the case asks for on a fresh real object; -> (obj, log)."""
    kind, ns, ev = case['kind'], case['ns'], case['ev']
    co = case['mode'] == 'coroutine'
    bits = case['bits']
    obj = make_object(kind)
    log = Log()
    ar = legacy_arity(case)
    other_ev = ev + '~unrelated'
    other_ns = ns + '/unrelated'
    # for ev == '*' the exact-name key IS the catch-all key: bits 0 and 2 are forced to 0 by the generators
    # likewise for ns == '*' the namespace key IS the catch-all key: bits 0, 1 and 4 are forced to 0
    if bits[0] and ev != '*' and ns != '*':
        obj.on(ev, handler=log.recorder('fnNsEv', co, ar.get('fnNsEv')), namespace=ns)
    if bits[1] and ns != '*':
        obj.on('*', handler=log.recorder('fnNsStar', co, ar.get('fnNsStar')), namespace=ns)
    if bits[2] and ev != '*':
        obj.on(ev, handler=log.recorder('fnStarEv', co, ar.get('fnStarEv')), namespace='*')
    if bits[3]:
        obj.on('*', handler=log.recorder('fnStarStar', co, ar.get('fnStarStar')), namespace='*')
    cls = ns_class(kind)
    if bits[4] and ns != '*':
        o = cls(ns)
        if case['m5']:
            setattr(o, 'on_' + ev, log.recorder('clsNs', co, ar.get('clsNs')))
        if case['un'] & 1:
            setattr(o, 'on_' + other_ev, log.recorder('x:clsNs.other', co))
        obj.register_namespace(o)
    if bits[5]:
        o = cls('*')
        if case['m6']:
            setattr(o, 'on_' + ev, log.recorder('clsStar', co, ar.get('clsStar')))
        if case['un'] & 2:
            setattr(o, 'on_' + other_ev, log.recorder('x:clsStar.other', co))
        obj.register_namespace(o)
    if case['un'] & 1:      # the namespace has other, unrelated handlers
        obj.on(other_ev, handler=log.recorder('x:ns.other', co), namespace=ns)
    if case['un'] & 2:      # so has the catch-all namespace, and another namespace has everything
        obj.on(other_ev, handler=log.recorder('x:star.other', co), namespace='*')
        if ev != '*':
            obj.on(ev, handler=log.recorder('x:otherns.ev', co), namespace=other_ns)
        obj.on('*', handler=log.recorder('x:otherns.star', co), namespace=other_ns)
        o = cls(other_ns)
        setattr(o, 'on_' + ev, log.recorder('x:otherns.cls', co))
        obj.register_namespace(o)
    return obj, log


def read_registry(obj):
    """The registry as the real object holds it (input of the model)."""
    fn = [[k1, k2] for k1, d in obj.handlers.items() for k2 in d]
    cls = list(obj.namespace_handlers)
    attr = []
    for k, o in obj.namespace_handlers.items():
        names = set(n for n in dir(o) if n.startswith('on_')) | set(
            n for n in vars(o) if isinstance(n, str) and n.startswith('on_'))
        attr += [[k, n] for n in sorted(names)]
    return fn, cls, attr


def run_impl(case, loop):
    """-> observed behaviour {'calls': [(rid, args)], 'ret': description}"""
    obj, log = build(case)
    args = tuple(case['args'])
    try:
        r = obj._trigger_event(case['ev'], case['ns'], *args)
        if asyncio.iscoroutine(r):
            r = loop.run_until_complete(r)
        # a coroutine handler registered on a threaded class comes back un-awaited: run it to see
        # which one it is
        if asyncio.iscoroutine(r):
            r = loop.run_until_complete(r)
    except Exception as ex:      # noqa
        return {'calls': list(log.calls), 'ret': ('exc', type(ex).__name__, str(ex)[:80])}, obj, log
    if isinstance(r, tuple) and len(r) == 2 and r[0] == 'token':
        ret = ('token', r[1])
    elif r is None:
        ret = ('none',)
    elif r is getattr(obj, 'not_handled', object()):
        ret = ('not_handled',)
    else:
        ret = ('other', repr(r)[:60])
    return {'calls': list(log.calls), 'ret': ret}, obj, log


def expected_view(kind, ans, case):
    """Expected observation from a model/spec/oracle answer of the form
    {'res': 'invoke'|'dropped'|'notHandled', 'slot':…, 'args': [prefix strings]}."""
    if ans['res'] == 'invoke':
        full = tuple(ans['args']) + tuple(case['args'])
        if case.get('legacy'):          # the legacy handler is invoked once, without the last argument
            full = full[:-1]
        return {'calls': [(ans['slot'], full, {})], 'ret': ('token', ans['slot'])}
    if ans['res'] == 'dropped':
        return {'calls': [], 'ret': ('none',)}
    return {'calls': [], 'ret': ('not_handled',) if kind in ('server', 'asyncServer') else ('none',)}


def same_view(a, b):
    if a['ret'] != b['ret'] or len(a['calls']) != len(b['calls']):
        return False
    for (r1, a1, k1), (r2, a2, k2) in zip(a['calls'], b['calls']):
        if r1 != r2 or k1 != k2 or not C.same(list(a1), list(a2)):
            return False
    return True


def oracle(case):
    """The documented precedence table, first match wins (property statement)."""
    kind, ns, ev = case['kind'], case['ns'], case['ev']
    b = case['bits']
    reserved = ev in DOC_RESERVED[kind]
    # an exact-name handler exists only for a name other than the catch-all key: an event literally
    # named '*' is an ordinary event that nobody can register a handler of its own for
    # … and a namespace literally named '*' is an ordinary namespace that nothing can be registered for
    own = ns != '*'
    if own and b[0] and ev != '*':
        return {'res': 'invoke', 'slot': 'fnNsEv', 'args': []}
    if own and b[1] and not reserved:
        return {'res': 'invoke', 'slot': 'fnNsStar', 'args': [ev]}
    if b[2] and ev != '*':
        return {'res': 'invoke', 'slot': 'fnStarEv', 'args': [ns]}
    if b[3] and not reserved:
        return {'res': 'invoke', 'slot': 'fnStarStar', 'args': [ev, ns]}
    if own and b[4]:        # the class-based namespace registered for the namespace: method on_<event>
        return {'res': 'invoke', 'slot': 'clsNs', 'args': []} if case['m5'] else \
            {'res': 'dropped', 'slot': 'clsNs'}
    if b[5]:                # the catch-all class-based namespace
        return {'res': 'invoke', 'slot': 'clsStar', 'args': [ns]} if case['m6'] else \
            {'res': 'dropped', 'slot': 'clsStar'}
    return {'res': 'notHandled'}


def model_op(case, reg):
    fn, cls, attr = reg
    return {'op': 'resolve', 'kind': case['kind'], 'ns': C.s2w(case['ns']), 'ev': C.s2w(case['ev']),
            'fn': [[C.s2w(a), C.s2w(b)] for a, b in fn], 'cls': [C.s2w(k) for k in cls],
            'attr': [[C.s2w(a), C.s2w(b)] for a, b in attr]}


def model_view(ans):
    out = dict(ans)
    if 'args' in out:
        out['args'] = [C.w2s(a) for a in out['args']]
    return out


def case_json(case):
    c = dict(case)
    c['args'] = repr(case['args'])
    return c


def exhaustive_cases(reserved_by_kind):
    """2^6 presence bits (x has-the-method for each registered class) x {ordinary, each reserved
    name} x {unrelated handlers: none / same namespace / elsewhere / both} x 4 classes x 2 modes."""
    for kind in KINDS:
        events = ['my event', '*', '**', '*x'] + sorted(set(reserved_by_kind[kind]) | DOC_RESERVED[kind])
        for mode in ('sync', 'coroutine'):
            for ns, ev in itertools.product(['/chat', '*', '**', '/*'], events):
                for bits in itertools.product([0, 1], repeat=6):
                    if ev == '*' and (bits[0] or bits[2]):
                        continue        # no exact-name handler can exist for the catch-all key
                    if ns == '*' and (bits[0] or bits[1] or bits[4]):
                        continue        # nothing can be registered for the catch-all key as a namespace
                    for m5 in ([1, 0] if bits[4] else [1]):
                        for m6 in ([1, 0] if bits[5] else [1]):
                            for un in (range(4) if ns in ('/chat', '*') else [3]):
                                yield {'kind': kind, 'mode': mode, 'ns': ns, 'ev': ev,
                                       'bits': list(bits), 'm5': m5, 'm6': m6, 'un': un,
                                       'args': ['sid-1', {'k': [1, 2]}] if ev not in ('connect_error',)
                                       else ['reason']}
                                if ev == 'disconnect' and ns == '/chat' and un in (0, 3):
                                    # handlers with the LEGACY signature (no `reason` parameter): the
                                    # library's TypeError retry must still invoke exactly one target
                                    yield {'kind': kind, 'mode': mode, 'ns': ns, 'ev': ev,
                                           'bits': list(bits), 'm5': m5, 'm6': m6, 'un': un, 'legacy': 1,
                                           'args': ['sid-1', 'transport close'] if kind in (
                                               'server', 'asyncServer') else ['transport close']}


def gen_name(rng, kind):
    while True:
        r = rng.random()
        if r < 0.12:
            ev = rng.choice(['*', '*', '**', '*x', 'x*', ' *'])
        elif r < 0.5:
            ev = G.gen_event_name(rng)
        elif r < 0.7:
            ev = rng.choice(sorted(DOC_RESERVED[kind]))
        else:
            ev = G.gen_str(rng)
        try:
            C.s2w(ev)
        except C.Unrepresentable:
            continue
        return ev


def gen_ns(rng):
    while True:
        ns = G.gen_namespace(rng, allow_none=False)
        if rng.random() < 0.1:
            ns = rng.choice(['*', '*', '**', '/*', '*/', ' *'])
        try:
            C.s2w(ns)
        except C.Unrepresentable:
            continue
        return ns


def random_case(rng):
    kind = rng.choice(KINDS)
    bits = [int(rng.random() < 0.45) for _ in range(6)]
    ev = gen_name(rng, kind)
    if ev == '*':
        bits[0] = bits[2] = 0
    ns = gen_ns(rng)
    if ns == '*':
        bits[0] = bits[1] = bits[4] = 0
    legacy = int(ev == 'disconnect' and rng.random() < 0.5)
    return {'kind': kind, 'mode': rng.choice(['sync', 'coroutine']), 'ns': ns,
            'ev': ev, 'bits': bits,
            'm5': int(rng.random() < 0.75), 'm6': int(rng.random() < 0.75), 'un': rng.randint(0, 3),
            'legacy': legacy,
            'args': [G.gen_value(rng, 2, 0.15) for _ in range(rng.randint(1 if legacy else 0, 4))]}


def judge(ctx, case, impl, model_ans, spec_ans, stats):
    """Compare one executed case with model, Lean spec table and Python oracle; report."""
    kind = case['kind']
    want_oracle = expected_view(kind, oracle(case), case)
    ok_oracle = same_view(impl, want_oracle)
    want_model = expected_view(kind, model_ans, case)
    ok_model = same_view(impl, want_model)
    ok_spec = same_view(want_oracle, expected_view(kind, spec_ans, case))
    rep = {'case': case_json(case), 'impl': repr(impl), 'model': repr(model_ans), 'oracle': repr(oracle(case))}
    if not ok_oracle:
        stats['oracle_fail'] += 1
        ctx.violation('oracle', 'documented precedence violated by %s._trigger_event: expected %r, observed %r'
                      % (kind, want_oracle, impl), rep)
    if not ok_model:
        stats['model_fail'] += 1
        ctx.violation('correspondence', 'Sio.Dispatch.resolve differs from %s._trigger_event' % kind, rep,
                      no_input=ok_oracle)
    if not ok_spec and ok_model and ok_oracle:
        # Lean table and Python oracle disagree although the implementation satisfies one of them
        ctx.violation('correspondence', 'Lean specification table and the Python oracle disagree', rep,
                      no_input=True)
    return ok_oracle and ok_model


def execute(ctx, cases, loop, stats, nontrivial, samples):
    impls, ops = [], []
    for case in cases:
        impl, obj, _log = run_impl(case, loop)
        impls.append(impl)
        ops.append(model_op(case, read_registry(obj)))
    answers = C.batch('dispatch', ops)
    for case, impl, ans in zip(cases, impls, answers):
        m, s = model_view(ans['model']), model_view(ans['spec'])
        judge(ctx, case, impl, m, s, stats)
        ctx.count('kind.' + case['kind'])
        ctx.count('res.' + m['res'] + ('.' + m['slot'] if 'slot' in m else ''))
        ctx.count('reserved' if ans['reserved'] else 'ordinary')
        if case['ev'] == '*':
            ctx.count('event_named_star')
        if case['ns'] == '*':
            ctx.count('namespace_named_star')
        if case.get('legacy'):
            ctx.count('legacy_disconnect_signature')
        if sum(case['bits']) >= 2:
            nontrivial.add(json.dumps([case['kind'], case['mode'], case['ns'], case['ev'], case['bits'],
                                       case['m5'], case['m6'], case['un']]))
        if sum(case['bits']) >= 3 and m['res'] == 'invoke' and case['un'] == 3 \
                and case['kind'] not in [x['kind'] for x in samples]:
            samples.append({'kind': case['kind'], 'case': case_json(case), 'impl': repr(impl), 'model': m})


def prepare(ctx):
    """called by the runner before the driver is built"""
    try:
        regen.run(C.REPO)
    except regen.TranslatorError:
        pass            # reported by run()


def run(ctx):
    # 1. regenerate the reserved lists from the source, rebuild, audit
    gen_problem = None
    try:
        regen.run(C.REPO)
    except regen.TranslatorError as e:
        gen_problem = str(e)
    C.build_driver('dispatch')
    C.proof_step(ctx, ['translator harness/translate_reserved.py (ast -> Sio/Generated/Reserved.lean); the '
                       'lists it emits are compared with the run-time `reserved_events` of the four classes',
                       'handler truthiness (`if handler:`) is not modelled; the TypeError retry for legacy '
                       'disconnect handlers is exercised with fixed-arity recorders and judged by the oracle '
                       '(one target, invoked once without the reason)'])
    # the same table for the handler resolution inside the server-core model (K4) and the client
    # model's registry (K7): Sio/Props/GlueDispatch.lean
    C.audit_extra(ctx, 'GlueDispatch', ['server_reserved_eq', 'server_resolve_eq', 'step_invokes_dispatch',
                                'step_invokes_table', 'server_reserved_never_catchall', 'client_reserved_eq',
                                'client_resolve_eq', 'client_event_dispatch'])
    if gen_problem and 'Reserved.lean' in gen_problem:
        ctx.violation('proof', 'translator cannot read reserved_events: ' + gen_problem,
                      {'translator': gen_problem}, no_input=True)

    # translator validation: generated lists == what the live classes say
    s = sio_mod()
    live = {'server': s.Server.reserved_events, 'asyncServer': s.AsyncServer.reserved_events,
            'client': s.Client.reserved_events, 'asyncClient': s.AsyncClient.reserved_events}
    gen_lists = C.batch('dispatch', [{'op': 'reserved', 'kind': k} for k in KINDS])
    reserved_by_kind = {}
    for k, g in zip(KINDS, gen_lists):
        reserved_by_kind[k] = [C.w2s(x) for x in g]
        if list(live[k]) != reserved_by_kind[k]:
            ctx.violation('correspondence', 'generated reserved list of %s differs from the live class: %r vs %r'
                          % (k, reserved_by_kind[k], list(live[k])),
                          {'kind': k, 'generated': reserved_by_kind[k], 'live': list(live[k])}, no_input=True)
            reserved_by_kind[k] = sorted(set(reserved_by_kind[k]) | set(live[k]))

    loop = asyncio.new_event_loop()
    stats = {'oracle_fail': 0, 'model_fail': 0}
    nontrivial, samples = set(), []
    try:
        ex = list(exhaustive_cases(reserved_by_kind))
        execute(ctx, ex, loop, stats, nontrivial, samples)
        n_rand = ctx.scale(4000, 80000)
        rnd = [random_case(ctx.rng) for _ in range(n_rand)]
        execute(ctx, rnd, loop, stats, nontrivial, samples)
    finally:
        loop.close()
    if ctx.thorough:
        ok, out = C.leanchecker(['Sio.Props.C13'])
        ctx.coverage['leanchecker'] = 'ok' if ok else out
        if not ok:
            ctx.violation('proof', 'leanchecker rejects Sio.Props.C13: ' + out[-800:], {'leanchecker': out[-800:]},
                          no_input=True)
    C.fold_proof_failures(ctx)
    # keep the report small: one replay per distinct (kind of violation, class)
    if len(ctx.violations) > 12:
        seen, kept = set(), []
        for v in ctx.violations:
            key = (v['kind'], v['no_input'], str(v['replay'].get('case', {}).get('kind')) if isinstance(
                v['replay'].get('case'), dict) else '')
            if key not in seen:
                seen.add(key)
                kept.append(v)
        ctx.notes.append('%d violations recorded, %d kept (one per kind and class)' % (len(ctx.violations), len(kept)))
        ctx.violations[:] = kept
    ctx.coverage.update({
        'exhaustive': True,
        'exhaustive_cases': len(ex), 'random_cases': len(rnd),
        'evaluations': len(ex) + len(rnd), 'distinct_nontrivial': len(nontrivial),
        'rule': 'exhaustive: {namespace "/chat", "*", "**", "/*"} x 2^6 presence bits x {class has on_<event> or not, per registered class} x '
                '{ordinary event, the event names "*", "**", "*x", each reserved name of the class} x {unrelated handlers: none, same namespace, '
                'catch-all/other namespace, both} x {Server, AsyncServer, Client, AsyncClient} x {sync, coroutine '
                'recorders}; for `disconnect` additionally handlers with the legacy signature (one parameter fewer: '
                'TypeError retry path, function handlers and class methods); plus random namespaces, event names (reserved ones included), argument lists. '
                'non-trivial = at least two of the six targets registered (precedence decides)',
        'samples': samples, 'traces_validated_against_impl': len(ex) + len(rnd),
        'oracle_failures': stats['oracle_fail'], 'model_disagreements': stats['model_fail'],
    })
    ctx.assumptions += ['namespace and event names are str without lone surrogates ("*" included for both)',
                        'handlers are truthy callables accepting the arguments they are given',
                        'class-based namespaces do not override trigger_event']


def replay(ctx, r):
    rep = r.get('replay', r)
    case = rep.get('case')
    print(json.dumps(r, indent=1)[:3000])
    if not isinstance(case, dict):
        print('no executable case in this replay (theorem / translator failure): rerun ./check C13')
        return 0
    case = dict(case)
    import ast as _ast
    case['args'] = _ast.literal_eval(case['args']) if isinstance(case['args'], str) else case['args']
    regen.run(C.REPO)
    C.build_driver('dispatch')
    loop = asyncio.new_event_loop()
    try:
        impl, obj, _ = run_impl(case, loop)
    finally:
        loop.close()
    ans = C.batch('dispatch', [model_op(case, read_registry(obj))])[0]
    want = expected_view(case['kind'], oracle(case), case)
    print('implementation :', impl)
    print('model          :', model_view(ans['model']))
    print('oracle expects :', want)
    ok = same_view(impl, want)
    print('oracle verdict :', 'holds' if ok else 'VIOLATED')
    return 0 if ok else 1
