"""C03 — Rooms: an emit reaches exactly the addressed members, once each (K3).

Every generated history is executed three ways:
  * on the REAL `socketio.Server`+`Manager` and `socketio.AsyncServer`+`AsyncManager` (real engine.io
    core, in-memory transports): clients connect with CONNECT packets, disconnect with DISCONNECT
    packets / `server.disconnect()` / transport loss; what an emit delivers is read off the
    transports;
  * on the Lean model (`siodriver rooms`), which folds `Sio.Rooms.apply` and, next to it, the
    abstract `Spec.apply` over the same operations (theorem C03.history says they agree);
  * on `Book`, a dict-of-sets rendering of the property statement kept by this file (the oracle).
Compared per operation: which transport got the event on which namespace how many times, every
`rooms()` answer, results / exception classes of API calls, where DISCONNECT packets went.

Besides the histories (API called between inputs), `run_active` runs harness/active_handlers.py: the same API
called from INSIDE the application's connect / event / disconnect handlers and, on asyncio, from another task while
such a handler is suspended — judged by the same `Book`, read at the moment of the call (oracle only).
"""
import collections
import glob
import hashlib
import json
import os
import time

from .. import common as C
from .. import world as W
from .. import active_handlers as AH

LEVEL = 'proof'

SERVED_POOL = ['/', '/a', '/chat']
UNSERVED = '/zz'                      # never served: CONNECT is refused above the manager
PLAIN_ROOMS = ['r1', 'r2', 'lobby']
INT_ROOM = 7                          # a hashable, truthy, non-string, non-sequence room name
EVENT = 'ev'


# ---------------------------------------------------------------- abstract names

def room_key(room):
    """abstract room -> the model's room name"""
    if 'r' in room:
        return room['r']
    if 'i' in room:
        return '#%d' % room['i']
    return room['s']


class Names:
    """generated session ids <-> the names the harness allocated (s0, s1, ... in allocation order)"""

    def __init__(self):
        self.real = {}
        self.name = {}

    def bind(self, name, real):
        self.real[name] = real
        self.name[real] = name

    def sid(self, name):
        return self.real.get(name, 'unbound-' + name)

    def room(self, room):
        if 'r' in room:
            return room['r']
        if 'i' in room:
            return room['i']
        return self.sid(room['s'])

    def room_back(self, real_room):
        if isinstance(real_room, int):
            return '#%d' % real_room
        if real_room in self.name:
            return self.name[real_room]
        if isinstance(real_room, str) and real_room.startswith('unbound-'):
            return real_room[len('unbound-'):]
        return real_room


# ---------------------------------------------------------------- the oracle's bookkeeping

class Book:
    """The statement of C03 as a dict of sets: who is connected where (and on which transport),
    who entered which room and has not since left it / had it closed / disconnected.  The personal
    room is entered at connect."""

    def __init__(self, served):
        self.served = list(served)
        self.conn = collections.defaultdict(dict)                       # ns -> sid -> tid
        self.mem = collections.defaultdict(lambda: collections.defaultdict(set))   # ns -> room -> {sid}
        self.alive = []                                                 # open transports
        self.ever = []                                                  # every sid ever connected (ns, sid)
        self.known_ns = set()                                           # namespaces that ever had a client

    def tsid(self, ns, tid):
        for sid, t in self.conn[ns].items():
            if t == tid:
                return sid
        return None

    def can_connect(self, ns, tid):
        return ns in self.served and self.tsid(ns, tid) is None

    def connect(self, ns, tid, sid):
        self.conn[ns][sid] = tid
        self.mem[ns][sid].add(sid)
        self.ever.append((ns, sid))
        self.known_ns.add(ns)

    def connected(self, ns, sid):
        return sid in self.conn[ns]

    def enter(self, ns, sid, room):
        if self.connected(ns, sid):
            self.mem[ns][room].add(sid)

    def leave(self, ns, sid, room):
        self.mem[ns][room].discard(sid)

    def close(self, ns, room):
        self.mem[ns][room] = set()

    def disconnect(self, ns, sid):
        self.conn[ns].pop(sid, None)
        for members in self.mem[ns].values():
            members.discard(sid)

    def lose(self, tid):
        for ns in list(self.conn):
            sid = self.tsid(ns, tid)
            if sid is not None:
                self.disconnect(ns, sid)
        if tid in self.alive:
            self.alive.remove(tid)

    def rooms(self, ns, sid):
        return sorted(r for r, m in self.mem[ns].items() if sid in m)

    def expected(self, ns, rooms, skip):
        """connected ∩ addressed \\ skipped -> {tid: 1}"""
        if rooms is None:
            addressed = set(self.conn[ns])
        else:
            addressed = set()
            for r in rooms:
                addressed |= self.mem[ns][r]
        out = collections.Counter()
        for sid in addressed:
            if sid in self.conn[ns] and sid not in skip:
                out[self.conn[ns][sid]] += 1
        return out

    def live(self, ns):
        return bool(self.conn[ns])

    def nontrivial_emit(self, ns, rooms):
        if rooms is None:
            return False
        for r in rooms:
            m = self.mem[ns][r]
            if len(m) >= 2 and len(set(self.conn[ns]) - m) >= 1:
                return True
        return False


def emit_rooms(to):
    if to is None:
        return None
    if 'list' in to:
        return [room_key(r) for r in to['list']]
    if 'tuple' in to:
        return [room_key(r) for r in to['tuple']]
    return [room_key(to)]


def skip_list(skip):
    if skip is None:
        return []
    if 'one' in skip:
        return [skip['one']]
    return list(skip['many'])


def book_step(book, op):
    """-> the observable answer the property requires for this operation (None = not constrained)"""
    k = op['op']
    if k == 'open':
        book.alive.append(op['t'])
        return ('noop',)
    if k == 'connect':
        if book.can_connect(op['ns'], op['t']):
            book.connect(op['ns'], op['t'], op['name'])
            return ('connect', 'ok')
        return ('connect', 'refused')
    if k == 'enter':
        was = book.connected(op['ns'], op['sid'])
        book.enter(op['ns'], op['sid'], room_key(op['room']))
        return ('api', 'ok') if was else ('api', None)
    if k == 'leave':
        book.leave(op['ns'], op['sid'], room_key(op['room']))
        return ('api', 'ok')
    if k == 'close':
        book.close(op['ns'], room_key(op['room']))
        return ('api', 'ok')
    if k == 'cdisc':
        sid = book.tsid(op['ns'], op['t'])
        if sid is not None:
            book.disconnect(op['ns'], sid)
        return ('noop',)
    if k == 'sdisc':
        tid = book.conn[op['ns']].get(op['sid'])
        book.disconnect(op['ns'], op['sid'])
        return ('sdisc', 'ok', tid)
    if k == 'lose':
        book.lose(op['t'])
        return ('noop',)
    if k == 'emit':
        exp = book.expected(op['ns'], emit_rooms(op['to']), skip_list(op['skip']))
        return ('emit', 'ok', sorted(exp.items()))
    if k == 'rooms':
        return ('rooms', 'ok', book.rooms(op['ns'], op['sid']))
    raise ValueError(k)


def in_domain(served, ops):
    """The quantifier of C03 (plus what the executors need): transports are opened before use and
    not used after loss; `enter_room` of a session that is not connected to the namespace only as
    the very last operation — except on a namespace nobody has ever connected to ("operations
    addressed to unknown namespaces"), where it may come anywhere."""
    book = Book(served)
    opened = set()
    for i, op in enumerate(ops):
        k = op['op']
        if k == 'open':
            if op['t'] in opened:
                return False
            opened.add(op['t'])
        elif 't' in op and op['t'] not in book.alive:
            return False
        if k == 'enter' and not book.connected(op['ns'], op['sid']) and op['ns'] in book.known_ns \
                and i != len(ops) - 1:
            return False
        book_step(book, op)
    return True


# ---------------------------------------------------------------- generator

def gen_history(rng):
    served = rng.sample(SERVED_POOL, rng.randint(1, 3))
    if rng.random() < 0.6 and '/' not in served:
        served[0] = '/'
    n_tr = rng.choice([1, 2, 2, 3, 3, 3, 4, 4, 4, 5, 5, 5, 6, 6, 6])
    n_ops = rng.randint(5, 60)
    book = Book(served)
    ops = []
    counter = [0, 0]          # sids, transports

    def emit_op(op):
        ops.append(op)
        book_step(book, op)

    def new_transport():
        t = 't%d' % counter[1]
        counter[1] += 1
        emit_op({'op': 'open', 't': t})
        return t

    def any_ns(p_unknown=0.12):
        if rng.random() < p_unknown:
            return rng.choice([UNSERVED] + SERVED_POOL)
        live = [n for n in served if book.live(n)]
        if live and rng.random() < 0.5:
            return max(live, key=lambda n: len(book.conn[n]))
        return rng.choice(live or served)

    def known_sid(ns, p_connected=0.8):
        cur = list(book.conn[ns])
        if cur and rng.random() < p_connected:
            return rng.choice(cur)
        if book.ever:
            return rng.choice(book.ever)[1]
        return 's99'

    def a_room(ns, p_used=0.5):
        used = [r for r, m in book.mem[ns].items() if m]
        if used and rng.random() < p_used:
            r = rng.choice(used)
            if r.startswith('#'):
                return {'i': int(r[1:])}
            if r in PLAIN_ROOMS:
                return {'r': r}
            return {'s': r}
        x = rng.random()
        if x < 0.6:
            return {'r': rng.choice(PLAIN_ROOMS[:2] if rng.random() < 0.8 else PLAIN_ROOMS)}
        if x < 0.7:
            return {'i': INT_ROOM}
        if book.ever:
            return {'s': rng.choice(book.ever)[1]}
        return {'r': 'r1'}

    def do_connect(ns=None):
        if not book.alive:
            return
        t = rng.choice(book.alive)
        if ns is None:
            x = rng.random()
            if x < 0.06:
                ns = UNSERVED
            elif x < 0.9:
                free = [n for n in served if book.tsid(n, t) is None]
                ns = rng.choice(free or served)
            else:
                ns = rng.choice(served)
        name = None
        if ns in served:
            name = 's%d' % counter[0]
            counter[0] += 1
        emit_op({'op': 'connect', 't': t, 'ns': ns, 'name': name})

    for _ in range(n_tr if rng.random() < 0.7 else rng.randint(1, n_tr)):
        new_transport()
    main = served[0]
    for t in list(book.alive):
        for ns, p in [(main, 0.8)] + [(n, 0.3) for n in served[1:]]:
            if rng.random() < p and len(ops) < n_ops - 1:
                name = 's%d' % counter[0]
                counter[0] += 1
                emit_op({'op': 'connect', 't': t, 'ns': ns, 'name': name})

    while len(ops) < n_ops:
        last = len(ops) == n_ops - 1
        x = rng.random()
        if x < 0.04 and counter[1] < n_tr:
            new_transport()
        elif x < 0.17:
            do_connect()
        elif x < 0.42:
            ns = any_ns(0.06)
            sid = known_sid(ns, 0.93)
            if not book.connected(ns, sid) and ns in book.known_ns and not last:
                continue
            emit_op({'op': 'enter', 'ns': ns, 'sid': sid, 'room': a_room(ns, 0.45)})
        elif x < 0.51:
            ns = any_ns()
            emit_op({'op': 'leave', 'ns': ns, 'sid': known_sid(ns), 'room': a_room(ns, 0.7)})
        elif x < 0.55:
            ns = any_ns()
            emit_op({'op': 'close', 'ns': ns, 'room': a_room(ns, 0.7)})
        elif x < 0.58 and book.alive:
            emit_op({'op': 'cdisc', 't': rng.choice(book.alive), 'ns': any_ns()})
        elif x < 0.61:
            ns = any_ns()
            emit_op({'op': 'sdisc', 'ns': ns, 'sid': known_sid(ns)})
        elif x < 0.63 and book.alive:
            emit_op({'op': 'lose', 't': rng.choice(book.alive)})
        elif x < 0.90:
            ns = any_ns(0.08)
            y = rng.random()
            if y < 0.18:
                to = None
            elif y < 0.50:
                to = a_room(ns, 0.8)
            elif y < 0.62:
                to = {'s': known_sid(ns)}
            else:
                rooms = [a_room(ns, 0.8) for _ in range(rng.randint(1, 3))]
                to = {'tuple': rooms} if rng.random() < 0.12 else {'list': rooms}
            z = rng.random()
            if z < 0.35:
                skip = None
            elif z < 0.7:
                skip = {'one': known_sid(ns, 0.9)}
            else:
                skip = {'many': [known_sid(ns, 0.85) for _ in range(rng.randint(0, 3))]}
            emit_op({'op': 'emit', 'ns': ns, 'to': to, 'skip': skip, 'alias': rng.random() < 0.25})
        else:
            ns = any_ns()
            emit_op({'op': 'rooms', 'ns': ns, 'sid': known_sid(ns)})
    return served, ops


# ---------------------------------------------------------------- the real servers

def classify(frames, names):
    """-> list of (kind, ns, payload): connect/refused/disconnect/event/other"""
    out = []
    for f in W.decode_frames([x for x in frames if not isinstance(x, tuple)]):
        if not isinstance(f[0], int):
            out.append(('other', None, repr(f)))
            continue
        t, ns, pid, data = f
        if t == 0 and isinstance(data, dict) and 'sid' in data:
            out.append(('connect', ns, data['sid']))
        elif t == 4:
            out.append(('refused', ns, None))
        elif t == 1:
            out.append(('disconnect', ns, None))
        elif t == 2 and pid is None:
            out.append(('event', ns, data))
        else:
            out.append(('other', ns, repr(f)))
    return out


def run_real(family, served, ops):
    """-> list of (answer, stray) per op"""
    w = W.ServerWorld(family, namespaces=list(served))
    names = Names()
    tids = []
    trace = []
    try:
        for idx, op in enumerate(ops):
            k = op['op']
            ans = None
            res = ('ok', None)
            if k == 'open':
                res = w.open(op['t'])
                tids.append(op['t'])
            elif k == 'connect':
                res, _ = w.recv(op['t'], '0' if op['ns'] == '/' else '0%s,' % op['ns'])
            elif k == 'enter':
                res = w.api('enter_room', names.sid(op['sid']), names.room(op['room']), namespace=op['ns'])
            elif k == 'leave':
                res = w.api('leave_room', names.sid(op['sid']), names.room(op['room']), namespace=op['ns'])
            elif k == 'close':
                res = w.api('close_room', names.room(op['room']), namespace=op['ns'])
            elif k == 'cdisc':
                res, _ = w.recv(op['t'], '1' if op['ns'] == '/' else '1%s,' % op['ns'])
            elif k == 'sdisc':
                res = w.api('disconnect', names.sid(op['sid']), namespace=op['ns'])
            elif k == 'lose':
                res, _ = w.lose(op['t'])
            elif k == 'emit':
                to = op['to']
                if to is None:
                    target = None
                elif 'list' in to:
                    target = [names.room(r) for r in to['list']]
                elif 'tuple' in to:
                    target = tuple(names.room(r) for r in to['tuple'])
                else:
                    target = names.room(to)
                sk = op['skip']
                if sk is None:
                    skip = None
                elif 'one' in sk:
                    skip = names.sid(sk['one'])
                else:
                    skip = [names.sid(x) for x in sk['many']]
                kw = {'namespace': op['ns'], 'skip_sid': skip}
                kw['room' if op.get('alias') else 'to'] = target
                res = w.api('emit', EVENT, idx, **kw)
            elif k == 'rooms':
                res = w.api('rooms', names.sid(op['sid']), namespace=op['ns'])
            w.settle()
            status = 'ok' if res[0] == 'ok' else res[1]
            got = {t: classify(w.sent(t), names) for t in tids}
            stray = []

            def take(tid, pred):
                keep, taken = [], []
                for f in got.get(tid, []):
                    (taken if pred(f) else keep).append(f)
                got[tid] = keep
                return taken

            if k == 'connect':
                mine = take(op['t'], lambda f: f[0] in ('connect', 'refused') and f[1] == op['ns'])
                if len(mine) == 1 and mine[0][0] == 'connect':
                    if op['name'] is not None:
                        names.bind(op['name'], mine[0][2])
                    ans = ('connect', 'ok' if op['name'] is not None else 'ok-unserved')
                elif len(mine) == 1:
                    ans = ('connect', 'refused')
                else:
                    ans = ('connect', 'answers:%d' % len(mine))
                if status != 'ok':
                    ans = ('connect', status)
            elif k in ('enter', 'leave', 'close'):
                ans = ('api', status)
            elif k in ('open', 'cdisc', 'lose'):
                ans = ('noop',) if status == 'ok' else ('noop', status)
            elif k == 'sdisc':
                where = []
                for t in tids:
                    for _f in take(t, lambda f: f[0] == 'disconnect' and f[1] == op['ns']):
                        where.append(t)
                ans = ('sdisc', status, where[0] if len(where) == 1 else (None if not where else where))
            elif k == 'emit':
                deliv = collections.Counter()
                for t in tids:
                    for _f in take(t, lambda f: f[0] == 'event' and f[1] == op['ns'] and f[2] == [EVENT, idx]):
                        deliv[t] += 1
                ans = ('emit', status, sorted(deliv.items()))
            elif k == 'rooms':
                if res[0] == 'ok':
                    ans = ('rooms', 'ok', sorted(names.room_back(r) for r in res[1]))
                else:
                    ans = ('rooms', status, [])
            for t in tids:
                for f in got[t]:
                    stray.append((t,) + tuple(f[:2]) + (repr(f[2])[:60],))
            trace.append((ans, stray))
    finally:
        w.close()
    return trace


# ---------------------------------------------------------------- the model

def s2w(s):
    return C.s2w(s)


def run_model(drv, served, ops):
    """-> list of (answer, spec_answer) per op (spec_answer: what the Lean `Spec` folded over the
    same operations says, for emits and rooms queries)"""
    drv.ask({'op': 'reset'})
    trace = []
    sids = []
    rooms_u = list(PLAIN_ROOMS) + ['#%d' % INT_ROOM]
    tid_of = {}

    def target(to):
        if to is None:
            return None
        if 'list' in to:
            return {'many': [s2w(room_key(r)) for r in to['list']]}
        if 'tuple' in to:
            return {'many': [s2w(room_key(r)) for r in to['tuple']]}
        return {'one': s2w(room_key(to))}

    for op in ops:
        k = op['op']
        spec = None
        if k in ('open',):
            ans = ('noop',)
        elif k == 'connect':
            if op['name'] is None:
                ans = ('connect', 'refused')       # not served: the manager is never asked
            else:
                r = drv.ask({'op': 'connect', 'ns': s2w(op['ns']), 'eio': s2w(op['t']), 'sid': s2w(op['name'])})
                sids.append(op['name'])
                ans = ('connect', 'refused' if r.get('dup') else 'ok')
        elif k == 'enter':
            r = drv.ask({'op': 'enter', 'ns': s2w(op['ns']), 'sid': s2w(op['sid']),
                         'room': s2w(room_key(op['room']))})
            ans = ('api', r.get('exc', 'ok'))
        elif k == 'leave':
            drv.ask({'op': 'leave', 'ns': s2w(op['ns']), 'sid': s2w(op['sid']),
                     'room': s2w(room_key(op['room']))})
            ans = ('api', 'ok')
        elif k == 'close':
            drv.ask({'op': 'close', 'ns': s2w(op['ns']), 'room': s2w(room_key(op['room']))})
            ans = ('api', 'ok')
        elif k == 'cdisc':
            r = drv.ask({'op': 'sid_of', 'ns': s2w(op['ns']), 'eio': s2w(op['t'])})
            if r['sid'] is not None:
                drv.ask({'op': 'disconnect', 'ns': s2w(op['ns']), 'sid': r['sid']})
            ans = ('noop',)
        elif k == 'sdisc':
            r = drv.ask({'op': 'disconnect', 'ns': s2w(op['ns']), 'sid': s2w(op['sid'])})
            ans = ('sdisc', 'ok', C.ow2s(r['eio']))
        elif k == 'lose':
            drv.ask({'op': 'lost', 'eio': s2w(op['t'])})
            ans = ('noop',)
        elif k == 'emit':
            sk = op['skip']
            skip = None if sk is None else (
                {'one': s2w(sk['one'])} if 'one' in sk else {'many': [s2w(x) for x in sk['many']]})
            universe = sorted(set(sids + skip_list(sk)))
            r = drv.ask({'op': 'emit', 'ns': s2w(op['ns']), 'target': target(op['to']), 'skip': skip,
                         'universe': [s2w(x) for x in universe]})
            pairs = [(C.w2s(a), C.w2s(b)) for a, b in r['to']]
            ans = ('emit', 'ok', sorted(collections.Counter(e for _s, e in pairs).items()))
            spec = ('emit-sids', sorted(C.w2s(x) for x in r['spec']), sorted(s for s, _e in pairs))
        elif k == 'rooms':
            universe = sorted(set(rooms_u + sids + [op['sid']]))
            r = drv.ask({'op': 'rooms', 'ns': s2w(op['ns']), 'sid': s2w(op['sid']),
                         'universe': [s2w(x) for x in universe]})
            ans = ('rooms', 'ok', sorted(C.w2s(x) for x in r['rooms']))
            spec = ('rooms', sorted(C.w2s(x) for x in r['spec']), ans[2])
        else:
            raise ValueError(k)
        trace.append((ans, spec))
    return trace


def run_oracle(served, ops):
    book = Book(served)
    out = []
    nontrivial = 0
    for op in ops:
        if op['op'] == 'emit' and book.nontrivial_emit(op['ns'], emit_rooms(op['to'])):
            nontrivial += 1
        out.append(book_step(book, op))
    return out, nontrivial


# ---------------------------------------------------------------- comparison

def agrees(required, observed):
    """`required` may leave the result of an API call unconstrained (None)"""
    if required is None:
        return True
    if len(required) != len(observed):
        return False
    for a, b in zip(required, observed):
        if a is None:
            continue
        if a != b:
            return False
    return True


def oracle_failures(served, ops, real):
    want, _ = run_oracle(served, ops)
    bad = []
    for i, (op, req, (got, stray)) in enumerate(zip(ops, want, real)):
        if stray:
            bad.append((i, 'frames nobody should have received: %r' % (stray[:4],)))
        if not agrees(req, got):
            bad.append((i, 'op %s: property requires %r, implementation gave %r' % (json.dumps(op), req, got)))
    return bad


def correspondence_failures(ops, real, model):
    bad = []
    for i, (op, (got, _stray), (mod, _spec)) in enumerate(zip(ops, real, model)):
        if got != mod:
            bad.append((i, 'op %s: implementation %r, model %r' % (json.dumps(op), got, mod)))
    return bad


def spec_failures(ops, model):
    """the Lean `Spec` and the Lean model, evaluated by the driver (proved equal: C03.recipients_spec,
    C03.rooms_spec) — a difference means the driver or the build is not the audited one"""
    bad = []
    for i, (op, (_ans, spec)) in enumerate(zip(ops, model)):
        if spec is not None and spec[1] != spec[2]:
            bad.append((i, 'op %s: Lean Spec says %r, Lean model says %r' % (json.dumps(op), spec[1], spec[2])))
    return bad


def shrink(served, ops, still_fails, budget=250):
    """greedy delta debugging on the operation list, staying inside the domain"""
    cur = list(ops)
    changed = True
    while changed and budget > 0:
        changed = False
        i = len(cur) - 1
        while i >= 0 and budget > 0:
            cand = cur[:i] + cur[i + 1:]
            if cand and in_domain(served, cand):
                budget -= 1
                if still_fails(cand):
                    cur = cand
                    changed = True
            i -= 1
    return cur


def replay_obj(family, served, ops, **extra):
    d = {'family': family, 'served': served, 'ops': ops}
    d.update(extra)
    return d


def judge(ctx, drv, family, served, ops, model=None, shrink_it=True):
    """run one history on one server family; report; -> (real trace, model trace, ok)"""
    real = run_real(family, served, ops)
    if model is None:
        model = run_model(drv, served, ops)
    obad = oracle_failures(served, ops, real)
    cbad = correspondence_failures(ops, real, model)
    sbad = spec_failures(ops, model)
    if obad:
        small = ops
        if shrink_it:
            small = shrink(served, ops, lambda c: bool(oracle_failures(served, c, run_real(family, served, c))))
        sreal = run_real(family, served, small)
        sbad2 = oracle_failures(served, small, sreal)
        ctx.violation('oracle', '%s: %s' % (family, (sbad2 or obad)[0][1]),
                      replay_obj(family, served, small, failures=[b[1] for b in (sbad2 or obad)[:5]],
                                 observed=[repr(x[0]) for x in sreal],
                                 required=[repr(x) for x in run_oracle(served, small)[0]]))
    elif cbad:
        small = ops
        if shrink_it:
            small = shrink(served, ops, lambda c: bool(correspondence_failures(
                c, run_real(family, served, c), run_model(drv, served, c))), budget=120)
        sreal = run_real(family, served, small)
        smodel = run_model(drv, served, small)
        cb = correspondence_failures(small, sreal, smodel) or cbad
        ctx.violation('correspondence', '%s: %s (oracle found no failing input)' % (family, cb[0][1]),
                      replay_obj(family, served, small, failures=[b[1] for b in cb[:5]],
                                 observed=[repr(x[0]) for x in sreal], model=[repr(x[0]) for x in smodel]),
                      no_input=True)
    if sbad:
        ctx.violation('proof', 'driver: %s' % sbad[0][1], replay_obj(family, served, ops), no_input=True)
    return real, model, not (obad or cbad or sbad)


# ---------------------------------------------------------------- the API called from inside handlers (oracle only)

def active_failures(scn, families=('threading', 'asyncio')):
    """-> (failures [(family, op index, text)], {family: real trace})"""
    bad, real = [], {}
    for family in families:
        real[family] = AH.run_real(family, scn)
        bad += [(family, i, t) for i, t in AH.oracle_failures(scn, real[family], family)]
    if len(real) == 2 and not bad:
        bad += [('both', i, 'the two server families answer differently: ' + t)
                for i, t in AH.family_differences(scn, real['threading'], real['asyncio'])]
    return bad, real


def run_active(ctx):
    """C03 read at the moment of a call made from inside a connect / event / disconnect handler (or, asyncio, from another
    task while that handler is suspended): harness/active_handlers.py"""
    n = ctx.scale(350, 5000)
    deadline = time.time() + ctx.scale(14, 90)
    ran = failures = skipped = 0
    calls = own_rooms = handler_emits = 0
    samples = []
    for _ in range(n):
        if time.time() > deadline or failures >= 2:
            break
        scn = AH.gen_scenario(ctx.rng)
        if not AH.in_domain(scn):
            skipped += 1
            continue
        ran += 1
        bad, real = active_failures(scn)
        AH.stats(ctx, scn, real['threading'])
        a, b, c = AH.summary(scn, real['threading'])
        calls, own_rooms, handler_emits = calls + a, own_rooms + b, handler_emits + c
        ctx.count('active.style.' + scn['style'])
        if bad:
            failures += 1
            fam = bad[0][0]
            fams = ('threading', 'asyncio') if fam == 'both' else (fam,)
            small = AH.shrink(scn, lambda cand: bool(active_failures(cand, fams)[0]))
            sbad, sreal = active_failures(small, fams)
            sbad = sbad or bad
            ctx.violation('oracle', 'API called from inside a handler: %s: %s' % (sbad[0][0], sbad[0][2]),
                          {'kernel': 'active_handlers', 'families': list(fams), 'scenario': small,
                           'failures': ['%s: %s' % (f, t) for f, _i, t in sbad[:6]],
                           'observed': {f: [{'invocations': r['invocations'], 'api': r['api'], 'answer': r['answer']}
                                            for r in tr] for f, tr in sreal.items()}})
        elif len(samples) < 2 and b and c and len(scn['ops']) <= 14:
            samples.append({'scenario': scn, 'observed_threading': [
                {'invocations': r['invocations'], 'api': r['api']} for r in real['threading']]})
    ctx.coverage['active_handler_scenarios'] = ran
    ctx.coverage['active_handler_traces_validated_against_impl'] = 2 * ran
    ctx.coverage['active_handler_calls_inside_disconnect_handlers'] = calls
    ctx.coverage['active_handler_rooms_of_the_ending_session_with_2plus_rooms'] = own_rooms
    ctx.coverage['active_handler_emits_from_a_disconnect_handler_delivered'] = handler_emits
    ctx.coverage['active_handler_skipped_outside_domain'] = skipped
    ctx.coverage['active_handler_samples'] = samples
    ctx.coverage['active_handler_rule'] = (
        'ORACLE ONLY (the Lean rooms model has no notion of "inside a handler"): scenarios over 2-4 transports and 1-2 '
        'namespaces in which the application\'s connect / event / disconnect handlers (functions or class-based Namespaces), '
        'when the real Server / AsyncServer invokes them, make scripted calls rooms(sid) of the client being handled and of '
        'others, enter_room, leave_room, close_room, emit(to=room, skip_sid) -- inside the handler, and (asyncio) from another '
        'task while the coroutine handler is suspended on a harness-owned future; sessions are ended by client DISCONNECT, '
        'disconnect() and transport loss. Every answer is compared with the dict-of-sets oracle read at the moment of the '
        'call: during its disconnect handler a session is still a member of what it entered and has not left; emits from '
        'there reach every other member exactly once (the ending session itself: at most as often); afterwards it is in no '
        'room; the two families must agree. Counted in the distribution under active.*')


def replay_active(ctx, r):
    scn = r['scenario']
    fams = tuple(r.get('families') or ('threading', 'asyncio'))
    bad, real = active_failures(scn, fams)
    for fam, tr in real.items():
        print('--- %s' % fam)
        for i, (op, rec) in enumerate(zip(scn['ops'], tr)):
            print('%3d %s' % (i, json.dumps({k: v for k, v in op.items() if k != 'h'})))
            for inv in rec['invocations']:
                h = (op.get('h') or {}).get(inv['ns']) or {'in': [], 'parked': []}
                print('      %s handler of %s on %s' % (inv['kind'], inv['sid'], inv['ns']))
                for j, (c, got) in enumerate(zip(h['in'] + h['parked'], inv['calls'])):
                    print('        %-6s %s -> %r' % ('inside' if j < len(h['in']) else 'parked', json.dumps(c), got))
            if rec['api'] is not None:
                print('      outside -> %r' % (rec['api'],))
    print('oracle: %s' % ('FAILS: ' + '; '.join('%s: %s' % (f, t) for f, _i, t in bad) if bad else 'holds'))
    return 1 if bad else 0


# ---------------------------------------------------------------- entry points

def run(ctx):
    C.proof_step(ctx, [
        'bidict semantics (one-to-one sid<->eio_sid per room, ValueDuplicationError on a duplicate value) '
        'and dict insertion order: modelled, exercised by the correspondence',
        'engineio.generate_id() never repeats an id: `Sio.Rooms.apply` ignores a connect whose id is in use',
        'python-engineio queues a packet on the addressed socket or drops it if the socket is closed',
    ])
    if ctx.thorough:
        ok, out = C.leanchecker(['Sio.Props.C03'])
        ctx.notes.append('leanchecker Sio.Props.C03: %s' % ('ok' if ok else 'FAILED'))
        if not ok:
            ctx.violation('proof', 'leanchecker rejected Sio.Props.C03: ' + out, {'theorem_or_build': out},
                          no_input=True)
    rng = ctx.rng
    n_hist = ctx.scale(1200, 24000)
    deadline = ctx.t0 + ctx.scale(50, 540)
    drv = C.Driver('rooms')
    evals = 0
    validated = 0
    nontrivial = set()
    samples = []
    failures = 0
    try:
        corpus = sorted(glob.glob(os.path.join(C.ROOT, 'corpus', 'C03', '*.json')))
        cases = []
        for path in corpus:
            r = json.load(open(path))
            r = r.get('replay', r)
            cases.append((r['served'], r['ops'], 'corpus'))
        for _ in range(n_hist):
            served, ops = gen_history(rng)
            cases.append((served, ops, 'generated'))
        for served, ops, origin in cases:
            if time.time() > deadline or failures >= 3:
                ctx.notes.append('stopped after %d histories (time budget or 3 failing histories)' % evals)
                break
            if not in_domain(served, ops):
                ctx.count('skipped.outside_domain')
                continue
            evals += 1
            ctx.count('history.' + origin)
            ctx.count('transports.%d' % sum(1 for o in ops if o['op'] == 'open'))
            ctx.count('namespaces.%d' % len(served))
            ctx.count('length.%02d-%02d' % (len(ops) // 10 * 10, len(ops) // 10 * 10 + 9))
            want, nt = run_oracle(served, ops)
            model = None
            good = True
            for family in ('threading', 'asyncio'):
                real, model, ok = judge(ctx, drv, family, served, ops, model=model)
                good = good and ok
                validated += 1
                if family == 'threading':
                    for op, (ans, _stray) in zip(ops, real):
                        ctx.count('op.' + op['op'])
                        if op['op'] == 'emit':
                            to = op['to']
                            ctx.count('emit.to.' + ('none' if to is None else 'list' if 'list' in to else
                                                    'tuple' if 'tuple' in to else 'sid' if 's' in to else 'room'))
                            sk = op['skip']
                            ctx.count('emit.skip.' + ('none' if sk is None else 'scalar' if 'one' in sk else 'list'))
                            ctx.count('emit.recipients.%s' % min(len(ans[2]), 4))
                        if op['op'] in ('enter', 'connect', 'sdisc') and len(ans) > 1:
                            ctx.count('%s.%s' % (op['op'], ans[1] if ans[0] != 'sdisc' else
                                                 ('delivered' if ans[2] else 'not-connected')))
            if not good:
                failures += 1
            if nt:
                nontrivial.add(hashlib.sha1(json.dumps([served, ops], sort_keys=True).encode()).hexdigest())
                ctx.count('nontrivial_emits', nt)
                if len(samples) < 3 and len(ops) <= 24:
                    samples.append({'served': served, 'ops': ops,
                                    'observed_threading': [repr(x[0]) for x in run_real('threading', served, ops)]})
    finally:
        drv.close()
    run_active(ctx)
    # an emit to a group while the transport write to one member fails (asyncio scheduler kernel, oracle only)
    from .. import sched_async
    sched_async.run_emit_failure_schedules(ctx)
    ctx.coverage.update({
        'evaluations': evals, 'distinct_nontrivial': len(nontrivial),
        'rule': 'one evaluation = one generated history (5-60 operations over 1-6 transports and 1-3 served '
                'namespaces) executed on socketio.Server+Manager, on socketio.AsyncServer+AsyncManager, on the '
                'Lean model and on the oracle, every operation compared. non-trivial = distinct history with '
                '>= 1 emit addressed to a room that at that moment has >= 2 members while >= 1 other client is '
                'connected to the namespace without being a member',
        'samples': samples, 'traces_validated_against_impl': validated,
    })
    ctx.assumptions += [
        'the personal room is a room entered at connect: leave_room(sid, sid) / close_room(sid) take the '
        'client out of it like out of any other room (DESIGN §5 C03)',
        'emit is called without a callback (acknowledged emits: C06)',
        'empty-list / falsy targets are not generated; enter_room of a session that is not connected to the '
        'namespace only as the last operation of a history, or anywhere when nobody has ever connected to '
        'that namespace (exception class compared, nothing else)',
        'room names: strings, strings equal to session ids, one integer; no tuple/list room names',
        'API called from inside handlers: while its disconnect handler runs a session still counts as a member of what it '
        'entered and has not left (BaseManager.pre_disconnect: "the client data structures [are] present while the '
        'disconnect handler is invoked"); how often an emit issued at that moment reaches the ENDING session itself is '
        'only bounded from above; the order in which the sessions of one lost transport are ended is taken from the run',
    ]


def replay(ctx, r):
    r = r.get('replay', r)
    if r.get('kernel') == 'active_handlers':
        return replay_active(ctx, r)
    if r.get('kernel') == 'sched_emit_failure':
        from .. import sched_async
        return sched_async.replay_emit_failure(ctx, r)
    served, ops = r['served'], r['ops']
    families = [r['family']] if r.get('family') else ['threading', 'asyncio']
    drv = C.Driver('rooms')
    rc = 0
    try:
        model = run_model(drv, served, ops)
        want, _ = run_oracle(served, ops)
        for family in families:
            real = run_real(family, served, ops)
            print('--- %s' % family)
            for i, op in enumerate(ops):
                print('%3d %s\n      impl     %r%s\n      model    %r\n      required %r' % (
                    i, json.dumps(op), real[i][0], ('  STRAY %r' % (real[i][1],)) if real[i][1] else '',
                    model[i][0], want[i]))
            obad = oracle_failures(served, ops, real)
            cbad = correspondence_failures(ops, real, model)
            print('oracle: %s' % ('FAILS: ' + '; '.join(b[1] for b in obad) if obad else 'holds'))
            print('correspondence: %s' % ('DIFFERS: ' + '; '.join(b[1] for b in cbad) if cbad else 'agrees'))
            if obad or cbad:
                rc = 1
    finally:
        drv.close()
    return rc
