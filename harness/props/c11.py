"""C11 — no residual server state once a client is gone (K4 + a model-free object-graph probe; and, on the real
AsyncServer under the controlled scheduler, emits in flight while a member's transport is lost:
harness/sched_async.py `run_residue_schedules`)."""
import gc

from .. import common as C
from .. import server_sim as S
from .. import server_gen as SG
from .. import pycodec

LEVEL = 'proof'

PROFILE = {
    'weights': {'open': 3, 'connect': 8, 'client_disconnect': 2, 'event': 6, 'ack': 2, 'emit': 2, 'emit_cb': 5,
                'api_disconnect': 2, 'enter': 3, 'leave': 1, 'close': 1, 'rooms': 0, 'lost': 4,
                'partial_binary': 4, 'session': 2, 'hostile': 3},
    'connect_outcomes': {'accept': 5, 'false': 1, 'refuse': 2, 'raise': 2},
    'event_raise': 0.2, 'disconnect_raise': 0.25,
    'cancel_p': 0.5,             # coroutine handlers: half of the accept / return None / handled outcomes end with CancelledError
    'no_sid_rooms': True,        # the model-free probe searches the object graph for the departed ids as strings
}

HOSTILE = ['', 'x', '9', '4"err"', '2', '2[]', '2{"a":1}', '3', '31', '51-["msg",{"_placeholder":true,"num":5}]',
           '59999999999-["msg"]', '2/nope,["msg"]', '0/nope,', '1/nope,', '5', '6', '61-/a,1[]', '2["msg"',
           '42["msg"]', '2' + '1' * 101 + '["msg"]']


def gen_hook(sc, cfg):
    def g_hostile():
        if not sc.open:
            return None
        t = sc.rng.choice(sc.open)
        r = sc.rng.random()
        if r < 0.7:
            return {'op': 'frame', 't': t, 'text': sc.rng.choice(HOSTILE) or '2', '_hostile': True}
        return {'op': 'frameval', 't': t, 'v': sc.rng.choice([b'', b'\x00\x01', b'1', b'0', b'5', 1, True, 5, 0, None])}
    sc.g_hostile = g_hostile


def probe_pre(runner, op):
    if op['op'] == 'lost':
        return set(runner.sids_of(op['t']))
    return None


def probe_post(runner, op, pre):
    if op['op'] == 'lost':
        return runner.mentions(op['t'], pre or ())
    return None


def oracle(cfg, trace, residue):
    fails = []
    for op, im, _ in trace:
        if op['op'] == 'lost' and im.get('probe'):
            fails.append((None, 'after the loss of %s the server still refers to it in %s%s' % (
                op['t'], im['probe'],
                ' (a coroutine handler ended with asyncio.CancelledError)' if im.get('handler_cancelled') else '')))
        if im.get('escaped'):
            # whatever a handler does, the clean-up must run to its end: nothing may abort the server's engine.io
            # callback (the harness caught it and went on, so that the probes above still ran)
            fails.append((None, 'an exception that is not an Exception escaped from the server\'s engine.io callback / '
                                'API during %r: %s' % (S._brief(op), ', '.join(im['escaped']))))
    open_t = set()
    for op, im, _ in trace:
        if op['op'] == 'open':
            open_t.add(op['t'])
        elif op['op'] == 'lost':
            open_t.discard(op['t'])
        elif op['op'] == 'call':
            for o in op['during']:
                if o['op'] == 'lost' and im['exc'] != 'RuntimeError':
                    open_t.discard(o['t'])
    if not open_t and any(residue.values()):
        fails.append((None, 'all clients are gone but the server keeps %r' % ({k: v for k, v in residue.items() if v},)))
    return fails


def nontrivial(cfg, trace):
    kinds = set()
    for op, im, _ in trace:
        if im.get('handler_raised'):
            kinds.add('raise')
        if im.get('handler_cancelled'):
            kinds.add('raise')
            if op['op'] == 'lost':
                _CTX[0].count('losses_with_cancelled_disconnect_handler')
        if op['op'] == 'emit' and op.get('cb') is not None and im['sends']:
            kinds.add('cb')
        if op.get('_hostile') or op['op'] == 'frameval':
            kinds.add('odd')
    part = any(o['op'] == 'frame' and o['text'][:1] in '56' for o, _, _ in trace)
    if len(kinds) >= 2 and part:
        return hash(repr([o for o, _, _ in trace]))
    return None


# ---------------------------------------------------------------- model-free probe

def graph_size(root, limit=200000):
    """number of container slots reachable from the server object (dicts, lists, sets, tuples,
    bidicts, and attributes of socketio/engineio objects); names no attribute"""
    seen = set()
    stack = [root]
    n = 0
    while stack and n < limit:
        o = stack.pop()
        if id(o) in seen:
            continue
        seen.add(id(o))
        if isinstance(o, dict):
            n += len(o)
            stack.extend(o.keys())
            stack.extend(o.values())
        elif isinstance(o, (list, tuple, set, frozenset)):
            n += len(o)
            stack.extend(o)
        else:
            mod = getattr(type(o), '__module__', '') or ''
            if mod.split('.')[0] in ('socketio', 'engineio', 'bidict') and hasattr(o, '__dict__'):
                if type(o).__name__ in ('Socket', 'AsyncSocket') and getattr(o, 'closed', False):
                    continue
                stack.append(vars(o))
            elif hasattr(o, '_fwdm'):
                stack.append(o._fwdm)
    return n


def come_and_go(mode, n):
    """n clients connect to two namespaces, join a room, send an event with an unanswered callback
    pending and a half binary packet, then their transport ends; -> graph size afterwards"""
    cfg = S.default_cfg()
    cfg['served'] = ['/', '/a']
    cfg['fn'] = [['/', 'connect'], ['/', 'disconnect'], ['/', 'msg'], ['/a', 'msg']]
    r = S.Runner(mode, cfg)
    try:
        base = None
        for i in range(n):
            t = 'C%d' % i
            r.do({'op': 'open', 't': t})
            r.do({'op': 'frame', 't': t, 'text': '0'})
            r.do({'op': 'frame', 't': t, 'text': '0/a,'})
            sid = [v for k, v in r.connected().items() if k == (t, '/')][0]
            r.do({'op': 'enter', 'sid': sid, 'ns': '/', 'room': 'lobby'})
            r.do({'op': 'frame', 't': t, 'text': '23["msg",1]'})
            r.do({'op': 'emit', 'ev': 'q', 'data': None, 'ns': '/', 'to': {'one': sid}, 'skip': [], 'cb': i})
            r.do({'op': 'save_session', 'sid': sid, 'ns': '/', 'v': {'u': i}})
            r.do({'op': 'frame', 't': t, 'text': '52-["msg",{"_placeholder":true,"num":0},{"_placeholder":true,"num":1}]'})
            r.do({'op': 'frameval', 't': t, 'v': b'half'})
            r.do({'op': 'lost', 't': t, 'reason': 'transport close'})
            # engine.io drops a closed socket from its table on the next lookup
            try:
                r.w.eio._get_socket(t)
            except KeyError:
                pass
            r.w.socks.pop(t, None)
            r.names = S.SidNames()
            r.generated.clear()
        gc.collect()
        return graph_size(r.sio), r.residue()
    finally:
        r.close()


_CTX = [None]


def run(ctx):
    _CTX[0] = ctx
    C.proof_step(ctx, ['the object-graph probe stands for "memory reachable from the server" (allocator not modelled)'])
    S.run_cases(ctx, PROFILE, ctx.scale(150, 3000), 50, oracle=oracle, nontrivial=nontrivial, final_lose_all=True,
                gen_hook=gen_hook, probe_pre=probe_pre, probe_post=probe_post)
    # model-free growth probe
    sizes = {}
    for mode in ('threading', 'asyncio'):
        for n in ([1, 10, 100] if not ctx.thorough else [1, 10, 100, 1000]):
            size, res = come_and_go(mode, n)
            sizes['%s/%d' % (mode, n)] = size
            if any(res.values()):
                ctx.violation('oracle', 'after %d come-and-go clients (%s) the server keeps %r' % (n, mode, res),
                              {'mode': mode, 'clients': n, 'residue': res})
        base = sizes['%s/1' % mode]
        for k, v in sizes.items():
            if k.startswith(mode) and v != base:
                ctx.violation('oracle', 'object graph reachable from the server grows with the number of clients that have '
                              'come and gone: %r' % (sizes,), {'sizes': sizes})
                break
    ctx.coverage['graph_sizes'] = sizes
    # state created for a client AFTER its clean-up ran, by an operation that was in flight: emits racing the loss of a
    # member's transport on the real AsyncServer, every release order; same object-graph walk, at quiescence
    from .. import sched_async
    sched_async.run_residue_schedules(ctx)
    ctx.coverage['rule'] = ('client histories (connects to several namespaces, rooms, events, unanswered callbacks, refused '
                            'connections, partial binary packets, malformed packets, sessions) with any handler raising at any '
                            'invocation -- HandlerError, or asyncio.CancelledError out of a coroutine handler (out of an await on a '
                            'cancelled future, or raised directly; function and class-based handlers) --, ended by transport loss '
                            'at any point; after every loss the real server is searched for '
                            'references to the transport or its session ids, and after the last one compared with empty; plus a '
                            'model-free walk of the object graph after 1/10/100(/1000) come-and-go clients. non-trivial = history '
                            'with a partial binary packet and >=2 of {raising handler, unanswered callback, malformed frame}')


def replay(ctx, r):
    if isinstance(r.get('replay'), dict) and r['replay'].get('kernel') == 'sched_residue':
        from .. import sched_async
        return sched_async.replay_residue(ctx, r['replay'])
    S.PROBES['pre'], S.PROBES['post'] = probe_pre, probe_post
    return S.replay_case(ctx, r, oracle=oracle)
