"""C18 — admin instrumentation: gated by credentials, invisible to the application (K10 on K4/K8).

(a) the gate: the REAL `admin_connect` of `InstrumentedServer` / `InstrumentedAsyncServer`, driven
    through the real protocol (`0/admin,<json>` on an in-memory transport), on generated payloads
    against generated credential configurations; accept/refuse is compared with the Lean model
    (`adminConnect` / `admits`, driver `sd_admin`) and with the statement itself (the oracle);
    after a refusal the manager holds no entry for the client.  Python's `==` is compared with the
    model's `pyEq` on generated value pairs, the registry `instrument()` produces with `registered`.
(b) transparency, by translation validation: two REAL servers side by side, one instrumented and
    one plain, run the same generated application scenario (the C04 / C05 / C06 generators); the
    application-side observations must be equal op by op, with and without admin clients, for
    modes x read_only x Server/AsyncServer; admin `emit/join/leave/_disconnect` requests injected
    where no mutator is registered must change nothing.
(c) the tie of theorem `C18.wrappers_transparent_partial`: on the same side-by-side scenarios the Lean
    model of the instrumented server (`Sio.Admin.Instrumented.step`: `Server.step` on the instrumented
    registry + the wrappers' reports, driver `sd_admin`, ops `inst_cfg` / `inst_step`) is run on the
    very history the real instrumented server was given — admin transports included — and its
    application projection (`appView`: packets per application transport, handler invocations,
    callbacks, API results; finally the rooms of `appState`) is compared with what the application side
    of the REAL instrumented server observed.  The content of the reports is not compared.
(d) transparency at the HTTP level (`run_http`, oracle only): parts (b) and (c) talk to `engineio.socket.Socket`
    objects, below engine.io's HTTP layer, which the instrumentation wraps too (`eio._ok`, `Socket.handle_post_request`,
    `_send_ping`, the websocket handler).  `world_http` enters the real servers through `handle_request` (WSGI / ASGI,
    no network): the same request script — XHR, JSONP and b64 polling clients, on the asyncio server also websocket
    clients — is played on a plain server and on instrumented ones, and status, headers and body of every response to
    an application client, the frames on its websocket, handler invocations, rooms and live sessions must be equal.
"""
import copy
import json
import math
import re

from .. import common as C
from .. import gen as G
from .. import pycodec
from .. import server_sim as S
from .. import server_gen as SG
from ..world import ServerWorld
from . import c04, c05, c06

LEVEL = 'proof'

ADMIN_NS = '/admin'
MUTATORS = ['emit', 'join', 'leave', '_disconnect']
KNOWN_FALSY = 'C18/falsy-auth-presented-as-None'
ABSENT = ('absent',)          # marker: CONNECT packet without a payload


# ====================================================================== instrumented worlds

def _stub_sleep(w):
    """`config()` sleeps 0.1 s and the stats task sleeps `server_stats_interval`: no wall clock here."""
    if w.is_async:
        async def _sleep(seconds=0):
            return None
    else:
        def _sleep(seconds=0):
            return None
    w.sio.sleep = _sleep


def _park_stats(w, parked):
    """The stats task loops until shutdown: it is parked instead of queued (one iteration can be
    run explicitly, see `run_stats_once`)."""
    orig = w.sio.start_background_task

    def bg(target, *a, **k):
        if getattr(target, '__name__', '') == '_emit_server_stats':
            parked.append(target)
            if w.is_async:
                fut = w.loop.create_future()
                fut.set_result(None)
                return fut

            class _T:
                def join(self, timeout=None):
                    return None
            return _T()
        return orig(target, *a, **k)
    w.sio.start_background_task = bg


def instrument_world(w, parked, **opts):
    _stub_sleep(w)
    _park_stats(w, parked)
    opts.setdefault('server_stats_interval', 0.0001)
    return w.sio.instrument(**opts)


def shutdown_instrumentation(w, inst):
    """shutdown() + uninstrument(); the class-level patches of engineio's Socket are process-global"""
    try:
        if inst is not None:
            r = inst.shutdown()
            if hasattr(r, '__await__'):
                w.loop.run_until_complete(r)
    finally:
        if inst is not None:
            inst.uninstrument()


def run_stats_once(w, inst, parked):
    """one iteration of `_emit_server_stats` (the sleep sets the stop event)"""
    if not parked or inst.stop_stats_event is None:
        return False
    if w.is_async:
        async def _sleep(seconds=0):
            inst.stop_stats_event.set()
    else:
        def _sleep(seconds=0):
            inst.stop_stats_event.set()
    w.sio.sleep = _sleep
    try:
        r = parked[0]()
        if hasattr(r, '__await__'):
            w.loop.run_until_complete(r)
    finally:
        _stub_sleep(w)
    return True


# ====================================================================== (a) the gate

# ---- predicates: data for the driver, a Python callable for the real server

def pred_py(spec):
    """Python function of the predicate spec (returns what a user predicate would: not always a bool)"""
    if spec == 'isNull':
        return lambda a: a is None
    if spec == 'truthy':
        return lambda a: a
    if 'const' in spec:
        return lambda a: spec['const']
    if 'eq' in spec:
        return lambda a: a == spec['eq']
    if 'hasKey' in spec:
        k, v = spec['hasKey']
        return lambda a: isinstance(a, dict) and a.get(k) == v
    if 'getKey' in spec:
        k = spec['getKey']
        return lambda a: isinstance(a, dict) and a.get(k)
    if 'not' in spec:
        f = pred_py(spec['not'])
        return lambda a: not f(a)
    if 'or' in spec:
        f, g = pred_py(spec['or'][0]), pred_py(spec['or'][1])
        return lambda a: f(a) or g(a)
    raise ValueError(spec)


def pred_wire(spec):
    if isinstance(spec, str):
        return spec
    if 'const' in spec:
        return {'const': bool(spec['const'])}
    if 'eq' in spec:
        return {'eq': C.j2w(spec['eq'])}
    if 'hasKey' in spec:
        return {'hasKey': [C.s2w(spec['hasKey'][0]), C.j2w(spec['hasKey'][1])]}
    if 'getKey' in spec:
        return {'getKey': C.s2w(spec['getKey'])}
    if 'not' in spec:
        return {'not': pred_wire(spec['not'])}
    if 'or' in spec:
        return {'or': [pred_wire(spec['or'][0]), pred_wire(spec['or'][1])]}
    raise ValueError(spec)


def auth_wire(auth):
    if auth['kind'] == 'missing':
        return {'missing': True}
    if auth['kind'] == 'pred':
        return {'pred': pred_wire(auth['pred'])}
    return {'val': C.j2w(auth['val'])}


CRED_POOL = [
    {'username': 'admin', 'password': 's3cret'},
    {'token': 123},
    {'user': {'name': 'root', 'roles': [1, 2]}, 'otp': 1},
    {'k': True},
    {'a': 1.0, 'b': None},
    {'n': 10 ** 22},
    {'n': 10 ** 23, 'm': 0},
    {'pin': '0000', 'flags': [True, False, None], 'lvl': 0},
    {'é': 'ü', 'x y': ''},
]


def gen_creds(rng):
    if rng.random() < 0.75:
        return copy.deepcopy(rng.choice(CRED_POOL))
    while True:
        d = G.gen_value(rng, 2, 0.0)
        if isinstance(d, dict) and d and _wireable(d):
            return d


def _wireable(v):
    try:
        C.j2w(v)
        json.dumps(v)
        return True
    except (C.Unrepresentable, TypeError, ValueError):
        return False


def gen_auth(rng):
    """-> auth description {'kind': 'val'|'pred', ...} + the credential sets a client may aim at"""
    r = rng.random()
    if r < 0.34:
        d = gen_creds(rng)
        return {'kind': 'val', 'val': d}, [d]
    if r < 0.62:
        ds = [gen_creds(rng) for _ in range(rng.randint(1, 3))]
        return {'kind': 'val', 'val': ds}, ds
    if r < 0.90:
        d = gen_creds(rng)
        k = rng.choice(list(d))
        spec = rng.choice([
            {'eq': d}, {'hasKey': [k, d[k]]}, {'getKey': k}, 'isNull', 'truthy', {'const': False},
            {'or': ['isNull', {'eq': d}]}, {'not': {'hasKey': [k, d[k]]}}, {'not': 'truthy'},
            {'or': [{'eq': d}, {'eq': 0}]}, {'const': True},
        ])
        return {'kind': 'pred', 'pred': spec, 'coro': rng.random() < 0.5}, [d]
    return {'kind': 'val', 'val': rng.choice([False, False, {}, [], 0, ''])}, [gen_creds(rng)]


CONFUSE = {
    # value -> values that are easily confused with it
    'true': [1, 1.0, '1', 'true', 'True', [True]],
    'false': [0, 0.0, '', None, 'false', []],
}


def confuse(rng, v):
    """a type-confused variant of one value"""
    if v is True:
        return rng.choice(CONFUSE['true'])
    if v is False:
        return rng.choice(CONFUSE['false'])
    if v is None:
        return rng.choice([0, False, '', 'null', 'None', [], {}])
    if isinstance(v, int):
        c = [str(v), float(v) if abs(v) < 10 ** 300 else 0.5, [v], v + 1, {'$ne': None}, {'$gt': ''}]
        if v in (0, 1):
            c.append(bool(v))
        return rng.choice(c)
    if isinstance(v, float):
        c = [repr(v), [v], v + 0.5]
        if v == int(v):
            c += [int(v), int(v), bool(v) if v in (0.0, 1.0) else int(v)]
        return rng.choice(c)
    if isinstance(v, str):
        c = [[v], v + ' ', v.upper() if v.upper() != v else v.lower(), {'$ne': None}, v.encode().hex(), None]
        if v.isascii() and v.isdigit():
            c.append(int(v))
        return rng.choice(c)
    if isinstance(v, list):
        c = [list(reversed(v)), v + [None], v[:-1], {str(i): x for i, x in enumerate(v)}, tuple_as_str(v)]
        if v:
            w = list(v)
            i = rng.randrange(len(w))
            w[i] = confuse(rng, w[i])
            c += [w, w]
        return rng.choice(c)
    if isinstance(v, dict):
        return variant_of_dict(rng, v)
    return None


def tuple_as_str(v):
    return json.dumps(v, default=repr)


def variant_of_dict(rng, d):
    d = copy.deepcopy(d)
    keys = list(d)
    r = rng.random()
    if r < 0.2 and keys:
        del d[rng.choice(keys)]                           # subset
        return d
    if r < 0.4:
        d[rng.choice(['admin', 'extra', 'username ', '__proto__', 'x'])] = rng.choice([True, None, 1, 'x'])   # superset
        return d
    if r < 0.5 and keys:
        k = rng.choice(keys)                              # renamed key
        d[rng.choice([k + ' ', k.upper() if k.upper() != k else k + '_', ' ' + k])] = d.pop(k)
        return d
    if keys:
        k = rng.choice(keys)
        d[k] = confuse(rng, d[k])                         # one value confused (recursively)
    return d


def permute(rng, d):
    items = list(d.items())
    rng.shuffle(items)
    return {k: (permute(rng, v) if isinstance(v, dict) else v) for k, v in items}


def gen_payload(rng, targets):
    """-> (label, payload or ABSENT, raw json text or None)"""
    d = rng.choice(targets)
    r = rng.random()
    if r < 0.07:
        return 'absent', ABSENT, None
    if r < 0.12:
        return 'none', None, None
    if r < 0.24:
        return 'nondict', rng.choice([0, 1, True, False, '', 'admin', [], [d], list(d), [list(kv) for kv in d.items()],
                                      1.5, json.dumps(d), -1, {}, [[]], 10 ** 30]), None
    if r < 0.36:
        return 'exact', copy.deepcopy(d), None
    if r < 0.48:
        return 'permuted', permute(rng, d), None
    if r < 0.56:
        p = copy.deepcopy(d)
        if p:
            del p[rng.choice(list(p))]
        return 'subset', p, None
    if r < 0.64:
        p = permute(rng, d)
        p[rng.choice(['admin', 'extra', 'is_admin', 'x'])] = rng.choice([True, None, 1, 'x', d])
        return 'superset', p, None
    if r < 0.80:
        return 'confused', variant_of_dict(rng, d), None
    if r < 0.86:
        return 'nested', rng.choice([{'auth': d}, [d], {'0': d}, {k: {'value': v} for k, v in d.items()},
                                     {k: [v] for k, v in d.items()}]), None
    if r < 0.91:
        # numerically equal but differently typed everywhere (True == 1 == 1.0)
        return 'numeric-twin', numeric_twin(rng, d), None
    if r < 0.95:
        # duplicate keys in the JSON text: the decoder keeps the last one
        k = rng.choice(list(d))
        raw = json.dumps(d)
        dup = '{' + json.dumps(k) + ':' + json.dumps(confuse(rng, d[k]), default=str) + ',' + raw[1:]
        return 'dupkeys', json.loads(dup), dup
    return 'random', G.gen_value(rng, 2, 0.0), None


def numeric_twin(rng, v):
    if isinstance(v, bool):
        return rng.choice([int(v), float(v), v])
    if isinstance(v, int):
        c = [v]
        if v in (0, 1):
            c.append(bool(v))
        try:
            if int(float(v)) == v or rng.random() < 0.5:
                c.append(float(v))
        except OverflowError:
            pass
        return rng.choice(c)
    if isinstance(v, float) and not math.isnan(v) and not math.isinf(v) and v == int(v):
        return rng.choice([int(v), v])
    if isinstance(v, list):
        return [numeric_twin(rng, x) for x in v]
    if isinstance(v, dict):
        return {k: numeric_twin(rng, x) for k, x in v.items()}
    return v


def statement(auth, payload):
    """The property's first sentence, evaluated with Python's own `==` on the PRESENTED payload:
    accepted iff authentication was explicitly disabled, or the payload equals the credentials, or
    is one of the credential sets, or satisfies the predicate."""
    presented = None if payload is ABSENT else payload
    if auth['kind'] == 'pred':
        return bool(pred_py(auth['pred'])(presented))
    v = auth['val']
    if not v:
        return True                    # explicitly disabled
    if payload is ABSENT:
        return False
    if isinstance(v, dict):
        return presented == v
    return any(presented == c for c in v)


def presented(payload, raw):
    """What the client actually presents with this frame, by the independent codec: a bare
    non-negative integer after the namespace is the packet *id* (no payload at all), a bare float
    is not a packet (C01's numeric-payload boundary).  -> (label suffix, payload, raw) or None"""
    frame = connect_frame(payload, raw)
    try:
        dec = pycodec.decode_text(frame)
    except Exception:   # noqa
        return None
    if dec['type'] != 0 or dec['ns'] != ADMIN_NS:
        return None
    if payload is ABSENT:
        return '', ABSENT, None
    text = raw if raw is not None else json.dumps(payload)
    if dec['id'] is not None:
        return '>id', (ABSENT if dec['data'] is None else dec['data']), text
    return '', payload, text


def connect_frame(payload, raw):
    if payload is ABSENT:
        return '0' + ADMIN_NS + ','
    return '0' + ADMIN_NS + ',' + (raw if raw is not None else json.dumps(payload))


def mentions_of(w, tid):
    out = []
    m = w.sio.manager
    for ns, rooms in m.rooms.items():
        for room, bd in rooms.items():
            for sid, eio in bd.items():
                if eio == tid:
                    out.append('rooms[%s][%s]' % (ns, room))
    return out


class GateServer:
    """One real instrumented server for one auth configuration; many connection attempts."""

    def __init__(self, family, auth, mode, read_only, always_connect):
        self.family = family
        self.auth = auth
        self.w = ServerWorld(family, always_connect=always_connect)
        self.parked = []
        self.pred_args = []
        self.inst = None
        if auth['kind'] == 'pred':
            f = pred_py(auth['pred'])
            if auth.get('coro') and self.w.is_async:
                async def p(a):
                    self.pred_args.append(copy.deepcopy(a))
                    return f(a)
            else:
                def p(a):
                    self.pred_args.append(copy.deepcopy(a))
                    return f(a)
            real = p
        else:
            real = copy.deepcopy(auth['val'])
        self.inst = instrument_world(self.w, self.parked, auth=real, mode=mode, read_only=read_only)
        self.n = 0

    def attempt(self, payload, raw):
        self.n += 1
        tid = 'A%d' % self.n
        w = self.w
        w.open(tid)
        self.pred_args.clear()
        res, contained = w.recv(tid, connect_frame(payload, raw))
        pkts = pycodec.decode_stream([f for f in w.sent(tid) if isinstance(f, str)])
        mine = [p for p in pkts if p['type'] in (0, 1, 4) and p['ns'] == ADMIN_NS]
        kinds = [p['type'] for p in mine]
        if res[0] == 'exc' or contained:
            verdict = 'raised'
        elif kinds == [0]:
            verdict = 'accepted'
        elif kinds == [4] or kinds == [0, 1]:
            verdict = 'refused'
        else:
            verdict = 'odd:%r' % (kinds,)
        reason = mine[-1]['data'] if mine and mine[-1]['type'] in (1, 4) else None
        member = mentions_of(w, tid)
        args = list(self.pred_args)
        w.lose(tid)
        leftover = mentions_of(w, tid)
        w.background.clear()
        del w.socks[tid]
        return {'verdict': verdict, 'member': member, 'reason': reason, 'pred_args': args, 'leftover': leftover}

    def close(self):
        try:
            shutdown_instrumentation(self.w, self.inst)
        finally:
            self.w.close()


def gate_case(family, auth, mode, read_only, always_connect, payloads):
    """-> list of observations for the payloads [(label, payload, raw)]"""
    g = GateServer(family, auth, mode, read_only, always_connect)
    try:
        return [g.attempt(p, raw) for _l, p, raw in payloads]
    finally:
        g.close()


def judge_gate(ctx, case, obs_list, answers):
    """oracle + correspondence for one gate case; returns number of failures reported"""
    auth = case['auth']
    bad = 0
    for (label, payload, raw), ob, ans in zip(case['payloads'], obs_list, answers):
        want = statement(auth, payload)
        model = ans['connect']
        got = ob['verdict']
        replay = {'part': 'gate', 'family': case['family'], 'auth': auth, 'mode': case['mode'],
                  'read_only': case['read_only'], 'always_connect': case['always_connect'],
                  'payloads': [[label, 'ABSENT' if payload is ABSENT else payload, raw]],
                  'observed': ob, 'statement_says': want, 'model_says': model}
        ctx.count('gate.%s.%s' % (_auth_kind(auth), label))
        in_known = False
        if got == 'raised' and not ob['member'] and not _real_decoder_accepts(connect_frame(payload, raw)):
            # not a packet for the server's decoder (engineio.json: integers of more than 100 digits):
            # nothing was presented, nothing happened
            ctx.count('gate.rejected_by_decoder')
            continue
        if got not in ('accepted', 'refused'):
            ctx.violation('oracle', 'admin CONNECT was neither accepted nor refused (%s) for payload %r against %r'
                          % (got, payload, _auth_brief(auth)), replay)
            bad += 1
            continue
        if (got == 'accepted') != want:
            presented = None if payload is ABSENT else payload
            if (auth['kind'] == 'pred' and payload is not ABSENT and presented is not None and not presented
                    and bool(pred_py(auth['pred'])(None)) == (got == 'accepted')):
                in_known = True
                ctx.known(KNOWN_FALSY, 'predicate %r: payload %r presented, predicate(%r)=%r, connection %s '
                          '(the handler was given %r)' % (auth['pred'], presented, presented, want, got,
                                                          ob['pred_args']))
            else:
                ctx.violation('oracle', 'admin CONNECT %s although the statement says %s: auth=%r payload=%r'
                              % (got, 'accept' if want else 'refuse', _auth_brief(auth), payload), replay)
                bad += 1
        if got == 'refused':
            if ob['member']:
                ctx.violation('oracle', 'refused admin client is still a member: %r (auth=%r payload=%r)'
                              % (ob['member'], _auth_brief(auth), payload), replay)
                bad += 1
            if ob['reason'] != {'message': 'authentication failed'}:
                ctx.violation('correspondence', 'refusal reason %r' % (ob['reason'],), replay, no_input=True)
                bad += 1
        if got == 'accepted' and not any(m == 'rooms[%s][None]' % ADMIN_NS for m in ob['member']):
            ctx.violation('correspondence', 'accepted admin client is not in the admin namespace: %r' % (ob['member'],),
                          replay, no_input=True)
            bad += 1
        if ob['leftover']:
            ctx.violation('oracle', 'admin client still referenced after its transport closed: %r' % (ob['leftover'],), replay)
            bad += 1
        if in_known:
            continue          # the model follows today's code; not enforced inside the listed region
        if not isinstance(model, bool) or (got == 'accepted') != model or ans['admits'] != model or ans['spec'] != model:
            ctx.violation('correspondence', 'implementation %s, model adminConnect=%r admits=%r spec=%r: auth=%r payload=%r'
                          % (got, model, ans['admits'], ans['spec'], _auth_brief(auth), payload), replay,
                          no_input=(bad == 0))
            bad += 1
        if auth['kind'] == 'pred' and ob['pred_args']:
            if len(ob['pred_args']) != 1 or not C.same(ob['pred_args'][0], C.w2j(ans['arg'])):
                ctx.violation('correspondence', 'predicate was given %r, model `present` says %r'
                              % (ob['pred_args'], C.w2j(ans['arg'])), replay, no_input=True)
                bad += 1
    return bad


def _real_decoder_accepts(frame):
    from socketio import packet as sp
    try:
        sp.Packet(encoded_packet=frame)
        return True
    except Exception:   # noqa
        return False


def _auth_kind(auth):
    if auth['kind'] == 'pred':
        return 'pred-coro' if auth.get('coro') else 'pred'
    v = auth['val']
    if not v:
        return 'disabled'
    return 'dict' if isinstance(v, dict) else 'list'


def _auth_brief(auth):
    return auth['pred'] if auth['kind'] == 'pred' else auth['val']


def model_gate(case):
    ops = []
    for _label, payload, _raw in case['payloads']:
        ops.append({'op': 'admits', 'auth': auth_wire(case['auth']),
                    'payload': C.oj2w(None, present=False) if payload is ABSENT else C.oj2w(payload)})
    return C.batch('admin', ops)


def run_gate(ctx, ncfg, npay):
    rng = ctx.rng
    evals = 0
    nontriv = set()
    samples = []
    for ci in range(ncfg):
        auth, targets = gen_auth(rng)
        family = ('threading', 'asyncio')[ci % 2]
        fixed = []
        if ci < 2:
            # corpus: the boundary recorded as KNOWN_FALSY, every run, both families
            auth, targets = {'kind': 'pred', 'pred': 'isNull', 'coro': ci == 1}, [{'k': True}]
            fixed = [('falsy', v, None) for v in ({}, '', [], False)]
        if auth['kind'] == 'pred' and auth.get('coro'):
            family = 'asyncio'
        payloads = list(fixed)
        while len(payloads) < npay:
            label, p, raw = gen_payload(rng, targets)
            if p is not ABSENT and not _wireable(p):
                continue
            pres = presented(p, raw)
            if pres is None:
                ctx.count('gate.unpresentable')
                continue
            payloads.append((label + pres[0], pres[1], pres[2]))
        # always: the exact credentials, nothing, None
        payloads += [('exact', copy.deepcopy(targets[-1]), None), ('absent', ABSENT, None), ('none', None, None)]
        case = {'family': family, 'auth': auth, 'mode': rng.choice(['development', 'production']),
                'read_only': rng.random() < 0.5, 'always_connect': rng.random() < 0.3, 'payloads': payloads}
        obs = gate_case(family, auth, case['mode'], case['read_only'], case['always_connect'], payloads)
        ans = model_gate(case)
        judge_gate(ctx, case, obs, ans)
        evals += len(payloads)
        acc = sum(1 for o in obs if o['verdict'] == 'accepted')
        if 0 < acc < len(obs):
            nontriv.add((ci, acc))
        if len(samples) < 3:
            samples.append({'family': family, 'auth': repr(_auth_brief(auth))[:120],
                            'payloads': [[l, repr(p)[:80], o['verdict']] for (l, p, _r), o in list(zip(payloads, obs))[:6]]})
        ctx.count('gate.family.' + family)
    return evals, len(nontriv), samples


# ---- attempt sequences: the gate is stateless — EVERY attempt is judged on the payload presented in THAT attempt

def _admin_sid(w, tid):
    try:
        return w.sio.manager.sid_from_eio_sid(tid, ADMIN_NS)
    except Exception:   # noqa
        return None


def _admin_mentions(w, tid):
    return [m for m in mentions_of(w, tid) if m.startswith('rooms[%s]' % ADMIN_NS)]


def gen_sequence(rng, auth, targets, nsteps):
    """steps over 2-3 logical clients of ONE server instance:
    ['attempt', client, label, payload|'ABSENT', raw] | ['leave', c] (client sends 1/admin,) | ['kick', c] (server
    disconnect(sid, namespace=/admin)) | ['app', c] (application-namespace traffic) | ['drop', c] (transport lost; the
    client's next step uses a fresh transport) | ['stats'] (one round of the admin statistics broadcast)"""
    nclients = rng.randint(2, 3)
    steps = []
    good = lambda: ('exact', copy.deepcopy(rng.choice(targets)), None)     # noqa
    while len(steps) < nsteps:
        c = rng.randrange(nclients)
        r = rng.random()
        if r < 0.56:
            if rng.random() < 0.42:
                label, p, raw = good()
            else:
                label, p, raw = gen_payload(rng, targets)
                if p is not ABSENT and not _wireable(p):
                    continue
                if auth['kind'] == 'pred' and p is not ABSENT and p is not None and not p:
                    continue            # KNOWN_FALSY region: exercised (and recorded) by the single-attempt part
                pres = presented(p, raw)
                if pres is None:
                    continue
                label, p, raw = label + pres[0], pres[1], pres[2]
                if auth['kind'] == 'pred' and p is not ABSENT and p is not None and not p:
                    continue
            steps.append(['attempt', c, label, 'ABSENT' if p is ABSENT else p, raw])
        elif r < 0.74:
            steps.append(['leave', c])
        elif r < 0.82:
            steps.append(['kick', c])
        elif r < 0.92:
            steps.append(['app', c])
        elif r < 0.96:
            steps.append(['drop', c])
        else:
            steps.append(['stats'])
    return steps


def execute_sequence(case):
    """-> list of per-step observations (attempt steps: verdict, membership, who received the probe broadcast)"""
    auth = case['auth']
    g = GateServer(case['family'], auth, case['mode'], case['read_only'], case['always_connect'])
    w = g.w
    out = []
    tids, gen_no = {}, {}
    try:
        if w.is_async:
            async def hello(sid, *a):
                return None
        else:
            def hello(sid, *a):
                return None
        w.sio.on('hello', hello)

        def tid_of(c):
            if tids.get(c) is None:
                gen_no[c] = gen_no.get(c, 0) + 1
                tids[c] = 'Q%d_%d' % (c, gen_no[c])
                w.open(tids[c])
                w.sent(tids[c])
            return tids[c]

        def probe(i):
            """a broadcast to the admin namespace after the step: who receives it?"""
            for t in tids.values():
                if t is not None:
                    w.sent(t)
            w.api('emit', 'verif_probe', {'n': i}, namespace=ADMIN_NS)
            got = []
            for c, t in sorted(tids.items()):
                if t is None:
                    continue
                pk = pycodec.decode_stream([f for f in w.sent(t) if isinstance(f, str)])
                if any(p['type'] == 2 and p['ns'] == ADMIN_NS and isinstance(p['data'], list) and p['data'][:1] ==
                       ['verif_probe'] for p in pk):
                    got.append(c)
            return got

        for i, st in enumerate(case['steps']):
            ob = {'step': i, 'kind': st[0]}
            if st[0] == 'stats':
                ob['ran'] = run_stats_once(w, g.inst, g.parked)
            else:
                c = st[1]
                t = tid_of(c)
                ob['tid'] = t
                if st[0] == 'attempt':
                    payload = ABSENT if st[3] == 'ABSENT' else st[3]
                    if _admin_sid(w, t) is not None:
                        w.recv(t, '1' + ADMIN_NS + ',')          # a member asks again only after leaving
                        w.settle()
                        ob['left_first'] = True
                    w.sent(t)
                    g.pred_args.clear()
                    res, contained = w.recv(t, connect_frame(payload, st[4]))
                    pkts = pycodec.decode_stream([f for f in w.sent(t) if isinstance(f, str)])
                    kinds = [p['type'] for p in pkts if p['type'] in (0, 1, 4) and p['ns'] == ADMIN_NS]
                    if res[0] == 'exc' or contained:
                        ob['verdict'] = 'raised'
                    elif kinds == [0]:
                        ob['verdict'] = 'accepted'
                    elif kinds == [4] or kinds == [0, 1]:
                        ob['verdict'] = 'refused'
                    else:
                        ob['verdict'] = 'odd:%r' % (kinds,)
                    ob['pred_calls'] = len(g.pred_args)
                    w.settle()
                    ob['member'] = _admin_mentions(w, t)
                elif st[0] == 'leave':
                    w.recv(t, '1' + ADMIN_NS + ',')
                    w.settle()
                elif st[0] == 'kick':
                    sid = _admin_sid(w, t)
                    if sid is not None:
                        ob['api'] = w.api('disconnect', sid, namespace=ADMIN_NS)[0]
                        w.settle()
                elif st[0] == 'app':
                    w.recv(t, '0')
                    w.recv(t, '2["hello",%d]' % i)
                    w.settle()
                elif st[0] == 'drop':
                    w.lose(t)
                    w.settle()
                    ob['leftover'] = mentions_of(w, t)
                    del w.socks[t]
                    tids[c] = None
            ob['probe_received_by'] = probe(i)
            ob['admin_members'] = sorted(c for c, t in tids.items() if t is not None and _admin_mentions(w, t))
            out.append(ob)
    finally:
        for t in list(w.socks):
            try:
                w.lose(t)
            except Exception:   # noqa
                pass
        w.background.clear()
        g.close()
    return out


def judge_sequence(case, obs):
    """The statement on every attempt of the sequence, history-free. -> (complaints, index of the first bad step)"""
    auth = case['auth']
    entitled = {}                   # client -> its latest attempt is one the statement admits, and it has not left since
    for st, ob in zip(case['steps'], obs):
        i = ob['step']
        if st[0] == 'attempt':
            c = st[1]
            payload = ABSENT if st[3] == 'ABSENT' else st[3]
            want = statement(auth, payload)
            got = ob['verdict']
            hist = [s[:3] if s[0] == 'attempt' else s for s in case['steps'][:i]]
            if got == 'raised' and not ob['member'] and not _real_decoder_accepts(connect_frame(payload, st[4])):
                entitled[c] = False
                continue
            if got not in ('accepted', 'refused'):
                return ['step %d: admin CONNECT of client %d was neither accepted nor refused (%s), payload %r against %r'
                        % (i, c, got, payload, _auth_brief(auth))], i
            if (got == 'accepted') != want:
                return ['step %d: admin CONNECT of client %d (transport %s) %s although the payload presented in this '
                        'attempt, %r, %s the configured %r; earlier steps on this server: %r'
                        % (i, c, ob['tid'], got, None if payload is ABSENT else payload,
                           'satisfies' if want else 'does not satisfy', _auth_brief(auth), hist)], i
            if got == 'refused' and ob['member']:
                return ['step %d: refused admin attempt of client %d left membership %r' % (i, c, ob['member'])], i
            entitled[c] = want
        elif st[0] in ('leave', 'kick', 'drop'):
            entitled[st[1]] = False
        for c in ob['probe_received_by']:
            if not entitled.get(c):
                return ['step %d: client %d receives a broadcast to the admin namespace although its latest attempt was '
                        'refused / it left the namespace / it never asked' % (i, c)], i
        for c in ob['admin_members']:
            if not entitled.get(c):
                return ['step %d: client %d is a member of the admin namespace although its latest attempt was refused / '
                        'it left the namespace / it never asked' % (i, c)], i
        if st[0] == 'drop' and ob.get('leftover'):
            return ['step %d: client %d still referenced after its transport closed: %r' % (i, st[1], ob['leftover'])], i
    return [], None


def run_sequences(ctx, ncases, nsteps):
    rng = ctx.rng
    attempts = reattempts = after_good = probes = fails = 0
    pending = []                    # (case, obs) for the model comparison, one driver batch
    for ci in range(ncases):
        auth, targets = gen_auth(rng)
        if ci % 8 == 7:
            auth = {'kind': 'val', 'val': rng.choice([False, {}, [], 0, ''])}         # authentication disabled
        family = ('threading', 'asyncio')[ci % 2]
        if auth['kind'] == 'pred' and auth.get('coro'):
            family = 'asyncio'
        case = {'part': 'sequence', 'family': family, 'auth': auth, 'mode': rng.choice(['development', 'production']),
                'read_only': rng.random() < 0.5, 'always_connect': rng.random() < 0.3,
                'steps': gen_sequence(rng, auth, targets, rng.randint(max(4, nsteps - 6), nsteps))}
        obs = execute_sequence(case)
        bad, at = judge_sequence(case, obs)
        ctx.count('sequence.family.' + family)
        ctx.count('sequence.auth.' + _auth_kind(auth))
        seen_good, seen_any = set(), set()
        for st, ob in zip(case['steps'], obs):
            ctx.count('sequence.step.' + st[0])
            if st[0] == 'attempt':
                attempts += 1
                payload = ABSENT if st[3] == 'ABSENT' else st[3]
                want = statement(auth, payload)
                ctx.count('sequence.attempt.%s.%s' % ('right' if want else 'wrong', ob.get('verdict')))
                tkey = ob['tid']
                if tkey in seen_any:
                    reattempts += 1
                if not want and (tkey in seen_good):
                    after_good += 1
                    ctx.count('sequence.wrong_payload_on_a_transport_admitted_before')
                if not want and seen_good and tkey not in seen_good:
                    ctx.count('sequence.wrong_payload_after_another_transport_was_admitted')
                seen_any.add(tkey)
                if want:
                    seen_good.add(tkey)
            probes += len(ob['probe_received_by'])
        if bad:
            fails += 1
            if fails <= 5:
                k = at + 1
                ctx.violation('oracle', 'admin gate, attempt sequence on one server: ' + bad[0],
                              dict(case, steps=case['steps'][:k], observed=obs[:k], complaints=bad))
            continue
        pending.append((case, obs))
    # model: the gate of the Lean model has no memory — `adminConnect` on the payload of each attempt
    ops, where = [], []
    for case, obs in pending:
        for st, ob in zip(case['steps'], obs):
            if st[0] == 'attempt' and ob['verdict'] in ('accepted', 'refused'):
                ops.append({'op': 'admits', 'auth': auth_wire(case['auth']),
                            'payload': C.oj2w(None, present=False) if st[3] == 'ABSENT' else C.oj2w(st[3])})
                where.append((case, ob))
    mism = 0
    for (case, ob), ans in zip(where, C.batch('admin', ops) if ops else []):
        m = ans['connect']
        if not isinstance(m, bool) or m != (ob['verdict'] == 'accepted') or ans['admits'] != m:
            mism += 1
            if mism <= 3:
                k = ob['step'] + 1
                ctx.violation('correspondence', 'attempt sequence: implementation %s at step %d, model adminConnect=%r '
                              'admits=%r' % (ob['verdict'], ob['step'], m, ans['admits']),
                              dict(case, steps=case['steps'][:k]), no_input=True)
    ctx.coverage['gate_sequences'] = {
        'sequences': ncases, 'attempts': attempts, 'attempts_on_a_transport_that_asked_before': reattempts,
        'wrong_payload_on_a_transport_admitted_before': after_good, 'probe_broadcast_deliveries': probes,
        'model_answers_compared': len(where), 'oracle_failures': fails, 'model_disagreements': mism,
        'rule': 'one real instrumented Server / AsyncServer per sequence (dict / list / predicate / coroutine predicate / '
                'disabled), 2-3 clients; steps: admin CONNECT with right or wrong payload (a member leaves first), client '
                'DISCONNECT of the admin namespace, disconnect() by the server, application-namespace traffic, transport '
                'loss + fresh transport, one statistics round; after every step a broadcast to the admin namespace. '
                'Every attempt is admitted iff the statement holds for the payload of THAT attempt (and iff the model\'s '
                'adminConnect says so); only clients whose latest attempt was admitted and who have not left are members / '
                'receive the broadcast',
    }
    return attempts


def replay_sequence(case):
    obs = execute_sequence(case)
    for st, ob in zip(case['steps'], obs):
        extra = ''
        if st[0] == 'attempt':
            payload = ABSENT if st[3] == 'ABSENT' else st[3]
            extra = ' payload=%r -> implementation %s, statement says %s, member=%r' % (
                None if payload is ABSENT else payload, ob['verdict'],
                'accept' if statement(case['auth'], payload) else 'refuse', ob['member'])
        print('step %d: %s%s; admin broadcast received by clients %r' % (ob['step'], st[:2], extra,
                                                                        ob['probe_received_by']))
    bad, _at = judge_sequence(case, obs)
    print('auth configured: %r' % (_auth_brief(case['auth']),))
    print('verdict: %s' % ('property violated on the implementation: ' + bad[0] if bad else 'every attempt judged on its '
                                                                                        'own payload'))
    return 1 if bad else 0


def run_constructor(ctx):
    """`auth=None` (the default) is refused by both constructors; model: `configure .missing`"""
    ans = C.batch('admin', [{'op': 'admits', 'auth': {'missing': True}, 'payload': C.oj2w(None, present=False)}])[0]
    for family in ('threading', 'asyncio'):
        for kw in ({}, {'auth': None}, {'auth': None, 'mode': 'production'}, {'auth': None, 'read_only': True}):
            w = ServerWorld(family)
            inst = None
            try:
                try:
                    inst = w.sio.instrument(**kw)
                    got = 'constructed'
                except Exception as ex:   # noqa
                    got = type(ex).__name__
                if got != 'ValueError':
                    ctx.violation('oracle', 'instrument(%r) on %s did not refuse a missing auth: %s — an instrumented '
                                  'server without explicit credentials' % (kw, family, got),
                                  {'part': 'constructor', 'family': family, 'kwargs': kw, 'observed': got})
                if ans['configure'] != {'exc': 'ValueError'}:
                    ctx.violation('correspondence', 'model configure(missing) = %r' % (ans['configure'],),
                                  {'part': 'constructor'}, no_input=True)
            finally:
                if inst is not None:
                    inst.uninstrument()
                w.close()
            ctx.count('constructor')


# ---- Python `==` against `pyEq`

def run_pyeq(ctx, n):
    rng = ctx.rng
    pairs = []
    while len(pairs) < n:
        r = rng.random()
        if r < 0.35:
            d = gen_creds(rng)
            a, b = d, gen_payload(rng, [d])[1]
            if b is ABSENT:
                b = None
        elif r < 0.6:
            a = G.gen_value(rng, 3, 0.05)
            b = confuse(rng, a) if rng.random() < 0.6 else numeric_twin(rng, a)
        elif r < 0.75:
            a = G.gen_value(rng, 2, 0.05)
            b = copy.deepcopy(a)
            if isinstance(b, dict):
                b = permute(rng, b)
        elif r < 0.85:
            a = rng.choice([10 ** 22, 10 ** 23, 99999999999999991611392, 2 ** 53, 2 ** 53 + 1, 2 ** 63, 1, 0, -1,
                            10 ** 16, 12345678901234567890])
            b = rng.choice([float(a), float(a) * 2, a, a + 1, float(a + 1), True, False, 1e22, 1e23, 0.0, -0.0])
        else:
            a, b = G.gen_value(rng, 2, 0.1), G.gen_value(rng, 2, 0.1)
        if rng.random() < 0.5:
            a, b = b, a
        try:
            pairs.append((a, b, {'op': 'pyeq', 'a': C.j2w(a), 'b': C.j2w(b)}))
        except (C.Unrepresentable, TypeError):
            continue
    ans = C.batch('admin', [p[2] for p in pairs])
    eq = 0
    for (a, b, _), r in zip(pairs, ans):
        want = (a == b)
        eq += want
        if r['eq'] != want:
            ctx.violation('correspondence', 'Python `%r == %r` is %r, model pyEq says %r' % (a, b, want, r['eq']),
                          {'part': 'pyeq', 'a': a, 'b': b}, no_input=True)
    ctx.count('pyeq.pairs', len(pairs))
    ctx.count('pyeq.equal', eq)
    return len(pairs)


# ---- registry of instrument(mode, read_only)

def run_registry(ctx):
    n = 0
    modes = ['development', 'production', 'Development', 'dev', '']
    ops = [{'op': 'registry', 'mode': C.s2w(m), 'read_only': ro} for m in modes for ro in (False, True)]
    ans = iter(C.batch('admin', ops))
    for m in modes:
        for ro in (False, True):
            a = next(ans)
            want = sorted(C.w2s(x) for x in a['registered'])
            wrapped = sorted(a['wrapped'])
            for family in ('threading', 'asyncio'):
                w = ServerWorld(family)
                parked = []
                inst = None
                try:
                    before = {'_trigger_event': '_trigger_event' in vars(w.sio),
                              'emit': 'emit' in vars(w.sio.manager)}
                    inst = instrument_world(w, parked, auth={'u': 'p'}, mode=m, read_only=ro)
                    got = sorted(w.sio.handlers.get(ADMIN_NS, {}).keys())
                    patched = []
                    if '_trigger_event' in vars(w.sio) and not before['_trigger_event']:
                        patched.append('_trigger_event')
                    for name in ('basic_enter_room', 'basic_leave_room', 'emit'):
                        if name in vars(w.sio.manager):
                            patched.append(name)
                    replay = {'part': 'registry', 'family': family, 'mode': m, 'read_only': ro,
                              'registered': got, 'model': want}
                    muts = [e for e in got if e in MUTATORS]
                    if muts and (ro or m != 'development'):
                        ctx.violation('oracle', 'instrument(mode=%r, read_only=%r) on %s registers %r on the admin '
                                      'namespace' % (m, ro, family, muts), replay)
                    elif got != want:
                        ctx.violation('correspondence', 'handlers on the admin namespace %r, model %r (mode=%r '
                                      'read_only=%r)' % (got, want, m, ro), replay, no_input=True)
                    if sorted(patched) != wrapped:
                        ctx.violation('correspondence', 'wrapped methods %r, model %r (mode=%r)' % (patched, wrapped, m),
                                      replay, no_input=True)
                finally:
                    shutdown_instrumentation(w, inst)
                    w.close()
                n += 1
    ctx.count('registry.configs', n)
    return n


# ====================================================================== (b) transparency

def strip_star(cfg):
    """an application with catch-all *namespace* handlers receives the admin namespace's unhandled
    events as its own (core dispatch, C13) — it asked for them; such registrations are left out of
    the cases that have an admin client"""
    cfg = copy.deepcopy(cfg)
    cfg['fn'] = [f for f in cfg['fn'] if f[0] != '*']
    cfg['cls'] = [c for c in cfg['cls'] if c[0] != '*']
    return cfg


class InstrRunner(S.Runner):
    """`Runner` whose server is instrumented.  Admin transports and everything sent on them are
    kept apart, so `do()` reports what the application side observes."""

    def __init__(self, mode, cfg, coroutine_handlers, inst_opts):
        super().__init__(mode, cfg, coroutine_handlers=coroutine_handlers)
        self.inst = None
        self.parked = []
        self.admin_tids = []
        self.admin_log = {}
        self.admin_sids = {}
        orig_sent_all = self.w.sent_all

        def sent_all():
            d = orig_sent_all()
            for t in self.admin_tids:
                if t in d:
                    self.admin_log.setdefault(t, []).extend(d.pop(t))
            return d
        self.w.sent_all = sent_all
        self.inst = instrument_world(self.w, self.parked, **inst_opts)

    # ---- admin-side ops (not part of the application scenario)
    def admin(self, op):
        k = op['op']
        self.records = []
        res, contained = ('ok', None), []
        if k == 'admin_open':
            self.admin_tids.append(op['t'])
            res = self.w.open(op['t'])
        elif k == 'admin_frame':
            res, contained = self.w.recv(op['t'], self.names_real_text(op['text']))
        elif k == 'admin_lost':
            res, contained = self.w.lose(op['t'], 'transport close')
        elif k == 'admin_stats':
            run_stats_once(self.w, self.inst, self.parked)
        else:
            raise ValueError(k)
        return self._observe({'op': 'frame'}, res, contained)

    def names_real_text(self, text):
        """admin frames are written with session *names* (s0, ...); put the real ids in"""
        for n, sid in sorted(self.names.rev.items(), key=lambda kv: -len(kv[0])):
            text = text.replace('"%s"' % n, '"%s"' % sid)
        return text

    def admin_connected(self, t):
        return any(eio == t for eio in self.sio.manager.rooms.get(ADMIN_NS, {}).get(None, {}).values())

    def close(self):
        try:
            shutdown_instrumentation(self.w, self.inst)
        finally:
            super().close()


def app_state(r):
    """what the server remembers about application clients, with session names"""
    m = r.sio.manager
    nm = r.names.fwd
    rooms = set()
    for ns, rs in m.rooms.items():
        if ns == ADMIN_NS:
            continue
        for room, bd in rs.items():
            for sid, eio in bd.items():
                rooms.add((ns, nm.get(room, room) if room is not None else None, nm.get(sid, '?' + sid), eio))
    pend = set()
    for ns, lst in m.pending_disconnect.items():
        if ns != ADMIN_NS:
            for sid in lst:
                pend.add((ns, nm.get(sid, '?' + sid)))
    admin_t = set(getattr(r, 'admin_tids', []))
    admin_sid = set()
    for bd in m.rooms.get(ADMIN_NS, {}).values():
        admin_sid.update(bd.keys())
    cbs = sorted((nm.get(sid, '?'), sorted(d.keys())) for sid, d in m.callbacks.items() if sid not in admin_sid and d)
    return {'rooms': sorted(rooms, key=repr), 'pending': sorted(pend), 'callbacks': cbs,
            'environ': sorted(t for t in r.sio.environ if t not in admin_t),
            'binary': sorted(t for t in r.sio._binary_packet if t not in admin_t)}


OBS_KEYS = ('sends', 'exc', 'raised', 'handler_raised', 'has_result')


def obs_diff(a, b):
    """application-side observations of the plain (a) and the instrumented (b) run"""
    d = []
    for k in OBS_KEYS:
        if a.get(k) != b.get(k):
            d.append('%s: plain=%r instrumented=%r' % (k, a.get(k), b.get(k)))
    for k in ('invokes', 'callbacks'):
        x, y = a[k], b[k]
        if len(x) != len(y) or any(p[0] != q[0] or not C.same(list(p[1]), list(q[1])) for p, q in zip(x, y)):
            d.append('%s: plain=%r instrumented=%r' % (k, x, y))
    ra, rb = a.get('result'), b.get('result')
    if isinstance(ra, list) and isinstance(rb, list) and a.get('has_result') is None:
        ra, rb = sorted(ra, key=repr), sorted(rb, key=repr)        # rooms(): a set
    if not C.same(ra, rb):
        d.append('result: plain=%r instrumented=%r' % (ra, rb))
    return d


def quiet(obs):
    return not (obs['sends'] or obs['invokes'] or obs['callbacks'] or obs['raised'] or obs['handler_raised'] or obs['exc'])


def correct_auth_frame(inst_opts, t):
    a = inst_opts['auth']
    if not a:
        return '0' + ADMIN_NS + ','
    if isinstance(a, dict):
        return '0' + ADMIN_NS + ',' + json.dumps(a)
    if isinstance(a, list):
        return '0' + ADMIN_NS + ',' + json.dumps(a[-1])
    return '0' + ADMIN_NS + ',' + json.dumps({'token': 'letmein'})


def wrong_auth_frame(inst_opts):
    a = inst_opts['auth']
    if isinstance(a, dict):
        return '0' + ADMIN_NS + ',' + json.dumps(dict(a, extra=True))
    if isinstance(a, list):
        return '0' + ADMIN_NS + ',' + json.dumps(dict(a[0], extra=1))
    return '0' + ADMIN_NS + ',' + json.dumps({'token': 'nope'})


def mk_inst_opts(spec):
    """inst_opts from its JSON-able description"""
    o = {'mode': spec['mode'], 'read_only': spec['read_only']}
    a = spec['auth']
    if a == 'pred':
        o['auth'] = lambda x: isinstance(x, dict) and x.get('token') == 'letmein'
    elif a == 'coro':
        async def p(x):
            return isinstance(x, dict) and x.get('token') == 'letmein'
        o['auth'] = p
    else:
        o['auth'] = copy.deepcopy(a)
    return o


def gen_mutator(rng, sc):
    """an admin request that would act on the application if a handler were registered"""
    ns = rng.choice(SG.NS_POOL[:3])
    sids = sc.sids(ns)
    filt = rng.choice([None, None] + SG.ROOMS + sids)
    ev = rng.choice(MUTATORS)
    if ev == 'emit':
        data = ['emit', ns, filt, rng.choice(SG.EVENTS)] + [G.gen_value(rng, 1, 0.0) for _ in range(rng.randint(0, 2))]
    elif ev == 'join':
        data = ['join', ns, rng.choice(SG.ROOMS + ['admins-room'])] + ([filt] if filt else [])
    elif ev == 'leave':
        data = ['leave', ns, rng.choice(SG.ROOMS)] + ([filt] if filt else [])
    else:
        data = ['_disconnect', ns, rng.choice([True, False])] + ([filt] if filt else [])
    pid = rng.choice([None, None, 0, 5])
    return pycodec.encode(2, ADMIN_NS, pid, data)[0], ev


class PairCase:
    """One application scenario on a plain and on an instrumented real server."""

    def __init__(self, family, cfg, coro, inst_spec):
        self.family, self.cfg, self.coro, self.inst_spec = family, cfg, coro, inst_spec
        self.plain = None
        self.inst = None
        self.ops = []
        self.inst_trace = []      # [(op, instrumented server's application-side observation, admin transports connected)]
        self.final_state = None
        self.fail = None          # (kind, text)

    def open(self):
        self.plain = S.Runner(self.family, self.cfg, coroutine_handlers=self.coro)
        self.inst = InstrRunner(self.family, self.cfg, self.coro, mk_inst_opts(self.inst_spec))

    def close(self):
        try:
            if self.inst is not None:
                self.inst.close()
        finally:
            if self.plain is not None:
                self.plain.close()

    def writable(self):
        return self.inst_spec['mode'] == 'development' and not self.inst_spec['read_only']

    def app_op(self, op):
        """-> plain observation (for the generator); records the first difference"""
        self.ops.append(op)
        a = self.plain.do(copy.deepcopy(op))
        b = self.inst.do(copy.deepcopy(op))
        self.inst_trace.append((op, b, None))
        if self.fail is None:
            d = obs_diff(a, b)
            if not d:
                sa, sb = app_state(self.plain), app_state(self.inst)
                if sa != sb:
                    d = ['server state about application clients differs after the op: plain=%r instrumented=%r' % (sa, sb)]
            if d:
                self.fail = ('transparency', 'op %d %s: %s' % (len(self.ops) - 1, S._brief(op), '; '.join(d)[:900]))
        return a

    def admin_op(self, op, must_be_inert=True):
        op = dict(op, admin=True)
        self.ops.append(op)
        before = app_state(self.inst)
        obs = self.inst.admin(op)
        after = app_state(self.inst)
        self.inst_trace.append((op, obs, sorted(t for t in self.inst.admin_tids if self.inst.admin_connected(t))))
        if self.fail is None and must_be_inert:
            if not quiet(obs):
                self.fail = ('admin-visible', 'admin op %d %s reached the application side: %r' % (
                    len(self.ops) - 1, S._brief(op), {k: v for k, v in obs.items() if v}))
            elif before != after:
                self.fail = ('admin-mutates', 'admin op %d %s changed application state: before=%r after=%r' % (
                    len(self.ops) - 1, S._brief(op), before, after))
        return obs

    def replay_ops(self, ops):
        for op in ops:
            if op.get('admin'):
                o = {k: v for k, v in op.items() if k != 'admin'}
                if o['op'] != 'admin_open' and o.get('t') is not None and o['t'] not in self.inst.admin_tids:
                    continue
                self.admin_op(o, must_be_inert=op.get('inert', True))
            else:
                if op['op'] in ('frame', 'frameval', 'lost') and op['t'] not in self.plain.w.socks:
                    continue
                self.app_op(op)


def execute_pair(case):
    """re-run a recorded pair case -> failure or None"""
    pc = PairCase(case['family'], case['cfg'], case['coro'], case['inst'])
    try:
        pc.open()
        pc.replay_ops(case['ops'])
        return pc.fail
    finally:
        pc.close()


def run_pair_case(ctx, profile, family, inst_spec, with_admin, nops):
    rng = ctx.rng
    cfg = SG.make_cfg(rng, profile)
    if with_admin:
        cfg = strip_star(cfg)
    coro = rng.random() < 0.5
    sc = SG.Scenario(rng, profile)
    pc = PairCase(family, cfg, coro, inst_spec)
    stats = {'admin_ops': 0, 'mutators': 0, 'app_ops': 0, 'refused': 0}
    admins = []
    nadm = 0
    try:
        pc.open()
        inert_mode = not pc.writable()
        opts = mk_inst_opts(inst_spec)

        def admin_connect(good=True):
            nonlocal nadm
            nadm += 1
            t = 'ADM%d' % nadm
            pc.admin_op({'op': 'admin_open', 't': t})
            pc.admin_op({'op': 'admin_frame', 't': t,
                         'text': correct_auth_frame(opts, t) if good else wrong_auth_frame(opts)})
            ok = pc.inst.admin_connected(t)
            expect = good or not opts['auth']
            if expect != ok and pc.fail is None:
                pc.fail = ('gate', 'admin with %s credentials was %sconnected' % (
                    'the right' if good else 'wrong', '' if ok else 'not '))
            if not ok:
                stats['refused'] += 1
            if ok:
                admins.append(t)
            stats['admin_ops'] += 2

        if with_admin and rng.random() < 0.7:
            admin_connect()
        n = rng.randint(max(3, nops // 3), nops)
        k = 0
        while (k < n or sc.pending_frames) and pc.fail is None:
            if with_admin and not sc.pending_frames and rng.random() < 0.22:
                r = rng.random()
                if r < 0.2 or not admins:
                    admin_connect(good=rng.random() < 0.75)
                elif r < 0.3:
                    t = admins.pop(rng.randrange(len(admins)))
                    pc.admin_op({'op': 'admin_lost', 't': t})
                    stats['admin_ops'] += 1
                elif r < 0.4:
                    pc.admin_op({'op': 'admin_stats'})
                    stats['admin_ops'] += 1
                elif inert_mode:
                    text, ev = gen_mutator(rng, sc)
                    pc.admin_op({'op': 'admin_frame', 't': rng.choice(admins), 'text': text})
                    stats['mutators'] += 1
                    ctx.count('pair.mutator.' + ev)
                else:
                    # writable mode: an admin event that is not a mutator (nobody's)
                    pc.admin_op({'op': 'admin_frame', 't': rng.choice(admins),
                                 'text': pycodec.encode(2, ADMIN_NS, None, ['ping', 1])[0]})
                    stats['admin_ops'] += 1
                continue
            op = sc.next()
            k += 1
            obs = pc.app_op(op)
            sc.learn(op, obs)
            stats['app_ops'] += 1
            ctx.count('pair.op.' + op['op'])
        if pc.fail is None and cfg['asyncHandlers']:
            pc.app_op({'op': 'settle'})
        if pc.fail is None and with_admin:
            pc.admin_op({'op': 'admin_stats'})
            for t in list(sc.open):
                if pc.fail is None:
                    op = {'op': 'lost', 't': t, 'reason': 'transport close'}
                    sc.learn(op, pc.app_op(op))
        fail = pc.fail
        ops = list(pc.ops)
        tie = (list(pc.inst_trace), app_state(pc.inst))
    finally:
        pc.close()
    return fail, {'family': family, 'cfg': cfg, 'coro': coro, 'inst': inst_spec, 'ops': ops}, stats, tie



# ====================================================================== (c) the model of the instrumented server

_SID = re.compile(r'(?<![A-Za-z0-9_])s\d+(?![A-Za-z0-9_])')
_tie_driver = None


def tie_driver():
    global _tie_driver
    if _tie_driver is None:
        _tie_driver = C.Driver('admin')
    return _tie_driver


def inst_auth_wire(a):
    """the `auth=` of the pair cases (INST_AUTHS) in the driver's vocabulary"""
    if a in ('pred', 'coro'):
        return {'pred': {'hasKey': [C.s2w('token'), C.j2w('letmein')]}}
    return {'val': C.j2w(a)}


def _mentions_sid_like(op):
    """application inputs that carry something shaped like a session name outside the fields that are session
    names: the renaming between model ids and observed ids could not tell them apart"""
    k = op['op']
    if k == 'burst':
        return any(_mentions_sid_like(o) for o in op['frames'])
    if k == 'frame':
        return bool(_SID.search(op['text']))
    if k == 'frameval':
        return bool(_SID.search(repr(op['v'])))
    if k in ('emit', 'call'):
        return bool(_SID.search(json.dumps([op['ev'], C.jsonable(op['data'])], default=repr)))
    if k in ('save_session', 'session_block', 'session_nested'):
        return bool(_SID.search(json.dumps(C.jsonable({x: op.get(x) for x in ('v', 'k', 'v2', 'k2')}), default=repr)))
    return False


class ModelNames:
    """model session ids (s<n> by allocation, admin sessions included) <-> observed names (s<k> by first
    appearance on the application side)"""

    def __init__(self):
        self.m2h = {}
        self.h2m = {}

    def learn(self, ans):
        def walk(v):
            if isinstance(v, str):
                if _SID.fullmatch(v):
                    self.add(v)
            elif isinstance(v, (list, tuple)):
                for x in v:
                    walk(x)
            elif isinstance(v, dict):
                for x in v.values():
                    walk(x)
        outs = ans['outs']
        for o in outs:
            if 'invoke' in o or 'callback' in o:
                walk([C.w2j(a) for a in o['args']])
        for o in outs:
            if 'send' in o:
                for m in _SID.findall(C.w2s(o['text'])):
                    self.add(m)

    def add(self, m):
        if m not in self.m2h:
            h = 's%d' % len(self.m2h)
            self.m2h[m] = h
            self.h2m[h] = m

    def to_model(self, name):
        if isinstance(name, str) and _SID.fullmatch(name):
            return self.h2m.get(name, 'x' + name)      # a name nobody has: unknown to the model too
        return name

    def text_to_model(self, text):
        return _SID.sub(lambda m: self.h2m.get(m.group(0), 'x' + m.group(0)), text)

    def to_harness(self, v):
        if isinstance(v, str):
            return _SID.sub(lambda m: self.m2h.get(m.group(0), '?' + m.group(0)), v)
        if isinstance(v, (list, tuple)):
            return [self.to_harness(x) for x in v]
        if isinstance(v, dict):
            return {k: self.to_harness(x) for k, x in v.items()}
        return v


def _op_to_model(op, names):
    o = copy.deepcopy(op)
    for k in ('sid', 'room'):
        if k in o:
            o[k] = names.to_model(o[k])
    if o.get('to') is not None:
        to = o['to']
        o['to'] = {'many': [names.to_model(r) for r in to['many']]} if 'many' in to else {'one': names.to_model(to['one'])}
    if 'skip' in o:
        o['skip'] = [names.to_model(x) for x in o['skip']]
    return o


def _empty_obs():
    return {'sends': {}, 'invokes': [], 'callbacks': [], 'result': None, 'exc': None, 'raised': False, 'timeout': False}


def _merge(m, x):
    for t, fr in x['sends'].items():
        m['sends'].setdefault(t, []).extend(fr)
    m['invokes'] += x['invokes']
    m['callbacks'] += x['callbacks']
    m['raised'] = m['raised'] or x['raised']
    for k in ('result', 'has_result'):
        if x.get(k) is not None:
            m[k] = x[k]


def model_tie(case, inst_trace, final_state):
    """-> ('ok' | 'skip' | 'diff', text, stats).  Runs `Instrumented.step` over the history the real instrumented
    server was given and compares application projections."""
    st = {'steps': 0, 'hidden': 0, 'admin_steps': 0}
    for op, _obs, _adm in inst_trace:
        if op.get('admin'):
            continue
        if op['op'] == 'call':
            return 'skip', 'call()', st
        if _mentions_sid_like(op):
            return 'skip', 'sid-like payload', st
    d = tie_driver()
    inst = case['inst']
    d.ask({'op': 'inst_cfg', 'cfg': S.cfg_wire(case['cfg'])['cfg'], 'admin_ns': C.s2w(ADMIN_NS), 'mode': C.s2w(inst['mode']),
           'read_only': bool(inst['read_only']), 'auth': inst_auth_wire(inst['auth'])})
    names = ModelNames()

    def step(o):
        if not S.representable(o):
            raise C.Unrepresentable(o.get('text', ''))
        ans = d.ask({'op': 'inst_step', 'input': S.op_wire(o)})
        st['steps'] += 1
        st['hidden'] += ans['hidden']
        names.learn(ans)
        mo = S.model_obs(ans)
        mo['raised'] = mo['raised'] or bool(ans.get('contained_raised'))
        mo['sends'] = {t: [names.to_harness(f) if isinstance(f, str) else f for f in fr] for t, fr in mo['sends'].items()}
        mo['invokes'] = [(sl, names.to_harness(a)) for sl, a in mo['invokes']]
        mo['callbacks'] = [(n, names.to_harness(a)) for n, a in mo['callbacks']]
        mo['result'] = names.to_harness(mo['result'])
        return mo, ans

    try:
        for idx, (op, obs, admins) in enumerate(inst_trace):
            if op.get('admin'):
                k = op['op']
                if k == 'admin_stats':
                    continue
                if k == 'admin_open':
                    o = {'op': 'open', 't': op['t']}
                elif k == 'admin_lost':
                    o = {'op': 'lost', 't': op['t'], 'reason': 'transport close'}
                else:
                    o = {'op': 'frame', 't': op['t'], 'text': names.text_to_model(op['text'])}
                mo, ans = step(o)
                st['admin_steps'] += 1
                if not ans['quiet']:
                    return 'skip', 'outside the theorem\'s domain (quietStep false) at op %d' % idx, st
                if mo['sends'] or mo['invokes'] or mo['callbacks']:
                    return 'diff', 'op %d %s: the model shows admin traffic on the application side: %r' % (
                        idx, S._brief(op), {x: mo[x] for x in ('sends', 'invokes', 'callbacks') if mo[x]}), st
                got = sorted(C.w2s(t) for t in ans['admins'])
                if admins is not None and got != admins:
                    return 'diff', 'op %d %s: admin transports connected: implementation %r, model %r' % (
                        idx, S._brief(op), admins, got), st
                continue
            if op['op'] == 'session_nested':
                subs = S._nested_as_blocks(op)
            elif op['op'] == 'burst':
                subs = op['frames']
            else:
                subs = [op]
            mo = _empty_obs()
            for sub in subs:
                x, ans = step(_op_to_model(sub, names))
                if not ans['quiet']:
                    return 'skip', 'outside the theorem\'s domain (quietStep false) at op %d' % idx, st
                if op['op'] == 'session_nested':
                    mo = x
                else:
                    _merge(mo, x)
            diffs = S.compare(op, obs, mo)
            if diffs:
                return 'diff', 'op %d %s: %s' % (idx, S._brief(op), '; '.join(diffs)[:900]), st
        snap = d.ask({'op': 'inst_snapshot'})
    except C.Unrepresentable:
        return 'skip', 'unrepresentable frame', st
    rooms = sorted(((C.w2s(ns), None if room is None else names.to_harness(C.w2s(room)), names.to_harness(C.w2s(sid)), C.w2s(eio))
                    for ns, room, sid, eio in snap['rooms']), key=repr)
    want = sorted((tuple(r) for r in final_state['rooms']), key=repr)
    if rooms != want:
        return 'diff', 'rooms of application namespaces after the history: implementation %r, model appState %r' % (want, rooms), st
    env = sorted(C.w2s(t) for t in snap['environ'])
    # `environ` of the model holds admin transports too (appState keeps it whole)
    adm_t = {op['t'] for op, _o, _a in inst_trace if op.get('admin') and op.get('t')}
    if sorted(t for t in env if t not in adm_t) != final_state['environ']:
        return 'diff', 'environ after the history: implementation %r, model %r' % (final_state['environ'], env), st
    return 'ok', '', st


def execute_tie(case):
    """re-run a recorded pair case on the real instrumented server and on the model -> (verdict, text)"""
    pc = PairCase(case['family'], case['cfg'], case['coro'], case['inst'])
    try:
        pc.open()
        pc.replay_ops(case['ops'])
        if pc.fail:
            return 'pair', '%s: %s' % pc.fail
        v, text, _st = model_tie(case, pc.inst_trace, app_state(pc.inst))
        return v, text
    finally:
        pc.close()


INST_AUTHS = [{'username': 'admin', 'password': 's3cret'}, [{'u': 1}, {'token': 'letmein'}], 'pred', 'coro', False]


def run_pairs(ctx, ncases, nops):
    rng = ctx.rng
    rooms_profile = {'weights': {'open': 2, 'connect': 6, 'client_disconnect': 2, 'event': 2, 'ack': 0, 'emit': 5, 'emit_cb': 1,
                                 'api_disconnect': 2, 'enter': 6, 'leave': 5, 'close': 2, 'rooms': 3, 'lost': 2,
                                 'partial_binary': 0, 'session': 1},
                     'connect_outcomes': {'accept': 8, 'false': 1, 'refuse': 1, 'raise': 0}}
    profiles = [('C04', c04.PROFILE), ('C05', c05.PROFILE), ('C06', c06.PROFILE), ('rooms', rooms_profile)]
    combos = [(f, m, ro) for f in ('threading', 'asyncio') for m in ('development', 'production') for ro in (False, True)]
    evals = 0
    nontriv = set()
    samples = []
    for ci in range(ncases):
        family, mode, ro = combos[ci % len(combos)]
        pname, profile = profiles[(ci // len(combos)) % len(profiles)]
        auth = rng.choice(INST_AUTHS)
        if auth == 'coro' and family != 'asyncio':
            auth = 'pred'
        inst_spec = {'mode': mode, 'read_only': ro, 'auth': auth}
        with_admin = rng.random() < 0.65
        fail, case, stats, tie = run_pair_case(ctx, profile, family, inst_spec, with_admin, nops)
        evals += stats['app_ops'] + stats['admin_ops'] + stats['mutators']
        if not fail:
            verdict, text, tst = model_tie(case, tie[0], tie[1])
            ctx.count('tie.' + verdict)
            ctx.count('tie.model_steps', tst['steps'])
            ctx.count('tie.hidden_outputs', tst['hidden'])
            ctx.count('tie.admin_steps', tst['admin_steps'])
            if verdict == 'skip':
                ctx.count('tie.skip.' + text.split(' at op')[0])
            if verdict == 'ok' and with_admin and tst['admin_steps'] >= 3:
                ctx.count('tie.ok_with_admin')
            if verdict == 'diff':
                def still_tie(cand):
                    return execute_tie(dict(case, ops=cand))[0] == 'diff'
                small = S.shrink_ops(case['ops'], still_tie, budget=60)
                v2, t2 = execute_tie(dict(case, ops=small))
                if v2 != 'diff':
                    small, t2 = case['ops'], text
                ctx.violation('correspondence', 'model of the instrumented server (Instrumented.step, %s, read_only=%s) vs the '
                              'real instrumented %s server, application projection: %s' % (mode, ro, family, t2[:700]),
                              dict(case, ops=small, part='tie', failure=t2), no_input=True)
        ctx.count('pair.%s.%s.ro=%s.admin=%s' % (family, mode, ro, with_admin))
        ctx.count('pair.profile.' + pname)
        if fail:
            kind, text = fail

            def still(cand):
                return execute_pair(dict(case, ops=cand)) is not None
            small = S.shrink_ops(case['ops'], still, budget=80)
            f2 = execute_pair(dict(case, ops=small)) or fail
            rep = dict(case, ops=small, part='pair', failure=list(f2))
            rep['inst'] = inst_spec
            ctx.violation('oracle', 'instrumented (%s, read_only=%s, %s) vs plain server: %s' % (mode, ro, family, f2[1][:700]), rep)
        if stats['app_ops'] >= 10 and (not with_admin or stats['admin_ops'] + stats['mutators'] >= 3):
            nontriv.add(ci)
        if len(samples) < 2 and with_admin:
            samples.append({'family': family, 'inst': inst_spec, 'profile': pname,
                            'ops': [S._brief(o) for o in case['ops'][:14]]})
    return evals, len(nontriv), samples


# ---- positive control: where the mutators are registered they do act (so the injections above are
#      well-formed requests, and `writable_resolve` is about the same handlers)

def run_positive_control(ctx):
    for family in ('threading', 'asyncio'):
        cfg = S.default_cfg()
        cfg['fn'] = [['/', 'connect'], ['/', 'msg']]
        pc = PairCase(family, cfg, False, {'mode': 'development', 'read_only': False, 'auth': {'u': 'p'}})
        try:
            pc.open()
            r = pc.inst
            for rr in (pc.plain, r):
                rr.do({'op': 'open', 't': 'T1'})
                rr.do({'op': 'frame', 't': 'T1', 'text': '0'})
            pc.admin_op({'op': 'admin_open', 't': 'ADM1'}, must_be_inert=False)
            pc.admin_op({'op': 'admin_frame', 't': 'ADM1', 'text': '0/admin,{"u":"p"}'}, must_be_inert=False)
            s0 = app_state(r)
            o1 = pc.admin_op({'op': 'admin_frame', 't': 'ADM1', 'text': '2/admin,["join","/","vip"]'}, must_be_inert=False)
            s1 = app_state(r)
            o2 = pc.admin_op({'op': 'admin_frame', 't': 'ADM1', 'text': '2/admin,["emit","/","vip","hello",1]'}, must_be_inert=False)
            o3 = pc.admin_op({'op': 'admin_frame', 't': 'ADM1', 'text': '2/admin,["leave","/","vip"]'}, must_be_inert=False)
            s3 = app_state(r)
            o4 = pc.admin_op({'op': 'admin_frame', 't': 'ADM1', 'text': '2/admin,["_disconnect","/",false]'}, must_be_inert=False)
            s4 = app_state(r)
            ok = (len(s1['rooms']) == len(s0['rooms']) + 1 and o2['sends'].get('T1') == ['2["hello",1]']
                  and s3['rooms'] == s0['rooms'] and not s4['rooms'] and o4['sends'].get('T1') == ['1'])
            ans = C.batch('admin', [{'op': 'resolve', 'mode': C.s2w('development'), 'read_only': False,
                                     'admin_ns': C.s2w(ADMIN_NS), 'ns': C.s2w(ADMIN_NS), 'ev': C.j2w(ev), 'args': [],
                                     'fn': [[C.s2w('/'), C.s2w('connect')], [C.s2w('/'), C.s2w('msg')]], 'cls': []}
                                    for ev in MUTATORS])
            model_ok = all('fn' in a and C.w2s(a['fn'][0]) == ADMIN_NS for a in ans)
            if not ok or not model_ok:
                ctx.violation('correspondence', 'writable development mode: admin join/emit/leave/_disconnect did not act '
                              'as the model says (impl ok=%r model ok=%r): %r' % (ok, model_ok, [o1, o2, o3, o4]),
                              {'part': 'positive-control', 'family': family}, no_input=True)
            ctx.count('positive_control')
        finally:
            pc.close()
    # and the model's answer for the read-only side of the same requests
    ans = C.batch('admin', [{'op': 'resolve', 'mode': C.s2w(m), 'read_only': ro, 'admin_ns': C.s2w(ADMIN_NS),
                             'ns': C.s2w(ADMIN_NS), 'ev': C.j2w(ev), 'args': [],
                             'fn': [[C.s2w('/'), C.s2w('msg')]], 'cls': []}
                            for m, ro in (('development', True), ('production', False), ('production', True))
                            for ev in MUTATORS])
    if not all('notHandled' in a for a in ans):
        ctx.violation('correspondence', 'model: a mutator resolves to a handler in read-only mode: %r' % (ans,),
                      {'part': 'positive-control'}, no_input=True)


# ====================================================================== (d) transparency at the HTTP level
#
# Everything above talks to `engineio.socket.Socket` objects; the instrumentation also wraps engine.io's HTTP layer
# (`eio._ok`, `Socket.handle_post_request`, `Socket._send_ping`, the websocket handler).  Here the SAME request script
# is played, through `handle_request` (WSGI / ASGI, `world_http`), against a plain server and against an instrumented
# one, and every response to an application client must be the same: status, headers, body.  The class-level patches
# of `instrument()` are process-global, so the plain server runs first, alone.

HTTP_NSS = ['/', '/chat']
HTTP_STRINGS = ['hi', 'a"b', 'back\\slash', 'café ☃', 'x y&z=1', '', "it's", '<b>']
HTTP_FLAVOURS = ['xhr', 'jsonp', 'b64']


def http_app(hw, log, names):
    """the application: the same on every server of a comparison"""
    sio = hw.sio
    is_async = hw.is_async

    def rec(what, ns, sid, *a):
        log.append([what, ns, names.name(sid)] + [C.jsonable(x) for x in a])

    def handlers(ns):
        def connect(sid, environ, auth=None):
            rec('connect', ns, sid, auth)
            if isinstance(auth, dict) and auth.get('deny'):
                raise ConnectionRefusedError('denied', {'code': auth['deny']})
            return [('enter_room', (sid, auth['room']), {'namespace': ns})] \
                if isinstance(auth, dict) and isinstance(auth.get('room'), str) else []

        def disconnect(sid, reason=None):
            rec('disconnect', ns, sid, reason)
            return []

        def echo(sid, *data):
            rec('echo', ns, sid, *data)
            return [('emit', ('reply', tuple(data)), {'to': sid, 'namespace': ns})], \
                (data[0] if len(data) == 1 else tuple(data))

        def bcast(sid, data=None):
            rec('bcast', ns, sid, data)
            return [('emit', ('news', data), {'namespace': ns})]

        def join(sid, room):
            rec('join', ns, sid, room)
            return [('enter_room', (sid, room), {'namespace': ns})], 'joined'

        def leave(sid, room):
            rec('leave', ns, sid, room)
            return [('leave_room', (sid, room), {'namespace': ns})]

        def room(sid, room, data=None):
            rec('room', ns, sid, room, data)
            return [('emit', ('to-room', data), {'to': room, 'namespace': ns, 'skip_sid': sid})]

        def bin_(sid, data=None):
            rec('bin', ns, sid, data)
            return [('emit', ('blob', {'b': b'\x00\x01\xfe', 'echo': data}), {'to': sid, 'namespace': ns})], b'\x10\x20'

        def big(sid, n=0):
            rec('big', ns, sid, n)
            return [('emit', ('big', 'q"' * int(n)), {'to': sid, 'namespace': ns})]

        def bye(sid):
            rec('bye', ns, sid)
            return [('disconnect', (sid,), {'namespace': ns})]
        return {'connect': connect, 'disconnect': disconnect, 'echo': echo, 'bcast': bcast, 'join': join,
                'leave': leave, 'room': room, 'bin': bin_, 'big': big, 'bye': bye}

    def wrap(fn):
        # a handler body = bookkeeping, then calls of the server API, then the return value (the acknowledgement)
        def split(r):
            if isinstance(r, tuple) and len(r) == 2 and isinstance(r[0], list):
                return r
            return r, None
        if is_async:
            async def ah(*a):
                calls, ret = split(fn(*a))
                for name, args, kw in calls:
                    v = getattr(sio, name)(*args, **kw)
                    if hasattr(v, '__await__'):
                        await v
                return ret
            return ah

        def h(*a):
            calls, ret = split(fn(*a))
            for name, args, kw in calls:
                getattr(sio, name)(*args, **kw)
            return ret
        return h
    for ns in HTTP_NSS:
        for ev, fn in handlers(ns).items():
            sio.on(ev, wrap(fn), namespace=ns)


KNOWN_ZOMBIE = 'C18/disconnect-of-a-namespace-joined-on-a-closed-engineio-session'


def _zombie_listed():
    known, _fixed = C.known_findings()
    return any(sig == KNOWN_ZOMBIE for sig, _t in known.get('C18', []))


def _quiet_after_close(ops):
    """A websocket client whose engine.io session the server has closed (the client's own engine.io CLOSE packet, or
    an over-long POST to the polling endpoint of its session) closes its websocket and sends nothing more.  (engine.io
    keeps reading a websocket after it has closed the session; a socket.io CONNECT arriving then creates a namespace
    connection without `environ` whose connect handler never runs: see KNOWN_ZOMBIE in `run_http`.)"""
    ws_mode, gone, out = set(), set(), []
    for op in ops:
        c = op.get('c')
        if c in gone and op['op'] != 'api':
            continue
        out.append(op)
        if op['op'] in ('ws_open', 'ws_upgrade'):
            ws_mode.add(c)
        elif c in ws_mode and ((op['op'] == 'post' and '1' in op['pk'])
                               or (op['op'] == 'bad' and op['kind'] == 'too-long')):
            out.append({'op': 'ws_close', 'c': c})
            gone.add(c)
        elif op['op'] == 'ws_close':
            gone.add(c)
    return out


# base64 of the attachments clients send; '' = the empty bytes object
BIN_ATTACHMENTS = ['AQID', '/v8=', 'aGVsbG8=', '', '', 'AA==']


def gen_http_script(rng, n_ops, ws=False, zombie=False):
    """`ws`: some clients use the websocket transport (directly, or by upgrading their polling session); `zombie`:
    such clients may go on sending after the server has closed their engine.io session"""
    n_clients = rng.choice([2, 3, 3, 4])
    fl = [rng.choice(HTTP_FLAVOURS) for _ in range(n_clients)]
    if 'jsonp' not in fl and rng.random() < 0.8:
        fl[rng.randrange(n_clients)] = 'jsonp'
    if ws:
        for i in range(n_clients):
            if rng.random() < 0.3:
                fl[i] = 'ws'
    upgraded = set()
    clients = [{'c': 'c%d' % i, 'fl': f, 'j': rng.choice([0, 0, 1, 7, 41])} for i, f in enumerate(fl)]
    ops = []
    opened = []
    conn = {}                    # client -> set of namespaces it asked to join
    ack = [0]

    def js(v):
        return json.dumps(v, separators=(',', ':'), ensure_ascii=rng.random() < 0.5)

    def event(ns, name, args, with_ack=None):
        if with_ack is None:
            with_ack = rng.random() < 0.5
        aid = ''
        if with_ack:
            ack[0] += 1
            aid = str(ack[0])
        t = '2' + aid + js([name] + list(args))
        typ, rest = t[0], t[1:]
        return '4' + typ + ('' if ns == '/' else ns + ',') + rest

    def some_event(c):
        nss = sorted(conn.get(c, [])) or ['/']
        ns = rng.choice(nss) if rng.random() < 0.9 else rng.choice(HTTP_NSS)
        x = rng.random()
        s = rng.choice(HTTP_STRINGS)
        if ws and (c in upgraded or fl[int(c[1:])] == 'ws') and rng.random() < 0.3:
            x = 0.8          # websocket clients: more binary events (attachments travel as binary frames)
        if x < 0.35:
            return [event(ns, 'echo', rng.choice([[s], [s, 1], [{'k': s}], [[1, s]], []]))]
        if x < 0.50:
            return [event(ns, 'bcast', [s])]
        if x < 0.62:
            return [event(ns, rng.choice(['join', 'join', 'leave']), [rng.choice(['r1', 'r2'])])]
        if x < 0.72:
            return [event(ns, 'room', [rng.choice(['r1', 'r2']), s])]
        if x < 0.84:
            # a binary event: header packet + attachment, in one payload
            aid = ''
            if rng.random() < 0.5:
                ack[0] += 1
                aid = str(ack[0])
            # (attachments may be the EMPTY bytes object: a zero-length engine.io binary packet, on a websocket a
            # zero-length binary frame — a valid frame, not the end of the connection)
            atts = [rng.choice(BIN_ATTACHMENTS) for _ in range(rng.choice([1, 1, 1, 2, 3]))]
            arg = {'_placeholder': True, 'num': 0} if len(atts) == 1 else \
                {'k%d' % n: {'_placeholder': True, 'num': n} for n in range(len(atts))}
            head = '45%d-' % len(atts) + ('' if ns == '/' else ns + ',') + aid + js(['bin', arg])
            return [head] + ['b' + a for a in atts]
        if x < 0.92:
            return [event(ns, 'big', [rng.choice([30, 600, 700])], with_ack=False)]
        if x < 0.96:
            return [event(ns, 'bye', [], with_ack=False)]
        return [event(ns, 'nobody-listens', [s])]

    def admin_ops():
        out = []
        if rng.random() < 0.5:
            out.append({'op': 'admin', 'do': rng.choice(['poll', 'poll', 'stats', 'ping'])})
        return out
    ops.append({'op': 'admin', 'do': 'connect'})
    while len(ops) < n_ops:
        x = rng.random()
        ops += admin_ops()
        if (x < 0.3 or not opened) and len(opened) < n_clients:
            c = clients[len(opened)]['c']
            opened.append(c)
            ops.append({'op': 'ws_open' if fl[len(opened) - 1] == 'ws' else 'open', 'c': c, 'origin': rng.choice([None] * 8 + ['same'] * 5 + ['other'])})
            if rng.random() < 0.85:
                for ns in rng.choice([['/'], ['/chat'], ['/', '/chat'], ['/chat', '/']]):
                    auth = rng.choice([None, None, {'room': rng.choice(['r1', 'r2'])}, {'token': rng.choice(HTTP_STRINGS)}])
                    conn.setdefault(c, set()).add(ns)
                    ops.append({'op': 'post', 'c': c,
                                'pk': ['40' + ('' if ns == '/' else ns + ',') + (js(auth) if auth else '')]})
                ops.append({'op': 'poll', 'c': c, 'gzip': False, 'origin': None})
            continue
        c = rng.choice(opened)
        if ws and rng.random() < 0.06 and c not in upgraded and fl[int(c[1:])] != 'ws':
            upgraded.add(c)
            ops.append({'op': 'ws_upgrade', 'c': c})
            continue
        if ws and rng.random() < 0.02 and (c in upgraded or fl[int(c[1:])] == 'ws'):
            ops.append({'op': 'ws_close', 'c': c})
            continue
        if x < 0.27:
            ns = rng.choice(HTTP_NSS)
            auth = rng.choice([None, None, {'room': rng.choice(['r1', 'r2'])}, {'token': rng.choice(HTTP_STRINGS)},
                               {'deny': 7}])
            if not (isinstance(auth, dict) and auth.get('deny')):
                conn.setdefault(c, set()).add(ns)
            ops.append({'op': 'post', 'c': c, 'pk': ['40' + ('' if ns == '/' else ns + ',') + (js(auth) if auth else '')]})
        elif x < 0.52:
            pk = some_event(c)
            while rng.random() < 0.25:
                pk += some_event(c)
            ops.append({'op': 'post', 'c': c, 'pk': pk})
            if rng.random() < 0.6:
                ops.append({'op': 'poll', 'c': rng.choice([c, c, rng.choice(opened)]), 'gzip': rng.random() < 0.5,
                            'origin': rng.choice([None, None, 'same'])})
        elif x < 0.74:
            ops.append({'op': 'poll', 'c': c, 'gzip': rng.random() < 0.3,
                        'origin': rng.choice([None, None, None, 'same'])})
        elif x < 0.79:
            ops.append({'op': 'ping', 'c': c})
            if rng.random() < 0.7:
                ops.append({'op': 'poll', 'c': c, 'gzip': False, 'origin': None})
                ops.append({'op': 'post', 'c': c, 'pk': ['3']})
        elif x < 0.87:
            tgt = rng.choice(opened)
            ns = rng.choice(HTTP_NSS)
            y = rng.random()
            if y < 0.45:
                ops.append({'op': 'api', 'call': 'emit', 'ev': 'push', 'data': rng.choice(HTTP_STRINGS), 'ns': ns,
                            'to': rng.choice([None, None, {'room': 'r1'}, {'c': tgt}])})
            elif y < 0.6:
                ops.append({'op': 'api', 'call': 'emit', 'ev': 'pushb', 'data': '<bytes>', 'ns': ns, 'to': None})
            elif y < 0.8:
                ops.append({'op': 'api', 'call': 'emit', 'ev': 'asks', 'data': 1, 'ns': ns, 'to': {'c': tgt}, 'cb': True})
            else:
                ops.append({'op': 'api', 'call': 'disconnect', 'c': tgt, 'ns': ns})
        elif x < 0.90:
            ns = rng.choice(sorted(conn.get(c, [])) or ['/'])
            # the client acknowledges (whatever id), or leaves the namespace
            nsp = '' if ns == '/' else ns + ','
            if rng.random() < 0.3:
                # a binary acknowledgement (attachments as above, the empty one included)
                atts = [rng.choice(BIN_ATTACHMENTS) for _ in range(rng.choice([1, 1, 2]))]
                ops.append({'op': 'post', 'c': c, 'pk': [
                    '46%d-' % len(atts) + nsp + '1' + js([{'_placeholder': True, 'num': n} for n in range(len(atts))])]
                    + ['b' + a for a in atts]})
            else:
                ops.append({'op': 'post', 'c': c, 'pk': [rng.choice(['43' + nsp + '1["got"]', '41' + nsp])]})
        elif x < 0.97:
            ops.append({'op': 'bad', 'c': c, 'kind': rng.choice(['sid', 'transport', 'version', 'jsonp', 'put', 'options',
                                                                 'options', 'not-a-packet', 'post-no-sid', 'origin',
                                                                 'sid', 'jsonp', 'too-long', 'unknown-packet'])})
        elif x < 0.985:
            ops.append({'op': 'poll', 'c': c, 'gzip': False, 'origin': None, 'idle': True})
        else:
            ops.append({'op': 'post', 'c': c, 'pk': ['1']})           # engine.io CLOSE
    server = {}
    x = rng.random()
    if x < 0.25:
        server['cookie'] = 'io'
    elif x < 0.4:
        server['cookie'] = {'name': 'sess', 'path': '/x', 'SameSite': 'None', 'Secure': True}
    x = rng.random()
    if x < 0.15:
        server['cors_allowed_origins'] = '*'
    elif x < 0.3:
        server['cors_allowed_origins'] = ['http://localhost', 'http://other.example']
    elif x < 0.4:
        server['cors_allowed_origins'] = []
    if rng.random() < 0.3:
        server['compression_threshold'] = 64
    elif rng.random() < 0.15:
        server['http_compression'] = False
    if rng.random() < 0.15:
        server['cors_credentials'] = False
    if ws and not zombie:
        ops = _quiet_after_close(ops)
    return {'clients': clients, 'ops': ops, 'server': server}


class _Ids:
    """ids the server generated, renamed by first appearance in what application clients saw"""

    def __init__(self, hw):
        self.hw = hw
        self.fwd = {}

    def name(self, i):
        if not isinstance(i, str):
            return i
        if i not in self.fwd:
            self.fwd[i] = '<id%d>' % len(self.fwd)
        return self.fwd[i]

    def text(self, s):
        known = [i for i in self.hw.ids if i and i in s]
        if not known:
            return s
        rx = re.compile('|'.join(re.escape(i) for i in sorted(known, key=len, reverse=True)))
        return rx.sub(lambda m: self.name(m.group(0)), s)


ORIGINS = {'same': 'http://localhost', 'other': 'http://evil.example'}


def run_http_script(family, script, inst_spec=None, with_admin=False, decisions=None):
    """plays the script -> {'resp': [...], 'app': handler log, 'decisions': which polls were made}.
    `inst_spec` None = the plain server (admin ops are skipped).  Polls: a script `poll` is made when the PLAIN
    server holds something for that client (an idle long poll is a time-out and closes the socket; the script has
    explicit idle polls for that) — the instrumented run makes exactly the requests the plain run made."""
    from .. import world_http as H
    hw = H.HttpWorld(family, **script.get('server', {}))
    ids = _Ids(hw)
    app = []
    parked = []
    inst = None
    out = []
    made = []
    try:
        http_app(hw, app, ids)
        if inst_spec is not None:
            inst = instrument_world(hw.w, parked, auth=False, mode=inst_spec['mode'], read_only=inst_spec['read_only'])
        clients = {c['c']: H.Client(c['c'], c['fl'], c['j']) for c in script['clients']}
        adm = H.Client('adm', 'xhr')
        cbs = []

        def note(i, op, c, r, j=None, final=False):
            body = H.plain_body(r)
            try:
                text = body.decode('utf-8')
            except UnicodeDecodeError:
                text = repr(body)
            hdrs = [[k, ids.text(v)] for k, v in r['headers']]
            cl = [v for k, v in r['headers'] if k.lower() == 'content-length']
            pk = H.decode(c.flavour if c else 'xhr', r['status'], body, j)
            out.append({'i': i, 'op': op, 'c': c.name if c else None, 'status': r['status'], 'headers': hdrs,
                        'body': ids.text(text), 'final': final,
                        'content_length_ok': all(v == str(len(r['body'])) for v in cl),
                        'client_sees': [ids.text(p) for p in pk] if isinstance(pk, list) else list(pk)})

        def hdr(op, gz=False):
            h = {}
            if op.get('origin'):
                h['HTTP_ORIGIN'] = ORIGINS[op['origin']]
            if gz:
                h['HTTP_ACCEPT_ENCODING'] = 'deflate;q=0.5, gzip'
            return h
        pi = 0
        wss = {}
        empty_frames = [0]       # zero-length binary frames websocket clients sent

        def note_ws(i, op, c, frames, final=False):
            fr = [[kind, ids.text(x) if isinstance(x, str) else x] for kind, x in frames]
            out.append({'i': i, 'op': op, 'c': c.name, 'status': 'websocket frames', 'headers': [],
                        'body': json.dumps(fr), 'final': final, 'content_length_ok': True, 'client_sees': fr})

        def ws_frame(pk):
            import base64
            if pk[:1] == 'b':
                try:
                    return base64.b64decode(pk[1:])
                except Exception:   # noqa
                    return pk
            return pk
        for i, op in enumerate(script['ops']):
            k = op['op']
            if k == 'admin':
                if inst is None or not with_admin:
                    continue
                do = op['do']
                if do == 'connect':
                    hw.handshake(adm)
                    hw.post(adm, ['40/admin,'])
                    hw.settle()
                elif do == 'poll' and hw.queued(adm):
                    hw.poll(adm)
                elif do == 'stats':
                    run_stats_once(hw.w, inst, parked)
                elif do == 'ping' and adm.sid is not None:
                    hw.ping(adm)
                continue
            c = clients.get(op.get('c'))
            if k == 'ws_open':
                wss[c.name] = hw.websocket(c, headers=hdr(op))
                note_ws(i, op, c, wss[c.name].take())
            elif k == 'ws_upgrade':
                if c.name in wss or c.sid is None:
                    continue
                w_ = wss[c.name] = hw.websocket(c, upgrade=True)
                note_ws(i, op, c, w_.take())
                w_.client_sends('2probe')
                note_ws(i, op, c, w_.take())
                note(i, op, c, hw.poll(c), c.j if c.flavour == 'jsonp' else None)
                w_.client_sends('5')
                note_ws(i, op, c, w_.take())
            elif k == 'ws_close':
                if c.name in wss:
                    wss[c.name].client_closes()
                    note_ws(i, op, c, wss[c.name].take())
            elif k in ('post', 'poll') and c.name in wss:
                if k == 'poll':
                    if decisions is None:
                        made.append(True)
                    else:
                        pi += 1
                else:
                    for pk in op['pk']:
                        fr_ = ws_frame(pk)
                        if fr_ == b'':
                            empty_frames[0] += 1
                        wss[c.name].client_sends(fr_)
                    hw.settle()
                note_ws(i, op, c, wss[c.name].take())
            elif k == 'open':
                j = c.j if c.flavour == 'jsonp' else None
                note(i, op, c, hw.handshake(c, headers=hdr(op)), j)
            elif k == 'post':
                note(i, op, c, hw.post(c, op['pk']))
                hw.settle()
            elif k == 'poll':
                if decisions is None:
                    go = bool(op.get('idle')) or hw.queued(c)
                    made.append(go)
                else:
                    go = decisions[pi]
                    pi += 1
                if go:
                    j = c.j if c.flavour == 'jsonp' else None
                    note(i, op, c, hw.poll(c, headers=hdr(op, op.get('gzip'))), j)
            elif k == 'ping':
                r = hw.ping(c)
                # (how the background task fared is not something a client observes — the PING it does or does not
                # get is, in the responses that follow: kept for the replay, not compared)
                out.append({'i': i, 'op': op, 'c': c.name, 'status': 'ping interval elapsed', 'detail': (
                    'fired' if r is True else 'no ping loop waiting' if r is False else 'the task ended with %s' % r[1]),
                    'headers': [], 'body': '', 'final': False, 'content_length_ok': True, 'client_sees': []})
            elif k == 'api':
                ns = op['ns']
                if op['call'] == 'emit':
                    to = op['to']
                    if to is not None and 'c' in to:
                        to = hw.sio.manager.sid_from_eio_sid(clients[to['c']].sid, ns)
                        if to is None:
                            continue
                    elif to is not None:
                        to = to['room']
                    data = {'raw': b'\xc0\xff\xee'} if op['data'] == '<bytes>' else op['data']
                    kw = {}
                    if op.get('cb'):
                        def cb(*a, _n=len(cbs)):
                            app.append(['callback', _n] + [C.jsonable(x) for x in a])
                        cbs.append(cb)
                        kw['callback'] = cb
                    hw.w.api('emit', op['ev'], data, namespace=ns, to=to, **kw)
                else:
                    sid = hw.sio.manager.sid_from_eio_sid(clients[op['c']].sid, ns)
                    if sid is not None:
                        hw.w.api('disconnect', sid, namespace=ns)
                hw.settle()
            elif k == 'bad':
                note(i, op, c, bad_request(hw, c, op['kind']))
        # what is still held for the clients
        for name in sorted(wss):
            note_ws(len(script['ops']), {'op': 'poll', 'c': name, 'final': True}, clients[name], wss[name].take(), True)
            # the websocket connections end here, one after the other (left to the tear-down of the world they would
            # be cancelled in whatever order the event loop keeps its tasks)
            wss[name].client_closes()
            note_ws(len(script['ops']), {'op': 'ws_close', 'c': name, 'final': True}, clients[name],
                    wss[name].take(), True)
        for name in sorted(clients):
            c = clients[name]
            if name in wss:
                continue
            for _ in range(4):
                if not hw.queued(c):
                    break
                j = c.j if c.flavour == 'jsonp' else None
                note(len(script['ops']), {'op': 'poll', 'c': name, 'final': True}, c, hw.poll(c), j, final=True)
        rooms = sorted((ns, ids.name(r) if r is not None else '', ids.name(s))
                       for ns, rs in hw.sio.manager.rooms.items() if ns != ADMIN_NS
                       for r, mem in rs.items() for s in mem)
        return {'resp': out, 'app': list(app), 'decisions': made, 'rooms': [list(x) for x in rooms],
                'ws_empty_frames': empty_frames[0],
                'sockets': sorted(name for name, c in clients.items() if c.sid in hw.eio.sockets)}
    finally:
        try:
            if inst is not None:
                shutdown_instrumentation(hw.w, inst)
        finally:
            hw.close()


def bad_request(hw, c, kind):
    q = c.query()
    if kind == 'sid':
        return hw.request('GET', q.split('&sid=')[0] + '&sid=nobody')
    if kind == 'transport':
        return hw.request('GET', q.replace('transport=polling', 'transport=carrier-pigeon'))
    if kind == 'version':
        return hw.request('GET', c.query(handshake=True).replace('EIO=4', 'EIO=3'))
    if kind == 'jsonp':
        return hw.request('GET', q.split('&j=')[0] + '&j=x')
    if kind == 'put':
        return hw.request('PUT', q, b'40', 'text/plain')
    if kind == 'options':
        return hw.request('OPTIONS', q, headers={'HTTP_ORIGIN': ORIGINS['same'],
                                                 'HTTP_ACCESS_CONTROL_REQUEST_HEADERS': 'content-type'})
    if kind == 'too-long':
        ct, body = c.body(['4' + '2["echo","' + 'y' * 64 + '"]'])
        return hw.request('POST', q, body, ct, content_length=10 ** 7)
    if kind == 'unknown-packet':
        ct, body = c.body(['9zz'])
        return hw.request('POST', q, body, ct)
    if kind == 'not-a-packet':
        ct, body = c.body(['x'])
        return hw.request('POST', q, body, ct)
    if kind == 'post-no-sid':
        ct, body = c.body(['40'])
        return hw.request('POST', c.query(handshake=True), body, ct)
    if kind == 'origin':
        return hw.request('GET', q, headers={'HTTP_ORIGIN': ORIGINS['other']})
    raise ValueError(kind)


def http_diff(script, plain, inst):
    """-> first differences (text), application side"""
    bad = []
    a, b = plain['resp'], inst['resp']
    for x, y in zip(a, b):
        if (x['i'], x['c']) != (y['i'], y['c']):
            bad.append('request sequence differs: plain answered op %r for %s, instrumented op %r for %s'
                       % (x['i'], x['c'], y['i'], y['c']))
            break
        fl = next((c['fl'] for c in script['clients'] if c['c'] == x['c']), '?')
        is_ws = 'websocket frames' in (x['status'], y['status'])
        who = 'op %d %s, client %s (%s)' % (x['i'], json.dumps(x['op']), x['c'],
                                            'websocket' if is_ws else fl + ' polling')
        for key, label in (('status', 'status line'), ('headers', 'headers'), ('body', 'body')):
            if x[key] != y[key]:
                if is_ws and key == 'body':
                    bad.append('%s: the frames the server sent on the websocket differ: instrumented %r, plain %r'
                               % (who, y['client_sees'], x['client_sees']))
                    break
                bad.append('%s: %s of the HTTP response differs: instrumented %r, plain %r; the client makes of it: '
                           'instrumented %r, plain %r' % (who, label, y[key], x[key], y['client_sees'], x['client_sees']))
                break
        if not y['content_length_ok']:
            bad.append('%s: Content-Length of the instrumented server\'s response does not match its body' % who)
        if bad:
            break
    if not bad and len(a) != len(b):
        extra = (b if len(b) > len(a) else a)[min(len(a), len(b))]
        bad.append('%s server answered one more request (what was still held for client %s): %r'
                   % ('instrumented' if len(b) > len(a) else 'plain', extra['c'], extra['client_sees']))
    for key, label in (('app', 'handler invocations / callbacks'), ('rooms', 'rooms of application namespaces'),
                       ('sockets', 'clients whose engine.io session is alive')):
        if plain[key] != inst[key]:
            bad.append('%s differ: instrumented %r, plain %r' % (label, inst[key], plain[key]))
    return bad


def http_nontrivial(script, plain):
    kinds = set()
    for r in plain['resp']:
        if r['status'].startswith('200') and r['client_sees'] and r['client_sees'] != ['<OK>']:
            fl = next((c['fl'] for c in script['clients'] if c['c'] == r['c']), None)
            kinds.add(fl)
    return kinds


HTTP_INST = [{'mode': m, 'read_only': ro} for m in ('development', 'production') for ro in (False, True)]


def run_http(ctx):
    rng = ctx.rng
    n = ctx.scale(120, 1500)
    evals = nontriv = failures = 0
    sample = None
    zombie_listed = _zombie_listed()
    for si in range(n):
        family = ('threading', 'asyncio')[si % 2]
        # (the defect these scripts exposed was repaired in /repo; they are generated and judged like any other)
        zombie = family == 'asyncio' and si % 8 == 5
        script = gen_http_script(rng, rng.randint(25, 60), ws=family == 'asyncio' and si % 4 == 1, zombie=zombie)
        plain = run_http_script(family, script)
        kinds = http_nontrivial(script, plain)
        variants = [(HTTP_INST[(si // 2 + k) % 4], adm) for k, adm in ((0, False), (1, True), (2, True))]
        for inst_spec, with_admin in variants:
            inst = run_http_script(family, script, inst_spec, with_admin, plain['decisions'])
            evals += len(inst['resp'])
            ctx.count('http.%s.%s.ro=%s.admin=%s' % (family, inst_spec['mode'], inst_spec['read_only'], with_admin))
            bad = http_diff(script, plain, inst)
            if zombie:
                ctx.count('http.script_with_traffic_on_a_closed_engineio_session')
            if bad:
                failures += 1
                small = shrink_http(family, script, inst_spec, with_admin)
                p2 = run_http_script(family, small)
                i2 = run_http_script(family, small, inst_spec, with_admin, p2['decisions'])
                b2 = http_diff(small, p2, i2) or bad
                ctx.violation('oracle', 'HTTP level: instrumented (%s, read_only=%s, admin %sconnected, %s) vs plain '
                              'server: %s' % (inst_spec['mode'], inst_spec['read_only'], '' if with_admin else 'not ',
                                              family, b2[0][:900]),
                              {'part': 'http', 'family': family, 'script': small, 'inst': inst_spec,
                               'with_admin': with_admin, 'failures': b2[:5]})
                break
        if plain.get('ws_empty_frames'):
            ctx.count('http.websocket.scripts_with_a_zero_length_binary_frame_from_a_client')
            ctx.count('http.websocket.zero_length_binary_frames_from_clients', plain['ws_empty_frames'])
        nbin = sum(1 for o in script['ops'] if o['op'] == 'post' for p in o['pk'] if p == 'b')
        if nbin:
            ctx.count('http.empty_binary_attachments_sent', nbin)
        for r in plain['resp']:
            fl = next((c['fl'] for c in script['clients'] if c['c'] == r['c']), None)
            ctx.count('http.response.%s.%s' % (fl, r['status'].split(' ')[0]))
            if r['op']['op'] == 'bad':
                ctx.count('http.bad_request.' + r['op']['kind'])
            if any(k.lower() == 'content-encoding' for k, _v in r['headers']):
                ctx.count('http.response.compressed')
            if any(k.lower() == 'access-control-allow-origin' for k, _v in r['headers']):
                ctx.count('http.response.cors')
            if any(k.lower() == 'set-cookie' for k, _v in r['headers']):
                ctx.count('http.response.set_cookie')
            if r['status'] == 'websocket frames':
                ctx.count('http.websocket.frames_from_the_server', len(r['client_sees']))
                if r['op']['op'] in ('ws_open', 'ws_upgrade'):
                    ctx.count('http.websocket.' + r['op']['op'])
        if len(kinds) >= 2 and 'jsonp' in kinds:
            nontriv += 1
        if sample is None and len(script['ops']) <= 30:
            sample = {'family': family, 'clients': script['clients'], 'ops': script['ops'][:12]}
        if failures >= 2:
            break
    ctx.assumptions += [
        'HTTP level (oracle only, no model): the servers are entered through Server.handle_request (WSGI) / '
        'AsyncServer.handle_request (ASGI http and websocket scopes) in process; an idle long poll is a poll that timed '
        'out (the queues of this world do not wait), the ping loop is parked and fired by the script, no time passes; '
        'the plain server runs first and alone (instrument() patches engineio.socket.Socket for the whole process); '
        'the threaded server\'s websocket transport (real socket, blocking threads) is not driven',
        'HTTP level: a websocket client whose engine.io session the server has closed sends nothing more on that '
        'websocket (an eighth of the asyncio scripts drop this restriction)',
    ]
    ctx.coverage['http_level'] = {
        'scripts': si + 1, 'application_responses_compared': evals, 'scripts_with_jsonp_and_another_flavour': nontriv,
        'sample': sample,
        'rule': 'one script = 2-4 polling clients (plain XHR, JSONP with j=<n> and form-encoded d= bodies, b64=1) '
                'talking to the real Server.handle_request (WSGI) / AsyncServer.handle_request (ASGI) in process: '
                'handshakes (with and without Origin), CONNECTs with auth / refused, events with and without ack ids, '
                'several packets per POST, binary events and acks, server-side emits / callbacks / disconnects, ping and '
                'pong, compressed polls, idle polls (time-out), engine.io CLOSE, malformed requests, server options '
                '(cookie, CORS lists, compression threshold); on the asyncio server a quarter of the scripts also has '
                'clients on the websocket transport (ASGI websocket scope: direct connections and upgrades of polling '
                'sessions, text and binary frames, closed one by one at the end); played on a plain '
                'server, then on instrumented ones (development / production, read_only, with and without an admin '
                'connected over the same HTTP entry, polling and receiving the stats); every response to an '
                'application client — status, headers, body, ids renamed — handler invocations, rooms and live '
                'sessions must be equal'}
    return evals, nontriv


def shrink_http(family, script, inst_spec, with_admin, budget=60):
    def fails(ops):
        sc = dict(script, ops=ops)
        try:
            p = run_http_script(family, sc)
            i = run_http_script(family, sc, inst_spec, with_admin, p['decisions'])
        except Exception:   # noqa
            return False
        return bool(http_diff(sc, p, i))
    ops = list(script['ops'])
    step = max(1, len(ops) // 2)
    while step >= 1 and budget > 0:
        i = 0
        while i < len(ops) and budget > 0:
            cand = ops[:i] + ops[i + step:]
            budget -= 1
            if cand and fails(cand):
                ops = cand
            else:
                i += step
        step //= 2
    return dict(script, ops=ops)


def replay_http(case):
    script = case['script']
    plain = run_http_script(case['family'], script)
    inst = run_http_script(case['family'], script, case['inst'], case['with_admin'], plain['decisions'])
    print('%s server; instrument(auth=False, mode=%r, read_only=%r); admin client %s' % (
        case['family'], case['inst']['mode'], case['inst']['read_only'],
        'connected over the same HTTP entry' if case['with_admin'] else 'absent'))
    print('server options: %s' % json.dumps(script.get('server', {})))
    print('clients: %s' % json.dumps(script['clients']))
    fl = {c['c']: c['fl'] for c in script['clients']}
    for n, r in enumerate(inst['resp']):
        p = plain['resp'][n] if n < len(plain['resp']) else None
        same = p is not None and all(p[k] == r[k] for k in ('status', 'headers', 'body'))
        print('--- op %s %s  [%s]' % (r['i'], json.dumps(r['op']), fl.get(r['c'])))
        print('    instrumented: %s %r %s' % (r['status'], r['body'][:300], r.get('detail', '')))
        if not same:
            print('    plain       : %s' % ('%s %r' % (p['status'], p['body'][:300]) if p else '(no such request)'))
            print('    headers     : instrumented %r, plain %r' % (r['headers'], p['headers'] if p else None))
            print('    the client makes of it: instrumented %r, plain %r' % (r['client_sees'], p['client_sees'] if p else None))
    bad = http_diff(script, plain, inst)
    print('verdict: %s' % ('property violated on the implementation:\n  ' + '\n  '.join(bad) if bad else 'no difference'))
    return 1 if bad else 0


# ====================================================================== entry points

def run(ctx):
    C.proof_step(ctx, [
        'python-engineio: one transport\'s messages are delivered sequentially; handler exceptions are contained',
        'CPython `==` on JSON-shaped values, compared with `pyEq` on generated pairs by this check',
        'eio.generate_id() never repeats an id (hypothesis `hfresh` of refused_no_membership)',
    ])
    C.build_driver('admin')
    ctx.assumptions += [
        'gate and read-only clauses: Lean theorems over Sio/Model/Admin.lean + Sio/Model/Server.lean, tied to '
        'admin.py / async_admin.py by the gate / registry / pyEq correspondence of this check',
        'transparency clause: theorem wrappers_transparent_partial over the model Instrumented.stepWith (Server.step on '
        'the instrumented registry + the admin handlers\' API calls + the wrappers\' reports), for every reporting '
        'policy; hypotheses: AppClear, the plain server does not serve the admin namespace, API calls do not address '
        'it, no blocking call(), no mutator invoked, no queued admin event named `connect` (Instrumented.quiet); the '
        'reference run lets the id generator and the connect/event scripts skip what the admin CONNECTs consumed',
        'tie of that model: Instrumented.step is run on the history the real instrumented server was given (admin '
        'transports included) and its application projection (appView / appState rooms) compared with the real '
        'instrumented server\'s application-side observations; independently the real instrumented and the real plain '
        'server are compared side by side (the oracle); the admin_connect outcome is spliced into the model\'s connect '
        'script by the driver from the modelled gate (connectOutcome)',
        'the statistics the instrumentation emits to admins are not modelled; only their absence from application '
        'transports is checked (one iteration of the stats task is run explicitly, never the endless loop)',
        '`server_stats_interval` and `sio.sleep` are stubbed (no wall-clock waits)',
        'applications with catch-all namespace handlers ("*") receive unhandled admin events as their own (C13); '
        'cases with an admin client use configurations without them (hypothesis AppClear of the theorems)',
        'predicates that raise, and truthy `auth` values that are neither dict, list nor callable, are outside the '
        'configuration domain (TypeError at connection time; `configure` = error)',
    ]
    ctx.notes.append(
        'observation (not a finding): the candidate sid sits in the admin namespace\'s broadcast room while its connect '
        'handler runs (membership precedes the handler), so a refused client is sent the admin events emitted in that '
        'window (its own room_joined / socket_connected); the property speaks of the state after the attempt')
    ctx.notes.append(
        'falsy CONNECT payloads reach connect handlers as None (Server._handle_connect: `if data:`): invisible for dict / '
        'list credentials (theorems admitsWire_dict / admitsWire_list), visible for predicates -> known finding '
        + KNOWN_FALSY)
    run_constructor(ctx)
    n_reg = run_registry(ctx)
    n_eq = run_pyeq(ctx, ctx.scale(4000, 60000))
    ev_g, nt_g, samples_g = run_gate(ctx, ctx.scale(160, 1500), ctx.scale(22, 40))
    ev_s = run_sequences(ctx, ctx.scale(64, 900), ctx.scale(14, 20))
    run_positive_control(ctx)
    npairs = ctx.scale(288, 3600)
    ev_p, nt_p, samples_p = run_pairs(ctx, npairs, ctx.scale(40, 60))
    ev_h, nt_h = run_http(ctx)
    ctx.coverage['evaluations'] = ev_g + ev_p + n_eq + n_reg + ev_h + ev_s
    ctx.coverage['gate_attempts'] = ev_g
    ctx.coverage['gate_sequence_attempts'] = ev_s
    ctx.coverage['pair_ops'] = ev_p
    ctx.coverage['distinct_nontrivial'] = nt_g + nt_p
    ctx.coverage['traces_validated_against_impl'] = ev_g + npairs
    ctx.coverage['samples'] = samples_g + samples_p
    ctx.coverage['rule'] = (
        'gate: per auth configuration (dict / list of dicts / sync+coroutine predicate / falsy) one real instrumented '
        'Server or AsyncServer, payloads absent/None/non-dict/exact/permuted/subset/superset/type-confused/nested/'
        'numeric-twin/duplicate-key/random sent as `0/admin,<json>`; accept/refuse vs model vs statement, membership after '
        'refusal; non-trivial = configuration with both accepted and refused payloads. '
        'pairs: C04/C05/C06 scenario generators on a plain and an instrumented real server, observations and manager '
        'state compared after every op, admin clients connecting / refused / leaving / injecting mutators in between; '
        'non-trivial = >=10 application ops and (if an admin is present) >=3 admin ops. '
        'tie: every pair case without a difference is also run on the model Instrumented.step (same history, admin '
        'transports included) and its application projection compared with the real instrumented server op by op, '
        'plus rooms / environ at the end (distribution keys tie.*; cases with call() or with payloads shaped like '
        'session names are skipped)')
    C.fold_proof_failures(ctx)


def replay(ctx, r):
    case = C.unjsonable(r.get('replay', r))
    part = case.get('part')
    if part == 'pair':
        pc = PairCase(case['family'], case['cfg'], case['coro'], case['inst'])
        try:
            pc.open()
            for i, op in enumerate(case['ops']):
                n0 = len(pc.ops)
                pc.replay_ops([op])
                print('--- op %d: %s%s' % (i, S._brief(op), '' if len(pc.ops) > n0 else '   (skipped)'))
                if pc.fail:
                    print('   FAIL : %s: %s' % pc.fail)
                    break
            print('verdict: %s' % ('property violated on the implementation' if pc.fail else 'no difference'))
        finally:
            pc.close()
        return 0
    if part == 'http':
        return replay_http(case)
    if part == 'sequence':
        return replay_sequence(case)
    if part == 'tie':
        v, text = execute_tie(case)
        print('model of the instrumented server vs real instrumented server: %s %s' % (v, text))
        return 0
    if part == 'gate':
        payloads = [(l, ABSENT if p == 'ABSENT' else p, raw) for l, p, raw in case['payloads']]
        c = dict(case, payloads=payloads)
        obs = gate_case(case['family'], case['auth'], case['mode'], case['read_only'], case['always_connect'], payloads)
        ans = model_gate(c)
        for (l, p, raw), o, a in zip(payloads, obs, ans):
            print('payload %r (%s): implementation %s member=%r; model %r; statement %r'
                  % (p, l, o['verdict'], o['member'], a, statement(case['auth'], p)))
        return 0
    print(json.dumps(C.jsonable(case), indent=1)[:4000])
    return 0
