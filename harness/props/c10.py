"""C10 — client reconnection: only after accidental loss, bounded back-off and attempts (K7r).

Every scenario is executed on the real `socketio.Client` / `AsyncClient` (harness/world_reconnect.py)
and on the Lean model (`sd_reconnect`, op `run`); the two event traces are compared exactly (waits as
exact rationals).  Independently the property oracle below - the statement of C10 computed with
`fractions.Fraction` from the scenario alone - is evaluated on the implementation's observations.
"""
import copy
import itertools
import json
from fractions import Fraction as F

from .. import common as C

LEVEL = 'proof'

DELAYS = ['0', '1/4', '1', '3']
MAXES = ['0', '1', '5', '60']
FACTORS = ['0', '1/2', '1']
LIMITS = [0, 1, 2, 5]
CAUSES = ['transportError', 'clientDisconnect', 'serverDisconnect', 'serverClose']
KNOWN_SIG = 'stale-reconnect-task'


# ------------------------------------------------------------------------------------------------
# scenario construction (everything JSON-serialisable: a scenario is its own replay)

def num(s, kind):
    q = F(s)
    if q.denominator == 1 and kind == 'int':
        return int(q)
    return float(q)


def mk_cfg(rng, d=None, m=None, f=None, n=None, rec=True):
    return {'reconnection': rec, 'attempts': rng.choice(LIMITS) if n is None else n,
            'delay': d or rng.choice(DELAYS), 'delayMax': m or rng.choice(MAXES),
            'rf': f or rng.choice(FACTORS), 'kind': rng.choice(['int', 'float'])}


def gen_params(rng, mode, simple=False):
    if simple:
        return {'url': 'http://h:1/x', 'namespaces': ['/']}
    p = {'url': rng.choice(['http://h:1/x', 'http://srv/?q=1', 'https://b.example'])}
    p['url_fn'] = rng.choice(['plain', 'plain', 'fn'] + (['afn'] if mode == 'asyncio' else []))
    if rng.random() < 0.7:
        p['headers'] = rng.choice([{}, {'X-A': '1'}, {'Authorization': 'Bearer t', 'X-B': 'b'}])
        p['headers_fn'] = rng.choice(['plain', 'plain', 'fn'] + (['afn'] if mode == 'asyncio' else []))
    if rng.random() < 0.7:
        p['auth'] = rng.choice([None, {'token': 'abc'}, {'u': 'x', 'p': 'y'}])
        p['auth_fn'] = rng.choice(['plain', 'plain', 'fn'] + (['afn'] if mode == 'asyncio' else []))
    if rng.random() < 0.6:
        p['transports'] = rng.choice([None, ['polling'], ['websocket'], 'polling', ['polling', 'websocket']])
    p['namespaces'] = rng.choice([None, '/a', ['/'], ['/a', '/b'], ['/b', '/'], ['/', '/a', '/b'], ['/b']])
    if rng.random() < 0.4:
        p['socketio_path'] = rng.choice(['socket.io', 'sio/v4', 'ws'])
    return p


def build_params(spec):
    """spec -> kwargs handed to connect(); callables wrap the value"""
    def wrap(v, how):
        if how == 'fn':
            return lambda: v
        if how == 'afn':
            async def f():
                return v
            return f
        return v
    # the library is handed copies: the scenario keeps what the application passed, so a value changed in
    # place by the library (a header added to the dict, a namespace removed from the list) is seen
    spec = copy.deepcopy(spec)
    p = {'url': wrap(spec['url'], spec.get('url_fn', 'plain'))}
    if 'headers' in spec:
        p['headers'] = wrap(spec['headers'], spec.get('headers_fn', 'plain'))
    if 'auth' in spec:
        p['auth'] = wrap(spec['auth'], spec.get('auth_fn', 'plain'))
    for k in ('transports', 'namespaces', 'socketio_path'):
        if k in spec:
            p[k] = spec[k]
    return p


def fail_kind(rng, nns):
    r = rng.random()
    if r < 0.45:
        return 'T'
    if r < 0.6:
        return 'L'
    mask = [rng.random() < 0.5 for _ in range(nns)]
    if all(mask):
        mask[rng.randrange(nns)] = False
    return ['S', mask]


def nns_of(spec):
    ns = spec.get('namespaces')
    if ns is None:
        return 3
    return 1 if isinstance(ns, str) else len(ns)


def rand8(rng):
    return '%d/8' % rng.randrange(8)


def delay_of(cfg, k, r):
    """the statement's formula, in exact arithmetic (k is 0-based)"""
    d, m, f = F(cfg['delay']), F(cfg['delayMax']), F(cfg['rf'])
    return min(d * 2 ** k, m), min(d * 2 ** k, m) + f * (2 * F(r) - 1)


def positive_rand(cfg, k, rng):
    """a random() value on the grid for which the (k+1)-th timeout is > 0, or None"""
    c = [r for r in range(8) if delay_of(cfg, k, F(r, 8))[1] > 0]
    return '%d/8' % rng.choice(c) if c else None


def efforts_from_pattern(rng, mode, cfg, pattern, nns, stop_at_failure=True):
    """A boolean pattern (False = the attempt fails) cut into the successive efforts it drives:
    each effort ends at its first success; a tail without success ends by give-up (limit reached)
    or by an abort at the wait after the last failure.  -> list of lose-steps."""
    steps = []
    i = 0
    N = cfg['attempts']
    while i < len(pattern):
        outs = []
        ended = None
        while i < len(pattern):
            b = pattern[i]
            i += 1
            if b:
                outs.append(['S', []])
                ended = 'connected'
                break
            outs.append(fail_kind(rng, nns))
            if N and len(outs) >= N:
                ended = 'gaveUp'
                break
        abort_at = None
        nwaits = len(outs)
        if ended is None:
            abort_at = len(outs)
            nwaits += 1
        rands = [rand8(rng) for _ in range(nwaits)]
        how = rng.choice(['shutdown', 'shutdown', 'flag', 'preset'])
        if abort_at is not None and mode == 'asyncio' and how != 'preset':
            # a concurrent shutdown() needs a wait that blocks: a timeout > 0
            r = positive_rand(cfg, abort_at, rng)
            if r is None:
                how = 'preset'
            else:
                rands[abort_at] = r
        steps.append(['lose', 'transportError', outs, rands, abort_at, how])
        if ended != 'connected':
            break
    return steps


MULTI_NS = [None, None, ['/a', '/b'], ['/b', '/'], ['/', '/a', '/b'], ['/b', '/a', '/'], ['/', '/a']]
ALL_NS = ['/', '/a', '/b']      # = world_reconnect.NS_UNIVERSE: what namespaces=None derives from the handlers


def ends_connected(cfg, step):
    """does this scripted effort end by a successful attempt"""
    return step[4] is None and bool(step[2]) and step[2][-1] == ['S', []] \
        and not (cfg['attempts'] and len(step[2]) > cfg['attempts'])


def life_steps(rng, names, first, late_done):
    """What may happen between connect() and the accidental loss WITHOUT changing what connect() was
    given: some namespaces refused by the server (connect(wait=False): the client stays up on the
    others), namespaces ended by the server one at a time (DISCONNECT packet; never the last one: that
    is the cause 'serverDisconnect'), application traffic, a handler registered for a new namespace.
    -> (steps, something happened)"""
    live = list(names)
    steps = []
    happened = False
    if first:
        refusable = [n for n in names if n != '/']      # refusing '/' is C08's known finding F9
        r = rng.random()
        if r < 0.35 and refusable and len(names) >= 2:
            refused = rng.sample(refusable, rng.randint(1, min(len(refusable), len(names) - 1)))
            steps.append(['connect', 0, {'wait': False, 'refuse': sorted(refused)}])
            live = [n for n in names if n not in refused]
            happened = True
        elif r < 0.45:
            steps.append(['connect', 0, {'wait': False, 'refuse': []}])
        else:
            steps.append(['connect', 0])
    for _ in range(rng.randint(0 if happened else 1, 3)):
        r = rng.random()
        if r < 0.65 and len(live) >= 2:
            n = rng.choice(live)
            live.remove(n)
            steps.append(['nsend', n])
            happened = True
        elif r < 0.85:
            steps.append(['app', 'emit', rng.choice(live)])
        elif not late_done:
            steps.append(['app', 'late_handler', None])
            late_done = True
            happened = True
    return steps, late_done


def scenario(mode, cfg, params, steps, tag):
    return {'mode': mode, 'cfg': cfg, 'params': params, 'steps': steps, 'tag': tag}


def gen_scenarios(ctx):
    rng = ctx.rng
    out = []
    modes = ['threading', 'asyncio']
    grid = [(d, m, f, n) for d in DELAYS for m in MAXES for f in FACTORS for n in LIMITS]
    # (1) every failure pattern up to length 6 (exhaustive), each with several configurations
    per = ctx.scale(6, 60)
    for L in range(1, 7):
        for pattern in itertools.product([False, True], repeat=L):
            for mode in modes:
                for _ in range(per):
                    cfg = mk_cfg(rng)
                    ps = gen_params(rng, mode, simple=rng.random() < 0.5)
                    steps = [['connect', 0]] + efforts_from_pattern(rng, mode, cfg, list(pattern), nns_of(ps))
                    out.append(scenario(mode, cfg, [ps], steps, 'pattern<=6'))
    # (2) the whole parameter grid, reconnection on, a short random pattern each
    for (d, m, f, n) in grid:
        for mode in modes:
            for _ in range(ctx.scale(3, 30)):
                cfg = mk_cfg(rng, d, m, f, n)
                pattern = [rng.random() < 0.35 for _ in range(rng.randint(1, 7))]
                ps = gen_params(rng, mode, simple=True)
                steps = [['connect', 0]] + efforts_from_pattern(rng, mode, cfg, pattern, 1)
                out.append(scenario(mode, cfg, [ps], steps, 'grid'))
    # (3) long patterns, sampled, up to 40 attempts
    for _ in range(ctx.scale(250, 10000)):
        mode = rng.choice(modes)
        cfg = mk_cfg(rng, n=rng.choice([0, 0, 0, 5]))
        L = rng.randint(7, 40)
        p_ok = rng.choice([0.0, 0.03, 0.1, 0.3])
        pattern = [rng.random() < p_ok for _ in range(L)]
        ps = gen_params(rng, mode, simple=rng.random() < 0.7)
        steps = [['connect', 0]] + efforts_from_pattern(rng, mode, cfg, pattern, nns_of(ps))
        out.append(scenario(mode, cfg, [ps], steps, 'long'))
    # (4) abort at every back-off wait: m failures, abort observed by wait k (0-based), k = 0..m
    for m_fail in range(0, 7):
        for k in range(0, m_fail + 1):
            for mode in modes:
                for _ in range(ctx.scale(8, 120)):
                    cfg = mk_cfg(rng, n=rng.choice([0, 0, 5, 2, 1]))
                    if cfg['attempts'] and k >= cfg['attempts']:
                        cfg['attempts'] = 0
                    ps = gen_params(rng, mode, simple=rng.random() < 0.6)
                    outs = [fail_kind(rng, nns_of(ps)) for _ in range(k)]
                    rands = [rand8(rng) for _ in range(k + 1)]
                    how = rng.choice(['shutdown', 'flag', 'preset'])
                    if mode == 'asyncio' and how != 'preset':
                        r = positive_rand(cfg, k, rng)
                        if r is None:
                            how = 'preset'
                        else:
                            rands[k] = r
                    steps = [['connect', 0], ['lose', 'transportError', outs, rands, k, how]]
                    out.append(scenario(mode, cfg, [ps], steps, 'abort'))
    # (5) causes of loss x reconnection on/off; afterwards the client connects again and loses the
    #     transport accidentally (an effort must start then, when enabled)
    for cause in CAUSES:
        for rec in (True, False):
            for mode in modes:
                for _ in range(ctx.scale(15, 300)):
                    cfg = mk_cfg(rng, rec=rec)
                    ps = gen_params(rng, mode, simple=rng.random() < 0.3)
                    nn = nns_of(ps)
                    steps = [['connect', 0]]
                    first = efforts_from_pattern(rng, mode, cfg, [rng.random() < 0.5 for _ in range(3)] + [True],
                                                 nn)[0]
                    first[1] = cause
                    steps.append(first)
                    will_start = rec and cause == 'transportError'
                    ended_connected = will_start and first[4] is None and first[2][-1] == ['S', []] \
                        and not (cfg['attempts'] and len(first[2]) > cfg['attempts'])
                    if not will_start:
                        steps.append(['connect', 0])
                        steps += efforts_from_pattern(rng, mode, cfg, [False, True], nn)[:1]
                    elif ended_connected:
                        steps += efforts_from_pattern(rng, mode, cfg, [True], nn)[:1]
                    out.append(scenario(mode, cfg, [ps], steps, 'cause.' + cause + ('.on' if rec else '.off')))
    # (6) parameters: a second connect() with other parameters, then a loss: the effort uses the new ones
    for _ in range(ctx.scale(500, 15000)):
        mode = rng.choice(modes)
        cfg = mk_cfg(rng, n=rng.choice([0, 5]))
        p0, p1 = gen_params(rng, mode), gen_params(rng, mode)
        s0 = efforts_from_pattern(rng, mode, cfg, [False, True], nns_of(p0))
        steps = [['connect', 0]] + s0
        if s0[-1][4] is None:
            steps += [['lose', rng.choice(CAUSES[1:]), [], [], None, 'shutdown'], ['connect', 1]]
            steps += efforts_from_pattern(rng, mode, cfg, [rng.random() < 0.4 for _ in range(3)] + [True],
                                          nns_of(p1))[:1]
        out.append(scenario(mode, cfg, [p0, p1], steps, 'params'))
    # (7) the region of the known finding: an effort ends by give-up or abort, the application
    #     connects again, the transport is lost accidentally
    for _ in range(ctx.scale(100, 2000)):
        mode = rng.choice(modes)
        how = rng.choice(['gaveUp', 'aborted'])
        cfg = mk_cfg(rng, n=rng.choice([1, 2]) if how == 'gaveUp' else 0)
        ps = gen_params(rng, mode, simple=True)
        if how == 'gaveUp':
            first = efforts_from_pattern(rng, mode, cfg, [False] * cfg['attempts'], 1)
        else:
            k = rng.randint(0, 2)
            rands = [rand8(rng) for _ in range(k + 1)]
            how = rng.choice(['shutdown', 'flag', 'preset'])
            if mode == 'asyncio' and how != 'preset':
                r = positive_rand(cfg, k, rng)
                if r is None:
                    how = 'preset'
                else:
                    rands[k] = r
            first = [['lose', 'transportError', [fail_kind(rng, 1) for _ in range(k)], rands, k, how]]
        steps = [['connect', 0]] + first + [['connect', 0]]
        steps += efforts_from_pattern(rng, mode, cfg, [rng.random() < 0.5, True], 1)[:1]
        out.append(scenario(mode, cfg, [ps], steps, 'after-failed-effort'))
    # (8) the abort flag is set just before a wait whose timeout is <= 0 (the wait cannot block; the
    #     flag must still be honoured: no further attempt)
    for _ in range(ctx.scale(120, 1500)):
        mode = rng.choice(modes)
        cfg = mk_cfg(rng, n=0)
        k = rng.randint(0, 3)
        c = [r for r in range(8) if delay_of(cfg, k, F(r, 8))[1] <= 0]
        if not c:
            continue
        ps = gen_params(rng, mode, simple=True)
        outs = [fail_kind(rng, 1) for _ in range(k)] + ['T'] * 3
        rands = [rand8(rng) for _ in range(k)] + ['%d/8' % rng.choice(c)] + [rand8(rng) for _ in range(3)]
        steps = [['connect', 0], ['lose', 'transportError', outs, rands, k, 'preset']]
        out.append(scenario(mode, cfg, [ps], steps, 'abort-flag-before-nonblocking-wait'))
    # (9) the life of a connection: several namespaces (given or derived from the handlers); between
    #     connect() and the accidental loss the server refuses / ends some of them, the application
    #     emits or registers handlers; the effort must still use what connect() was given
    for _ in range(ctx.scale(700, 12000)):
        mode = rng.choice(modes)
        cfg = mk_cfg(rng, n=rng.choice([0, 0, 5, 2]))
        ps = gen_params(rng, mode, simple=rng.random() < 0.3)
        ps['namespaces'] = copy.deepcopy(rng.choice(MULTI_NS))
        names = list(ps['namespaces'] or ALL_NS)
        steps, late = life_steps(rng, names, True, False)
        pattern = [rng.random() < 0.4 for _ in range(rng.randint(0, 3))] + [True]
        eff = efforts_from_pattern(rng, mode, cfg, pattern, len(names))[:1]
        steps += eff
        if ends_connected(cfg, eff[0]) and rng.random() < 0.5:
            # reconnected on every namespace: a second round on the new connection
            more, late = life_steps(rng, names, False, late)
            steps += more
            steps += efforts_from_pattern(rng, mode, cfg, [rng.random() < 0.5, True], len(names))[:1]
        out.append(scenario(mode, cfg, [ps], steps, 'life'))
    # (10) very long outages: >= 1100 consecutive failed attempts, then a success — far beyond where the
    #      doubling back-off leaves the range of a float (2**1024) and of any fixed-width counter; float and
    #      int configurations, no attempt limit and a limit above the length; the effort must keep going
    #      (attempt k happens, wait k within the capped window) until the success
    combos = [(mode, kind, lim) for mode in modes for kind in ('float', 'int') for lim in (0, 'above')]
    rng.shuffle(combos)
    picked = combos[:ctx.scale(4, 8)]
    if not any(k == 'float' for _m, k, _l in picked):
        picked[0] = (picked[0][0], 'float', picked[0][2])
    for mode, kind, lim in picked:
        L = rng.randint(1100, 1100 + ctx.scale(60, 1200))
        cfg = mk_cfg(rng, d=rng.choice(['1/4', '1', '3'] if kind == 'float' else ['1', '3']),
                     m=rng.choice(['1', '5', '60']), n=0 if lim == 0 else L + rng.randint(1, 50))
        cfg['kind'] = kind
        ps = gen_params(rng, mode, simple=True)
        steps = [['connect', 0]] + efforts_from_pattern(rng, mode, cfg, [False] * L + [True], 1)
        out.append(scenario(mode, cfg, [ps], steps, 'very-long-outage'))
    rng.shuffle(out)
    return out


# ------------------------------------------------------------------------------------------------
# execution on the real classes

def run_impl(sc):
    from .. import world_reconnect as W
    cfg = sc['cfg']
    pycfg = {'reconnection': cfg['reconnection'], 'attempts': cfg['attempts'],
             'delay': num(cfg['delay'], cfg['kind']), 'delayMax': num(cfg['delayMax'], cfg['kind']),
             'rf': num(cfg['rf'], cfg['kind'])}
    w = W.make_world(sc['mode'], pycfg)
    obs = {'steps': [], 'model_inputs': [], 'skipped': None}
    try:
        for spec in sc['params']:
            w.add_params(build_params(spec))
        stored = None       # (idx, [namespaces]) of the last connect()
        for st in sc['steps']:
            t0 = len(w.trace)
            e0 = len(w.eio_attempts)
            p0 = len(w.problems)
            if st[0] == 'connect':
                if w.client.connected:
                    obs['skipped'] = 'connect while connected'
                    break
                opts = st[2] if len(st) > 2 else None
                if opts:
                    res = w.connect(st[1], outcome=('N', list(opts['refuse'])), wait=opts['wait'])
                else:
                    res = w.connect(st[1])
                cidx = w.canon_idx(w.conn_pristine[st[1]])
                stored = (cidx, list(w.client.connection_namespaces or []), st[1])
                mi = {'conn': cidx, 'nss': [C.s2w(n) for n in stored[1]]}
                if opts and not opts['wait']:
                    obs['model_inputs'].append({'connectNoWait': dict(
                        mi, acc=[n not in opts['refuse'] for n in stored[1]])})
                else:
                    obs['model_inputs'].append({'connect': mi})
                obs['steps'].append({'kind': 'connect', 'idx': st[1], 'result': res, 'stored': stored, 'p0': p0,
                                     'trace': w.trace[t0:], 'eio': w.eio_attempts[e0:], 'opts': opts,
                                     'connected_after': w.client.connected,
                                     'live_after': sorted(w.client.namespaces),
                                     'mi': len(obs['model_inputs'])})
            elif st[0] == 'nsend':
                ns = st[1]
                if not w.client.connected or ns not in w.client.namespaces or len(w.client.namespaces) < 2:
                    obs['skipped'] = 'nsend not applicable'
                    break
                s0 = w.efforts_started
                w.script([], [], None)
                w.ns_end(ns)
                obs['model_inputs'].append({'nsEnd': C.s2w(ns)})
                obs['steps'].append({'kind': 'nsend', 'ns': ns, 'p0': p0, 'stored': stored,
                                     'started': w.efforts_started - s0, 'trace': w.trace[t0:],
                                     'eio': w.eio_attempts[e0:], 'connected_after': w.client.connected,
                                     'live_after': sorted(w.client.namespaces),
                                     'mi': len(obs['model_inputs'])})
            elif st[0] == 'app':
                if not w.client.connected:
                    obs['skipped'] = 'application step while not connected'
                    break
                s0 = w.efforts_started
                w.app(st[1], st[2])
                obs['steps'].append({'kind': 'app', 'what': st[1], 'p0': p0, 'stored': stored,
                                     'started': w.efforts_started - s0, 'trace': w.trace[t0:],
                                     'eio': w.eio_attempts[e0:], 'connected_after': w.client.connected,
                                     'live_after': sorted(w.client.namespaces),
                                     'mi': len(obs['model_inputs'])})
            else:
                _k, cause, outs, rands, abort_at, abort_mode = st
                if not w.client.connected:
                    obs['skipped'] = 'loss while not connected'
                    break
                impl_outs = [o if isinstance(o, str) else ('S', list(o[1])) for o in outs]
                w.script(impl_outs, [float(F(r)) for r in rands], abort_at, abort_mode)
                s0 = w.efforts_started
                w.in_list_at_wait = []
                live_before = sorted(w.client.namespaces)
                finals = w.lose(cause)
                started = w.efforts_started - s0
                if started:
                    w.effort_end_marks(w.client.connected)
                obs['model_inputs'].append({
                    'lose': cause,
                    'outs': [o if isinstance(o, str) else {'served': list(o[1])} for o in outs],
                    'rands': list(rands), 'abortAt': abort_at, 'fuel': len(rands) + 1})
                obs['steps'].append({
                    'kind': 'lose', 'cause': cause, 'outs': outs, 'rands': rands, 'abort_at': abort_at,
                    'abort_mode': abort_mode, 'p0': p0,
                    'started': started, 'finals': finals, 'stored': stored, 'trace': w.trace[t0:],
                    'eio': w.eio_attempts[e0:], 'connected_after': w.client.connected,
                    'task_after': w.client._reconnect_task is not None,
                    'in_list_after': w.client in W.sio_base.reconnecting_clients,
                    'in_list_at_wait': list(w.in_list_at_wait), 'max_concurrent': w.max_concurrent,
                    'unused_outs': len(w.outs), 'unused_rands': len(w.rands) - w.rand_i,
                    'live_before': live_before, 'live_after': sorted(w.client.namespaces),
                    'mi': len(obs['model_inputs'])})
    finally:
        w.close()
        obs['problems'] = list(w.problems)
    return obs


def canon_ns(ev):
    a = ev['nss_arg']
    if a is None:
        return list(ev.get('nss_stored', []))
    if isinstance(a, str):
        return [a]
    return list(a)


def canon_impl(trace):
    out = []
    for e in trace:
        if isinstance(e, str):
            out.append(e)
        elif 'wait' in e:
            q = e['wait']
            out.append({'wait': '%d/%d' % (q.numerator, q.denominator)})
        elif 'attempt' in e:
            out.append({'attempt': e['attempt'], 'nss': [C.s2w(n) for n in canon_ns(e)]})
        elif 'h' in e:
            d = {'h': e['h'], 'ns': C.s2w(e['ns'])}
            if e['h'] == 'disconnect':
                d['reason'] = e.get('reason')
            out.append(d)
        elif 'notified' in e:
            out.append({'notified': e['notified'], 'start': e['start']})
    return out


def show(trace):
    def one(e):
        if isinstance(e, str):
            return e
        e = dict(e)
        if 'ns' in e:
            e['ns'] = C.w2s(e['ns'])
        if 'nss' in e:
            e['nss'] = [C.w2s(n) for n in e['nss']]
        return e
    return [one(e) for e in trace]


# ------------------------------------------------------------------------------------------------
# the property oracle (the statement, evaluated on the implementation alone)

def real_value(spec, key, default):
    return spec.get(key, default)


def oracle(sc, obs):
    """-> (violations: [text], known: [(signature, text)])"""
    bad, known = [], []
    failed_before = False          # an earlier effort of this client ended by give-up or abort
    for si, st in enumerate(obs['steps']):
        if st['kind'] in ('nsend', 'app'):
            # the server ending one namespace of several, or the application using the connection, is
            # not a loss of the connection: nothing is retried, the client stays connected
            what = 'the server ended namespace %s, others stay connected' % st['ns'] if st['kind'] == 'nsend' \
                else 'application step %s' % st['what']
            if st['started'] or st['eio'] or any(
                    isinstance(e, dict) and ('wait' in e or 'attempt' in e or 'notified' in e) for e in st['trace']):
                bad.append('step %d (%s): a reconnection effort / connection attempt was made although the '
                           'connection was not lost' % (si, what))
            if not st['connected_after']:
                bad.append('step %d (%s): the client is not connected any more' % (si, what))
            continue
        if st['kind'] != 'lose':
            continue
        where = 'step %d (%s)' % (si, st['cause'])
        sbad, sknown, failed = oracle_step(sc, st, where, failed_before)
        failed_before = failed_before or failed
        bad += sbad
        known += [(KNOWN_SIG, k) for k in sknown]
    return bad, known


def oracle_step(sc, st, where, failed_before):
    """the statement on one loss -> (violations, known-finding-1 texts, this effort failed)"""
    bad, known = [], []
    cfg = sc['cfg']
    N = cfg['attempts']
    failed = False
    if True:
        tr = st['trace']
        idx, nss, spec_i = st['stored']
        spec = sc['params'][spec_i]
        accidental = st['cause'] == 'transportError'
        # --- when an effort starts
        if st['started'] > 1 or st['max_concurrent'] > 1:
            bad.append('%s: more than one reconnection effort at a time' % where)
        if st['started'] and not accidental:
            bad.append('%s: reconnects although the loss was asked for (%s)' % (where, st['cause']))
        if st['started'] and not cfg['reconnection']:
            bad.append('%s: reconnects although reconnection is disabled' % where)
        if accidental and cfg['reconnection'] and not st['started']:
            msg = ('%s: reconnection enabled, transport lost accidentally, no effort in flight - and no '
                   'effort is started' % where)
            if failed_before:
                known.append(msg + ' (an earlier effort of this client ended by give-up/abort)')
            else:
                bad.append(msg)
        if not st['started']:
            if any(isinstance(e, dict) and ('wait' in e or 'attempt' in e) for e in tr):
                bad.append('%s: waits/attempts without an effort' % where)
            return bad, known, failed
        # --- the effort
        seq = [e for e in tr if isinstance(e, dict) and ('wait' in e or 'attempt' in e)]
        waits = [e['wait'] for e in seq if 'wait' in e]
        atts = [e for e in seq if 'attempt' in e]
        kinds = ''.join('w' if 'wait' in e else 'a' for e in seq)
        aborted = st['abort_at'] is not None and len(waits) > st['abort_at']
        want = 'wa' * len(atts) + ('w' if aborted else '')
        if kinds != want:
            bad.append('%s: waits and attempts do not alternate as wait,attempt,…: %s' % (where, kinds))
        for k, wv in enumerate(waits):
            if k >= len(st['rands']):
                bad.append('%s: more waits than the scenario allows' % where)
                break
            base, exact = delay_of(cfg, k, st['rands'][k])
            if abs(wv - base) > F(cfg['rf']):
                bad.append('%s: wait %d is %s, more than rf=%s away from min(d*2^%d, dmax)=%s'
                           % (where, k + 1, wv, cfg['rf'], k, base))
            elif wv != exact:
                bad.append('%s: wait %d is %s, expected %s = %s + %s*(2*%s-1)'
                           % (where, k + 1, wv, exact, base, cfg['rf'], st['rands'][k]))
        if N and len(atts) > N:
            bad.append('%s: %d attempts with reconnection_attempts=%d' % (where, len(atts), N))
        results = [a.get('result') for a in atts]
        if 'ok' in results[:-1]:
            bad.append('%s: an attempt was made after a successful one' % where)
        succeeded = bool(results) and results[-1] == 'ok'
        if succeeded != st['connected_after']:
            bad.append('%s: connected=%s after an effort whose last attempt %s'
                       % (where, st['connected_after'], 'succeeded' if succeeded else 'failed'))
        if aborted:
            if len(atts) != st['abort_at']:
                bad.append('%s: abort during wait %d, but %d attempts were made'
                           % (where, st['abort_at'] + 1, len(atts)))
        elif not succeeded:
            if not N:
                bad.append('%s: the effort ended without success or abort although attempts are unlimited'
                           % where)
            elif len(atts) != N:
                bad.append('%s: gave up after %d attempts, limit %d' % (where, len(atts), N))
        # the scripted outcomes say which attempts should succeed
        for k, a in enumerate(atts):
            if k < len(st['outs']):
                o = st['outs'][k]
                should = (not isinstance(o, str)) and all(
                    (o[1][i] if i < len(o[1]) else True) for i in range(len(nss)))
                if should != (a.get('result') == 'ok'):
                    bad.append('%s: attempt %d %s although the server %s' % (
                        where, k + 1, 'failed' if should else 'succeeded',
                        'accepted everything' if should else 'did not'))
        # --- same parameters
        for k, a in enumerate(atts):
            if a['attempt'] != idx:
                bad.append('%s: attempt %d not called with the stored url/headers/auth/transports/path'
                           % (where, k + 1))
            if canon_ns(a) != nss or a['nss_arg'] is None:
                bad.append('%s: attempt %d called with namespaces %r, stored %r'
                           % (where, k + 1, a['nss_arg'], nss))
            if a.get('retry'):
                bad.append('%s: attempt %d called with retry=True' % (where, k + 1))
        tp = spec.get('transports')
        want_tp = ['polling', 'websocket'] if not tp else ([tp] if isinstance(tp, str) else list(tp))
        for rec in st['eio']:
            if rec['url'] != spec['url'] or rec['headers'] != spec.get('headers', {}) or \
                    rec['transports'] != want_tp or rec['path'] != spec.get('socketio_path', 'socket.io'):
                bad.append('%s: the transport was asked for %r' % (where, {k: rec[k] for k in
                                                                          ('url', 'headers', 'transports', 'path')}))
            want_ns = nss if rec['outcome'] != 'L' else nss[:1]
            if [c[0] for c in rec['connects']] != want_ns and rec['outcome'] != 'T':
                bad.append('%s: CONNECT sent for %r, stored namespaces %r' % (
                    where, [c[0] for c in rec['connects']], nss))
            for c in rec['connects']:
                if c[1] != (spec.get('auth') or {}):
                    bad.append('%s: CONNECT carries auth %r, stored %r' % (where, c[1], spec.get('auth')))
        # --- handlers
        if succeeded:
            last = max(i for i, e in enumerate(tr) if isinstance(e, dict) and 'attempt' in e)
            again = [e['ns'] for e in tr[last:] if isinstance(e, dict) and e.get('h') == 'connect']
            if again != nss:
                bad.append('%s: after the successful attempt the connect handlers ran for %r, namespaces %r'
                           % (where, again, nss))
        else:
            fin = [e['ns'] for e in tr if isinstance(e, dict) and e.get('h') == '__disconnect_final']
            if fin != nss:
                bad.append('%s: effort ended without success, __disconnect_final ran for %r, namespaces %r'
                           % (where, fin, nss))
            failed = True
        # --- bookkeeping
        if not all(st['in_list_at_wait']):
            bad.append('%s: client not in reconnecting_clients during a back-off wait' % where)
        if st['in_list_after']:
            bad.append('%s: client still in reconnecting_clients after the effort' % where)
        if succeeded and st['task_after']:
            bad.append('%s: _reconnect_task still set after a successful effort' % where)
    return bad, known, failed


def region_cut(sc, obs):
    """number of leading steps whose trace is compared with the model: up to and including the
    first effort that ends by give-up or abort (the rest is the region of the known finding)"""
    for i, st in enumerate(obs['steps']):
        if st['kind'] == 'lose' and st['started'] and not st['connected_after']:
            return i + 1
    return len(obs['steps'])


# ------------------------------------------------------------------------------------------------

def check_scenario(ctx, sc, obs, ans, cut):
    """-> True when everything agrees"""
    bad, known = oracle(sc, obs)
    ok = True
    for sig, k in known:
        ctx.known(sig, k + ' — e.g. %s cfg=%s steps=%s' % (sc['mode'], json.dumps(sc['cfg']),
                                                          json.dumps(sc['steps'])))
        ctx.count('known.' + sig)
    for b in bad:
        ok = False
        ctx.violation('oracle', b, {'scenario': sc, 'impl_trace': show(canon_impl(
            [e for s in obs['steps'] for e in s['trace']]))})
    impl = canon_impl([e for s in obs['steps'][:cut] for e in s['trace']])
    if 'inapplicable' in ans:
        model = None
    else:
        model = ans['events']
    p_end = obs['steps'][cut]['p0'] if cut < len(obs['steps']) else None
    problems = obs.get('problems', [])[:p_end]
    if problems or model != impl:
        ok = False
        first = None
        if model is not None:
            for i, (a, b) in enumerate(itertools.zip_longest(impl, model)):
                if a != b:
                    first = {'index': i, 'impl': show([a])[0] if a is not None else None,
                             'model': show([b])[0] if b is not None else None}
                    break
        ctx.violation('correspondence',
                      'trace of the real %s differs from Sio.Reconnect.run (C10.* no longer tied): %s %s'
                      % ('AsyncClient' if sc['mode'] == 'asyncio' else 'Client', first, problems or ''),
                      {'scenario': sc, 'first_difference': first, 'problems': problems,
                       'impl_trace': show(impl), 'model_trace': show(model) if model is not None else None},
                      no_input=not bad)
    return ok


def model_line(sc, obs, cut):
    n_inputs = obs['steps'][cut - 1]['mi'] if 0 < cut <= len(obs['steps']) else 0
    return {'op': 'run', 'cfg': {k: sc['cfg'][k] for k in ('reconnection', 'attempts', 'delay', 'delayMax', 'rf')},
            'inputs': obs['model_inputs'][:n_inputs]}


def contract_probe(ctx):
    """engine.io's contract, measured through engine.io's own code paths: `eio.state` while the
    disconnect notification runs, per cause and family."""
    res = {}
    for mode in ('threading', 'asyncio'):
        for cause in CAUSES:
            sc = scenario(mode, {'reconnection': False, 'attempts': 0, 'delay': '1', 'delayMax': '5',
                                 'rf': '0', 'kind': 'int'},
                          [{'url': 'http://h', 'namespaces': ['/']}],
                          [['connect', 0], ['lose', cause, [], [], None, 'shutdown']], 'contract')
            obs = run_impl(sc)
            st = [e for e in obs['steps'][1]['trace'] if isinstance(e, dict) and 'notified' in e]
            res['%s/%s' % (mode, cause)] = [(e['notified'], e['reason']) for e in st]
            want = 'connected' if cause == 'transportError' else 'disconnecting'
            if [e['notified'] for e in st] != [want]:
                ctx.violation('correspondence',
                              'engine.io contract: eio.state during the %s notification is %r, the model '
                              'assumes %r' % (cause, [e['notified'] for e in st], want),
                              {'scenario': sc}, no_input=True)
    return res


def run(ctx):
    C.proof_step(ctx, [
        'python-engineio client: connect()/disconnect()/_receive_packet(CLOSE)/tail of _read_loop_polling/'
        '_trigger_event/_reset are the real ones; _connect_polling, _connect_websocket, _send_packet, '
        '_send_request (and, for threads, start_background_task/create_event) are scripted',
        'CPython float arithmetic is exact on the generated grid (dyadic delays, caps, factors and '
        'random() values k/8; doubling up to 2^40): observed timeouts are compared as exact rationals',
        'threading.Event.wait / asyncio.wait_for treat a timeout <= 0 as "do not wait"'])
    # the constructor defaults and engine.io's reason strings are the ones of the source as it is now
    C.audit_extra(ctx, 'GlueReconnect', ['reconnect_defaults', 'default_waits_bounded', 'reason_strings'])
    if ctx.thorough:
        ok, out = C.leanchecker(['Sio.Props.C10'])
        ctx.coverage['leanchecker'] = 'ok' if ok else out
        if not ok:
            ctx.violation('proof', 'leanchecker rejects Sio.Props.C10: ' + out, {'theorem_or_build': out},
                          no_input=True)
    from .. import world_reconnect as W
    try:
        contract = contract_probe(ctx)
        scs = gen_scenarios(ctx)
        results = []
        hangs = 0
        for sc in scs:
            obs = run_impl(sc)
            if any('hang' in p for p in obs.get('problems', [])):
                # the hang detector is wall-clock (the only one in this check): on a loaded machine a thread may
                # simply not have been scheduled in time — re-run the scenario once with a generous limit before
                # believing it
                saved = W.HANG_S
                W.HANG_S = 90
                try:
                    obs = run_impl(sc)
                finally:
                    W.HANG_S = saved
                ctx.count('hang_retried')
            if obs['skipped']:
                ctx.count('skipped.' + obs['skipped'])
            results.append(obs)
            hangs += any('hang' in p for p in obs.get('problems', []))
            if hangs >= 3:
                # an implementation whose efforts do not end: stop here, what was seen is reported
                ctx.notes.append('stopped after %d scenarios: efforts hang' % len(results))
                scs = scs[:len(results)]
                break
    finally:
        W.uninstall()
    # the effort function entered several times on one client object (state carried between invocations)
    from . import c10_reentry
    c10_reentry.run(ctx)
    cuts = [region_cut(sc, o) for sc, o in zip(scs, results)]
    answers = C.batch('reconnect', [model_line(sc, o, cut) for sc, o, cut in zip(scs, results, cuts)])
    nontrivial = set()
    samples = []
    n_attempts = 0
    n_losses = 0
    for sc, obs, ans, cut in zip(scs, results, answers, cuts):
        ctx.count('scenario.' + sc['tag'])
        if sc['tag'] == 'very-long-outage':
            ctx.count('very_long_outage.%s.%s_delay.%s' % (sc['mode'], sc['cfg']['kind'],
                                                           'limit_above_length' if sc['cfg']['attempts'] else 'no_limit'))
            ctx.coverage['longest_effort_attempts'] = max(
                ctx.coverage.get('longest_effort_attempts', 0), max(len(st[2]) for st in sc['steps'] if st[0] == 'lose'))
        ctx.count('mode.' + sc['mode'])
        ok = check_scenario(ctx, sc, obs, ans, cut)
        # model's own view of the region must agree with the harness's
        if 'clean' in ans and cut == len(obs['steps']) and not ans['clean'] and \
                not any(s['kind'] == 'lose' and s['started'] and not s['connected_after'] for s in obs['steps']):
            ctx.violation('correspondence', 'model and harness disagree on the known-finding region',
                          {'scenario': sc}, no_input=True)
        for st in obs['steps']:
            if st['kind'] == 'nsend':
                ctx.count('life.namespace_ended_by_server_others_stay')
            elif st['kind'] == 'app':
                ctx.count('life.application.' + st['what'])
            elif st['kind'] == 'connect' and st.get('opts'):
                ctx.count('life.connect_nowait' + ('.namespaces_refused' if st['opts']['refuse'] else ''))
            if st['kind'] != 'lose':
                continue
            ctx.count('cause.' + st['cause'])
            n_losses += 1
            if st['started'] and st['live_before'] != sorted(st['stored'][1]):
                ctx.count('effort.started_while_connected_on_fewer_namespaces_than_connect_was_given')
                if len(st['stored'][1]) >= 3:
                    nontrivial.add(json.dumps([sc['mode'], sc['cfg'], sc['steps']]))
            if st['started']:
                na = sum(1 for e in st['trace'] if isinstance(e, dict) and 'attempt' in e)
                n_attempts += na
                end = 'connected' if st['connected_after'] else (
                    'aborted' if st['abort_at'] is not None and na == st['abort_at'] else 'gaveUp')
                ctx.count('effort.' + end)
                for o in st['outs'][:na]:
                    ctx.count('outcome.' + (o if isinstance(o, str) else ('served' if all(o[1]) else 'refused')))
                ws = [e['wait'] for e in st['trace'] if isinstance(e, dict) and 'wait' in e]
                if any(x < 0 for x in ws):
                    ctx.count('wait.negative')
                if any(x == F(sc['cfg']['delayMax']) + F(sc['cfg']['rf']) * (2 * F(r) - 1)
                       and F(sc['cfg']['delay']) * 2 ** k > F(sc['cfg']['delayMax'])
                       for k, (x, r) in enumerate(zip(ws, st['rands']))):
                    ctx.count('wait.capped')
                if na >= 2 or st['abort_at'] is not None:
                    nontrivial.add(json.dumps([sc['mode'], sc['cfg'], st['outs'], st['rands'], st['abort_at']]))
            else:
                ctx.count('effort.none')
        if ok and len(samples) < 4 and sc['tag'] in ('pattern<=6', 'abort', 'params') and len(sc['steps']) > 2:
            samples.append({'scenario': sc, 'trace': show(canon_impl(
                [e for s in obs['steps'] for e in s['trace']]))[:40]})
    ctx.coverage.update({
        'evaluations': n_losses, 'scenarios': len(scs), 'distinct_nontrivial': len(nontrivial),
        'rule': 'scenario = real Client/AsyncClient driven through connect / loss (4 causes) / scripted effort '
                '(every fail/succeed pattern up to length 6 exhaustively, sampled up to 40, failures being '
                'transport refusals, namespace refusals (CONNECT_ERROR, partial or total) or a loss inside the '
                'attempt; abort at every back-off wait by shutdown() or the abort flag; full grid of '
                'delay x max x factor x limit; reconnection on/off; several connects with different parameters; '
                'a few very long outages (>= 1100 consecutive failed attempts then a success, float and int '
                'configurations, no limit / limit above the length, both clients); '
                'connections on 2-3 namespaces (given, or derived from the handlers by namespaces=None) on which, between '
                'connect() and the loss, the server refuses some namespaces (connect(wait=False)) or ends them one by '
                'one (DISCONNECT packet) and the application emits / registers a handler for a new namespace: the '
                'attempts must carry what connect() was given, the values the application passed being kept apart '
                'from the objects handed to the library). '
                'evaluation = one loss of the connection (decision + the effort it starts, if any); '
                'non-trivial = distinct (family, configuration, effort script) with >= 2 attempts or an abort',
        'attempts_observed': n_attempts,
        'engineio_contract_measured': contract,
        'samples': samples, 'traces_validated_against_impl': len(scs),
    })
    ctx.assumptions += [
        'time is observed through the wait primitives: the timeout handed to the abort event\'s wait '
        '(threads: scripted event; asyncio: real asyncio.Event + real wait_for on a virtual clock)',
        'random.random is the scripted sequence bound to the name `random` of the two client modules',
        'abort is realised three ways: the real shutdown() called while the effort is parked inside the wait '
        '(on asyncio only at waits whose timeout is > 0: a wait_for with a timeout <= 0 does not block), the '
        'abort flag set the way the SIGINT handler does, and the flag set just before the wait is entered '
        '(any timeout, also <= 0)',
        'a loss between the server\'s CONNECT and the return of connect() is outside C10 (DESIGN §6 F8, C08)']


def replay(ctx, r):
    from .. import world_reconnect as W
    rc = r.get('replay', {}).get('reentry') or r.get('reentry')
    if rc:
        from . import c10_reentry
        bad = c10_reentry.run_case(rc)
        print('effort re-entry case:', json.dumps(rc))
        print('oracle:', 'violations: %s' % bad if bad else 'holds')
        return 1 if bad else 0
    sc = r.get('replay', {}).get('scenario') or r.get('scenario')
    if not sc:
        print(json.dumps(r, indent=1))
        return 0
    try:
        obs = run_impl(sc)
    finally:
        W.uninstall()
    cut = region_cut(sc, obs)
    ans = C.batch('reconnect', [model_line(sc, obs, cut)])[0]
    print('scenario:', json.dumps(sc))
    print('implementation trace:')
    for e in show(canon_impl([e for s in obs['steps'] for e in s['trace']])):
        print('   ', e)
    print('model trace (first %d steps):' % cut)
    for e in show(ans.get('events', [])):
        print('   ', e)
    bad, known = oracle(sc, obs)
    print('oracle:', 'violations: %s' % bad if bad else 'holds', '| known finding: %s' % known if known else '')
    print('problems:', obs.get('problems'))
    return 1 if bad else 0
