"""C06, deliveries that overlap a running callback.

"At most once" must also hold when a duplicate ACK (same client, same id) is delivered while the first
invocation of the callback is still inside the application's function: on the threaded server two POSTs of one
polling client are served by two threads, on the asyncio server a coroutine callback that awaits lets the
next message in.  The schedule explored here is the one in which the second delivery runs completely while
the first invocation is in the callback body: the callback itself hands the duplicate to the real transport
object (`Socket.receive`), which is that interleaving seen from one thread / one task.  Oracle = the statement:
every callback is entered at most once, with the arguments of the ACK that was delivered first, and an ACK
with the same id NUMBER from another client reaches that other client's callback only.
Real `socketio.Server` / `AsyncServer` on the in-memory engine.io of `harness/world.py`; nothing sleeps.
"""
import re

from engineio import packet as eio_packet

from .. import world as W


def _connect(w, tid):
    w.open(tid)
    w.recv(tid, '0')
    w.settle()
    w.sent(tid)
    return w.sio.manager.sid_from_eio_sid(tid, '/')


def _emit_id(w, tid, sid, cb, tag):
    w.api('emit', 'ev', {'k': tag}, to=sid, callback=cb)
    w.settle()
    ids = [m.group(1) for f in w.sent(tid) if isinstance(f, str) for m in [re.match(r'^2(\d+)\[', f)] if m]
    return int(ids[-1]) if ids else None


def gen_case(rng):
    n = rng.randint(1, 3)
    return {'mode': rng.choice(['threading', 'asyncio']), 'clients': n,
            'warm': [rng.randint(0, 2) for _ in range(n)],      # acknowledged emits before, to move the ids apart
            'target': rng.randrange(n),
            'dups': rng.randint(1, 2),
            'other_same_number': rng.random() < 0.5,
            'coroutine_cb': rng.random() < 0.6}


def run_case(case):
    """-> list of failures (strings)"""
    w = W.ServerWorld(case['mode'])
    bad = []
    try:
        tids = ['T%d' % i for i in range(case['clients'])]
        sids = [_connect(w, t) for t in tids]
        for t, s, k in zip(tids, sids, case['warm']):
            for j in range(k):
                i = _emit_id(w, t, s, lambda *a: None, 'warm')
                w.recv(t, '3%d[]' % i)
                w.settle()
        tt, ts = tids[case['target']], sids[case['target']]
        entered = {}        # name -> list of argument tuples

        def deliver_inside(frames):
            # the second delivery, completely inside the first invocation
            pkts = [(tid, eio_packet.Packet(eio_packet.MESSAGE, data)) for (tid, data) in frames]
            if case['mode'] == 'asyncio':
                return [w.socks[tid].receive(pkt) for (tid, pkt) in pkts]      # coroutines, awaited by the callback
            for (tid, pkt) in pkts:
                w.socks[tid].receive(pkt)
            return []

        inside = []         # filled once the ids are known

        def mk(name, reenter):
            if case['mode'] == 'asyncio' and case['coroutine_cb']:
                async def cb(*args):
                    entered.setdefault(name, []).append(args)
                    if reenter and len(entered[name]) == 1:
                        for co in deliver_inside(inside):
                            await co
                return cb

            def cb(*args):
                entered.setdefault(name, []).append(args)
                if reenter and len(entered[name]) == 1 and case['mode'] == 'threading':
                    deliver_inside(inside)
            return cb

        i_main = _emit_id(w, tt, ts, mk('main', True), 'main')
        if i_main is None:
            return ['no EVENT with an id was sent for an emit with a callback']
        inside += [(tt, '3%d["dup%d"]' % (i_main, d)) for d in range(case['dups'])]
        other = None
        if case['other_same_number'] and case['clients'] > 1:
            o = (case['target'] + 1) % case['clients']
            # bring the other client's next id to the same number if it is behind
            for _ in range(8):
                i_o = _emit_id(w, tids[o], sids[o], mk('other', False), 'other')
                if i_o is None or i_o >= i_main:
                    break
                w.recv(tids[o], '3%d["x"]' % i_o)
                w.settle()
                entered.pop('other', None)
            if i_o == i_main:
                other = o
                inside.append((tids[o], '3%d["theirs"]' % i_o))
        w.recv(tt, '3%d["first"]' % i_main)
        w.settle()
        w.recv(tt, '3%d["late"]' % i_main)          # and a sequential duplicate afterwards
        w.settle()
        got = entered.get('main', [])
        if len(got) != 1:
            bad.append('callback of emit id %d entered %d times with %r; ACK deliveries: first, then %d duplicate(s) '
                       'while the first invocation was running, then one more' % (i_main, len(got), got, case['dups']))
        elif got[0] != ('first',):
            bad.append('callback entered with %r, the first ACK delivered carried ("first",)' % (got[0],))
        if other is not None and case['mode'] == 'threading' or (other is not None and case['coroutine_cb']):
            if entered.get('other', []) != [('theirs',)]:
                bad.append('ACK with the same id number from another client: its own callback entered %r, expected once '
                           'with ("theirs",)' % (entered.get('other', []),))
        if w.escaped:
            bad.append('escaped: %r' % (w.escaped,))
    finally:
        w.close()
    return bad


def run(ctx):
    n = ctx.scale(150, 3000)
    done = 0
    for _ in range(n):
        case = gen_case(ctx.rng)
        bad = run_case(case)
        done += 1
        ctx.count('overlap.%s.%s' % (case['mode'], 'coro' if case['coroutine_cb'] and case['mode'] == 'asyncio' else 'fn'))
        if bad:
            ctx.violation('oracle', 'C06 overlapping deliveries: ' + bad[0], {'overlap': case, 'failures': bad})
            break
    ctx.coverage['overlapping_delivery_cases'] = done
    ctx.assumptions.append(
        'overlapping deliveries: the schedule in which a duplicate ACK is processed completely while the first invocation '
        'of the callback is inside the application function is produced by the callback handing the duplicate to the real '
        'transport object (threads: plain call; asyncio: coroutine callbacks that await it); other overlaps of two '
        'deliveries inside trigger_callback itself are not explored')
