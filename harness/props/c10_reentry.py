"""C10, the effort function re-entered on ONE client object.

`Sio.Reconnect.reconnect` is the transcription of `_handle_reconnect`; `Sio.C10.delay` says that the
(k+1)-th wait of EVERY invocation is `min(delay·2^k, delay_max) + rf·(2·random − 1)` with k counted
from the start of that invocation.  Through the public path a second effort after a failed one is masked on
this tree by the known finding `stale-reconnect-task` (no effort starts), so the scenario families of
`c10.py` cannot see state that the effort function carries from one invocation to the next.  This probe
invokes the real `_handle_reconnect` of one `Client` / `AsyncClient` object several times in a row (the way
the library's own unit tests enter it), each invocation with its own outcome script, random stream and
abort point, and compares the timeouts handed to the wait primitive, the number of `connect()` calls and how
the invocation ended with the closed form proved in Lean.  The wait primitive, `connect()` and `random()`
are scripted; nothing sleeps.
"""
import asyncio
import random as _random
from fractions import Fraction as F
from unittest import mock

import socketio
from socketio import exceptions


class _Abort:
    """the abort event of the threaded client, scripted: wait(t) records t and answers the flag"""

    def __init__(self, waits, abort_at):
        self.waits, self.abort_at, self.flag = waits, abort_at, False

    def clear(self):
        self.flag = False

    def set(self):
        self.flag = True

    def is_set(self):
        return self.flag

    def wait(self, timeout=None):
        self.waits.append(timeout)
        if self.abort_at is not None and len(self.waits) - 1 == self.abort_at:
            self.flag = True
        return self.flag


def _expected(cfg, outs, rands, abort_at):
    """closed form (Sio.C10.delay, attempts_bounded, stops_at_first_success, abort_stops)"""
    d, m, f, n = F(cfg['delay']), F(cfg['delayMax']), F(cfg['rf']), cfg['attempts']
    waits, attempts, final = [], 0, None
    k = 0
    while True:
        waits.append(min(d * 2 ** k, m) + f * (2 * F(rands[k]) - 1))
        if abort_at is not None and k == abort_at:
            final = 'aborted'
            break
        attempts += 1
        if outs[k]:
            final = 'connected'
            break
        if n and attempts >= n:
            final = 'gaveUp'
            break
        k += 1
    return waits, attempts, final


def _effort_sync(c, cfg, outs, rands, abort_at):
    waits = []
    rs = iter(float(F(r)) for r in rands)
    c._reconnect_abort = _Abort(waits, abort_at)
    calls = []

    def connect(*a, **kw):
        calls.append(1)
        if not outs[len(calls) - 1]:
            raise exceptions.ConnectionError('scripted')
    finals = []
    with mock.patch.object(c, 'connect', connect), \
            mock.patch.object(c, '_trigger_event', lambda ev, namespace=None, *a: finals.append(ev)), \
            mock.patch('random.random', lambda: next(rs)):
        c._reconnect_task = 'task'
        c._handle_reconnect()
    return waits, len(calls), finals


async def _effort_async(c, cfg, outs, rands, abort_at):
    waits = []
    rs = iter(float(F(r)) for r in rands)
    ev = asyncio.Event()
    c._reconnect_abort = ev
    calls = []

    async def connect(*a, **kw):
        calls.append(1)
        if not outs[len(calls) - 1]:
            raise exceptions.ConnectionError('scripted')

    async def wait_for(aw, timeout):
        aw.close()
        waits.append(timeout)
        if abort_at is not None and len(waits) - 1 == abort_at:
            ev.set()
            if timeout > 0:
                return True
        raise asyncio.TimeoutError()
    finals = []

    async def trig(evn, namespace=None, *a):
        finals.append(evn)
    with mock.patch.object(c, 'connect', connect), mock.patch.object(c, '_trigger_event', trig), \
            mock.patch('random.random', lambda: next(rs)), mock.patch.object(asyncio, 'wait_for', wait_for):
        c._reconnect_task = 'task'
        await c._handle_reconnect()
    return waits, len(calls), finals


def gen_case(rng):
    cfg = {'delay': rng.choice(['0', '1/4', '1/2', '1', '2', '3']), 'delayMax': rng.choice(['1', '3', '5', '64']),
           'rf': rng.choice(['0', '0', '1/4', '1/2', '1']), 'attempts': rng.choice([0, 1, 2, 3, 5])}
    efforts = []
    for _ in range(rng.randint(2, 4)):
        L = rng.randint(1, 6)
        how = rng.choice(['connected', 'gaveUp', 'aborted', 'aborted'])
        if how == 'gaveUp' and not cfg['attempts']:
            how = 'aborted'
        if how == 'connected':
            if cfg['attempts']:
                L = min(L, cfg['attempts'])
            outs, abort_at = [False] * (L - 1) + [True], None
        elif how == 'gaveUp':
            outs, abort_at = [False] * cfg['attempts'], None
        else:
            k = rng.randint(0, (cfg['attempts'] - 1) if cfg['attempts'] else L)
            outs, abort_at = [False] * (k + 1), k
        rands = ['%d/8' % rng.randrange(8) for _ in range(len(outs) + 1)]
        efforts.append({'outs': outs, 'rands': rands, 'abort_at': abort_at})
    return {'mode': rng.choice(['threading', 'asyncio']), 'cfg': cfg, 'efforts': efforts}


def run_case(case):
    """-> list of failures (strings); [] = every invocation agrees with the closed form"""
    cfg = case['cfg']
    kw = dict(reconnection=True, reconnection_attempts=cfg['attempts'], reconnection_delay=float(F(cfg['delay'])),
              reconnection_delay_max=float(F(cfg['delayMax'])), randomization_factor=float(F(cfg['rf'])))
    bad = []
    saved = _random.random
    try:
        if case['mode'] == 'threading':
            c = socketio.Client(**kw)
            c.connection_namespaces = ['/']
            res = [_effort_sync(c, cfg, e['outs'], e['rands'], e['abort_at']) for e in case['efforts']]
        else:
            async def go():
                c = socketio.AsyncClient(**kw)
                c.connection_namespaces = ['/']
                return [await _effort_async(c, cfg, e['outs'], e['rands'], e['abort_at']) for e in case['efforts']]
            loop = asyncio.new_event_loop()
            try:
                res = loop.run_until_complete(go())
            finally:
                loop.close()
    except Exception as exc:      # noqa: the effort function itself must not raise
        return ['the effort function raised %r' % (exc,)]
    finally:
        _random.random = saved
    for i, (e, (waits, ncalls, finals)) in enumerate(zip(case['efforts'], res)):
        ew, ea, ef = _expected(cfg, e['outs'], e['rands'], e['abort_at'])
        if [F(w).limit_denominator(1 << 20) for w in waits] != ew:
            bad.append('invocation %d of the effort function on the same client: wait timeouts %r, the statement '
                       'gives %r (every effort starts from reconnection_delay)' % (i + 1, waits, [str(x) for x in ew]))
        if ncalls != ea:
            bad.append('invocation %d: %d connect() calls, expected %d' % (i + 1, ncalls, ea))
        if (ef != 'connected') != bool(finals):
            bad.append('invocation %d: ended %s but __disconnect_final ran %d times' % (i + 1, ef, len(finals)))
    return bad


def run(ctx):
    n = ctx.scale(400, 6000)
    done = 0
    for _ in range(n):
        case = gen_case(ctx.rng)
        bad = run_case(case)
        done += 1
        ctx.count('reentry.%s.efforts.%d' % (case['mode'], len(case['efforts'])))
        if bad:
            ctx.violation('oracle', 'C10 effort re-entry: ' + bad[0], {'reentry': case, 'failures': bad})
            break
    ctx.coverage['effort_reentry_cases'] = done
    ctx.assumptions.append(
        'effort re-entry probe: _handle_reconnect of one client object is entered 2-4 times in a row with scripted '
        'connect()/random()/wait primitive (through the public path a second effort after a failed one is masked by '
        'the known finding stale-reconnect-task); each invocation compared with the closed form of Sio.C10.delay')
