"""C16 — user sessions are private to one client connection and namespace (K4)."""
import copy

from .. import common as C
from .. import server_sim as S

LEVEL = 'proof'

PROFILE = {
    'weights': {'open': 2, 'connect': 8, 'client_disconnect': 4, 'event': 1, 'ack': 0, 'emit': 0, 'emit_cb': 0,
                'api_disconnect': 3, 'enter': 0, 'leave': 0, 'close': 0, 'rooms': 0, 'lost': 2, 'partial_binary': 0,
                'session': 16},
    'connect_outcomes': {'accept': 9, 'false': 1, 'refuse': 0, 'raise': 0},
    'max_transports': 3,
}

SIG = 'session-survives-namespace-reconnect'


def oracle(cfg, trace, residue):
    fails = []
    store = {}            # sid -> value saved (the specification: one private dict per session id)
    live = {}             # (tid, ns) -> sid
    hist = {}             # (tid, ns) -> session ids that stored something on this transport+namespace

    def earlier_stored(key, sid):
        return any(x != sid for x in hist.get(key, ()))
    for op, im, _ in trace:
        for tid, q in S.sent_packets(im):
            if q['type'] == 0 and isinstance(q['data'], dict):
                live[(tid, q['ns'])] = q['data']['sid']
            elif q['type'] == 1:
                live.pop((tid, q['ns']), None)
        k = op['op']
        if k == 'lost':
            for key in [x for x in live if x[0] == op['t']]:
                del live[key]
        elif k == 'frame' and op['text'][:1] == '1':
            from .. import pycodec
            try:
                p = pycodec.decode_text(op['text'])
                live.pop((op['t'], p['ns']), None)
            except Exception:   # noqa
                pass
        elif k == 'disconnect':
            for key in [x for x, v in live.items() if v == op['sid'] and x[1] == op['ns']]:
                del live[key]
        if k == 'session_nested':
            sid = op['sid']
            where = [x for x, v in live.items() if v == sid and x[1] == op['ns']]
            if where and not im['exc']:
                want = dict(store.get(sid, {}) if isinstance(store.get(sid, {}), dict) else {})
                known_region = earlier_stored(where[0], sid) and sid not in store and sid_is_new_on(where[0], sid, trace)
                want[op['k2']] = op['v2']
                want[op['k']] = op['v']
                if known_region:
                    store[sid] = copy.deepcopy(im['result'])
                else:
                    if not C.same_unordered(im['result'], want):
                        if earlier_stored(where[0], sid) and sid_is_new_on(where[0], sid, trace):
                            # the session was born with the previous session's content (known finding) and only written,
                            # never read, so far: the inherited keys show up now
                            fails.append((SIG, 'a new session id on a namespace re-connected on the same transport still '
                                               'holds the previous session: stored %r, this session wrote %r' % (im['result'], want)))
                            want = im['result']
                        else:
                            fails.append((None, 'nested session() blocks: stored %r, the two blocks wrote %r' % (im['result'], want)))
                    store[sid] = copy.deepcopy(want)
                hist.setdefault(where[0], set()).add(sid)
            continue
        if k not in ('get_session', 'save_session', 'session_block'):
            continue
        sid = op['sid']
        where = [x for x, v in live.items() if v == sid and x[1] == op['ns']]
        if not where:
            continue                 # not a live session on that namespace: only the exception class is compared
        if im['exc'] and not (k == 'session_block' and op.get('raise_inside') and im['exc'] == 'HandlerError'):
            fails.append((None, '%s on a live session raised %s' % (k, im['exc'])))
            continue
        if k == 'session_block' and op.get('raise_inside'):
            # modifications made inside the block are persisted when the block exits, also by an exception
            want = dict(store.get(sid, {}))
            want[op['k']] = op['v']
            store[sid] = copy.deepcopy(want)
            hist.setdefault(where[0], set()).add(sid)
            continue
        key = where[0]
        if k == 'save_session':
            store[sid] = copy.deepcopy(op['v'])
            hist.setdefault(key, set()).add(sid)
            continue
        want = store.get(sid, {})
        if k == 'session_block':
            want = dict(want)
            want[op['k']] = op['v']
            store[sid] = copy.deepcopy(want)
        got = im['result']
        if not C.same_unordered(got, want):
            stale = sid not in store or k == 'session_block'
            if earlier_stored(key, sid) and sid_is_new_on(key, sid, trace):
                fails.append((SIG, 'a new session id on a namespace re-connected on the same transport reads the '
                                   'previous session: got %r, a fresh session has %r' % (got, want)))
                store[sid] = copy.deepcopy(got)      # follow the implementation inside the known region
            else:
                fails.append((None, '%s(%s, %s) returned %r, the session holds %r' % (k, sid, op['ns'], got, want)))
        if k in ('get_session', 'session_block'):
            if store.get(sid):
                hist.setdefault(key, set()).add(sid)
    return fails


def sid_is_new_on(key, sid, trace):
    """was there an earlier, different session on this transport+namespace?"""
    seen = []
    for op, im, _ in trace:
        for tid, q in S.sent_packets(im):
            if q['type'] == 0 and isinstance(q['data'], dict) and (tid, q['ns']) == key:
                seen.append(q['data']['sid'])
    return sid in seen and seen.index(sid) > 0


def nontrivial(cfg, trace):
    saves = sum(1 for o, _, _ in trace if o['op'] in ('save_session', 'session_block'))
    gets = sum(1 for o, _, _ in trace if o['op'] == 'get_session')
    sids = set(o['sid'] for o, _, _ in trace if o['op'] in ('save_session', 'session_block'))
    if saves >= 2 and gets >= 2 and len(sids) >= 2:
        return hash(repr([o for o, _, _ in trace]))
    return None


def run(ctx):
    C.proof_step(ctx, ['the engine.io per-socket session dict lives exactly as long as the socket',
                       'dicts obtained from get_session() are not mutated outside session() (aliasing is not guaranteed by the docs)'])
    S.run_cases(ctx, PROFILE, ctx.scale(150, 3000), 45, oracle=oracle, nontrivial=nontrivial)
    ctx.coverage['rule'] = ('histories over connect(ns), save_session, get_session, session() blocks, namespace DISCONNECT, '
                            'disconnect(), transport loss, reconnect on the same or a new transport, for several clients and '
                            'namespaces; oracle = one private dict per session id, fresh at birth. non-trivial = >=2 writes by '
                            '>=2 sessions and >=2 reads')


def replay(ctx, r):
    return S.replay_case(ctx, r, oracle=oracle)
