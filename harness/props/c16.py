"""C16 — user sessions are private to one client connection and namespace (K4)."""
import collections
import copy

from .. import common as C
from .. import server_sim as S

LEVEL = 'proof'

PROFILE = {
    'weights': {'open': 2, 'connect': 8, 'client_disconnect': 4, 'event': 1, 'ack': 0, 'emit': 0, 'emit_cb': 0,
                'api_disconnect': 3, 'enter': 0, 'leave': 0, 'close': 0, 'rooms': 0, 'lost': 2, 'partial_binary': 0,
                'session': 16},
    'connect_outcomes': {'accept': 9, 'false': 1, 'refuse': 0, 'raise': 0},
    'max_transports': 3,
    # "private to one client connection AND namespace": session calls that pair a session id with a namespace it does
    # not belong to (the namespace argument forgotten = '/', or another namespace the same client is / was / will be
    # connected to) and calls with ids that have ended
    'stale_p': 0.22,
    # session() blocks during which save_session() is called (same session / another namespace of the client / another
    # client / a pair naming no session)
    'session_during_p': 0.2,
    # nested session() blocks whose INNER block is for another session (another namespace of the same client / another
    # client / a pair naming no session) -- share of the nested-block ops
    'session_nested_other_p': 0.5,
}

STATS = collections.Counter()      # what the oracle saw (flushed into the evidence by run())
MEASURING = [False]                # the oracle counts only when called by measure(): once per generated history


def stat(key):
    if MEASURING[0]:
        STATS[key] += 1


def measure(cfg, trace):
    """called once per generated history (never while shrinking): the oracle's own classification of the calls that
    name no live session goes into the evidence; then the non-triviality key"""
    MEASURING[0] = True
    try:
        oracle(cfg, trace, {})
    finally:
        MEASURING[0] = False
    return nontrivial(cfg, trace)

SIG = 'session-survives-namespace-reconnect'


def oracle(cfg, trace, residue):
    fails = []
    store = {}            # sid -> value saved (the specification: one private dict per session id)
    live = {}             # (tid, ns) -> sid
    hist = {}             # (tid, ns) -> session ids that stored something on this transport+namespace

    def earlier_stored(key, sid):
        return any(x != sid for x in hist.get(key, ()))
    was_live = {}         # sid -> (tid, ns) it was announced on
    ever_on = set()       # (tid, ns) that had a session at some time

    def no_such_session(op, im):
        """a session call whose (sid, namespace) pair names no live session: there is no session to hand out or to
        write to -- the call must fail (the unchanged library raises KeyError) and must have no effect; the effect
        is judged by the reads that follow, under the correct pairs, against the private-dict specification"""
        sid, ns = op['sid'], op['ns']
        cur = [x for x, v in live.items() if v == sid]
        if cur:
            t = cur[0][0]
            kind = 'live_session_wrong_namespace.' + (
                'same_client_connected_there' if (t, ns) in live else
                'same_client_was_connected_there' if (t, ns) in ever_on else 'same_client_never_connected_there')
        elif sid in was_live:
            kind = 'ended_session' + ('' if was_live[sid][1] == ns else '.other_namespace')
        else:
            kind = 'unknown_id'
        kind += '.namespace_has_clients' if any(x[1] == ns for x in live) else '.namespace_empty'
        stat('%s.%s' % (op['op'], kind))
        stat('calls')
        if im['exc'] != 'KeyError':
            fails.append((None, '%s(%s, namespace=%r) names no live session (%s: that id does not belong to that '
                                'namespace) but %s' % (op['op'], sid, ns, kind,
                                                       ('raised ' + im['exc']) if im['exc'] else
                                                       ('returned %r' % (im['result'],) if op['op'] != 'save_session'
                                                        else 'was accepted'))))
    for op, im, _ in trace:
        for tid, q in S.sent_packets(im):
            if q['type'] == 0 and isinstance(q['data'], dict):
                live[(tid, q['ns'])] = q['data']['sid']
                was_live.setdefault(q['data']['sid'], (tid, q['ns']))
                ever_on.add((tid, q['ns']))
            elif q['type'] == 1:
                live.pop((tid, q['ns']), None)
        k = op['op']
        if k == 'lost':
            for key in [x for x in live if x[0] == op['t']]:
                del live[key]
        elif k == 'frame' and op['text'][:1] == '1':
            from .. import pycodec
            try:
                p = pycodec.decode_text(op['text'])
                live.pop((op['t'], p['ns']), None)
            except Exception:   # noqa
                pass
        elif k == 'disconnect':
            for key in [x for x, v in live.items() if v == op['sid'] and x[1] == op['ns']]:
                del live[key]
        if k == 'session_nested' and S._nested_other(op):
            # two session() blocks open at the same time for two DIFFERENT sessions (the inner one entered while the
            # outer one is open): each block works on the dict of ITS OWN (sid, namespace) and stores it at its exit --
            # afterwards each session holds what it held at entry plus its own block's modifications, nothing of the other's
            sid, isid, ins = op['sid'], op['inner']['sid'], op['inner']['ns']
            where = [x for x, v in live.items() if v == sid and x[1] == op['ns']]
            if not where:
                no_such_session(op, im)
                continue
            iwhere = [x for x, v in live.items() if v == isid and x[1] == ins]
            variant = ('inner_names_no_session' if not iwhere else
                       'inner_is_another_namespace_of_the_same_client' if iwhere[0][0] == where[0][0] else
                       'inner_is_another_client')
            stat('nested_blocks_two_sessions.' + variant)
            stat('nested_blocks_two_sessions')
            if (im['exc'] or None) != (None if iwhere else 'KeyError'):
                fails.append((None, 'a session() block for %s [%r] entered while a session() block for %s [%r] is open (%s) '
                                    'ended with %r' % (isid, ins, sid, op['ns'], variant, im['exc'])))
                continue
            if im['exc']:
                continue          # the outer block stored its entry dict unmodified; judged by the reads that follow
            for who, s_, key, kk, vv in (('inner', isid, iwhere[0], op['k2'], op['v2']),
                                         ('outer', sid, where[0], op['k'], op['v'])):
                base = store.get(s_, {})
                want = dict(base if isinstance(base, dict) else {})
                want[kk] = vv
                got = im['result'][who]
                inherited = earlier_stored(key, s_) and sid_is_new_on(key, s_, trace)
                hist.setdefault(key, set()).add(s_)
                if not C.same_unordered(got, want):
                    if inherited:
                        fails.append((SIG, 'a new session id on a namespace re-connected on the same transport still holds '
                                           'the previous session: stored %r, this session wrote %r' % (got, want)))
                        want = got
                    else:
                        fails.append((None, 'two session() blocks open at the same time for two different sessions (%s): '
                                            'the %s block, for %s [%r], got %r at entry and set %s=%r; after both exits that '
                                            'session holds %r instead of %r (the other block, for %s, set %s=%r)'
                                      % (variant, who, s_, key[1], base, kk, vv, got, want,
                                         sid if who == 'inner' else isid,
                                         op['k'] if who == 'inner' else op['k2'], op['v'] if who == 'inner' else op['v2'])))
                store[s_] = copy.deepcopy(want)
            continue
        if k == 'session_nested':
            sid = op['sid']
            where = [x for x, v in live.items() if v == sid and x[1] == op['ns']]
            if where and not im['exc']:
                want = dict(store.get(sid, {}) if isinstance(store.get(sid, {}), dict) else {})
                known_region = earlier_stored(where[0], sid) and sid not in store and sid_is_new_on(where[0], sid, trace)
                want[op['k2']] = op['v2']
                want[op['k']] = op['v']
                if known_region:
                    store[sid] = copy.deepcopy(im['result'])
                else:
                    if not C.same_unordered(im['result'], want):
                        if earlier_stored(where[0], sid) and sid_is_new_on(where[0], sid, trace):
                            # the session was born with the previous session's content (known finding) and only written,
                            # never read, so far: the inherited keys show up now
                            fails.append((SIG, 'a new session id on a namespace re-connected on the same transport still '
                                               'holds the previous session: stored %r, this session wrote %r' % (im['result'], want)))
                            want = im['result']
                        else:
                            fails.append((None, 'nested session() blocks: stored %r, the two blocks wrote %r' % (im['result'], want)))
                    store[sid] = copy.deepcopy(want)
                hist.setdefault(where[0], set()).add(sid)
            elif not where:
                no_such_session(op, im)
            continue
        if k == 'session_block_save':
            # "modifications made inside the session() context manager are persisted when the block exits": the block
            # works on the dict it got at entry (E); whatever is saved meanwhile -- for this session, for another
            # session of the same client, for another client -- the exit stores E with the block's modifications, and
            # the other sessions hold exactly what was saved for them
            sid, tgt = op['sid'], op['save']
            where = [x for x, v in live.items() if v == sid and x[1] == op['ns']]
            if not where:
                no_such_session(op, im)
                continue
            twhere = [x for x, v in live.items() if v == tgt['sid'] and x[1] == tgt['ns']]
            same = bool(twhere) and twhere[0] == where[0]
            variant = ('same_session' if same else 'no_such_session' if not twhere else
                       'other_namespace_of_the_same_client' if twhere[0][0] == where[0][0] else 'another_client')
            stat('block_with_save_inside.' + variant)
            stat('blocks_with_save_inside')
            base = store.get(sid, {})
            want = dict(base if isinstance(base, dict) else {})
            if 'k0' in op:
                want[op['k0']] = op['v0']
            if twhere:
                want[op['k']] = op['v']
                if not same:
                    store[tgt['sid']] = copy.deepcopy(tgt['v'])
                    hist.setdefault(twhere[0], set()).add(tgt['sid'])
            inherited = earlier_stored(where[0], sid) and sid_is_new_on(where[0], sid, trace)
            hist.setdefault(where[0], set()).add(sid)
            if (im['exc'] or None) != (None if twhere else 'KeyError'):
                fails.append((None, 'a session() block on a live session in which save_session(%s, namespace=%r) [%s] was '
                                    'called ended with %r' % (tgt['sid'], tgt['ns'], variant, im['exc'])))
                store[sid] = copy.deepcopy(want)
                continue
            if im['exc']:
                store[sid] = copy.deepcopy(want)       # judged by the reads that follow
                continue
            if not C.same_unordered(im['result'], want):
                if inherited and sid not in store:
                    fails.append((SIG, 'a new session id on a namespace re-connected on the same transport still holds '
                                       'the previous session: stored %r, this session wrote %r' % (im['result'], want)))
                    want = im['result']
                else:
                    fails.append((None, 'modifications made inside a session() block were not persisted when the block '
                                        'exited: the block got %r at entry, set %s, and save_session(%s, %r, namespace=%r) '
                                        '[%s] was called while it was open; after the exit the session holds %r instead '
                                        'of %r' % (base, ', '.join('%s=%r' % kv for kv in (
                                            [(op['k0'], op['v0'])] if 'k0' in op else []) + [(op['k'], op['v'])]),
                                            tgt['sid'], tgt['v'], tgt['ns'], variant, im['result'], want)))
            store[sid] = copy.deepcopy(want)
            continue
        if k not in ('get_session', 'save_session', 'session_block'):
            continue
        sid = op['sid']
        where = [x for x, v in live.items() if v == sid and x[1] == op['ns']]
        if not where:
            no_such_session(op, im)
            continue
        if op.get('_after_stale'):
            stat('read_of_the_session_born_after_a_mismatched_call')
            if not (earlier_stored(where[0], sid) and sid_is_new_on(where[0], sid, trace)):
                stat('read_of_the_session_born_after_a_mismatched_call.namespace_new_to_the_client')
        if im['exc'] and not (k == 'session_block' and op.get('raise_inside') and im['exc'] == 'HandlerError'):
            fails.append((None, '%s on a live session raised %s' % (k, im['exc'])))
            continue
        if k == 'session_block' and op.get('raise_inside'):
            # modifications made inside the block are persisted when the block exits, also by an exception
            want = dict(store.get(sid, {}))
            want[op['k']] = op['v']
            store[sid] = copy.deepcopy(want)
            hist.setdefault(where[0], set()).add(sid)
            continue
        key = where[0]
        if k == 'save_session':
            store[sid] = copy.deepcopy(op['v'])
            hist.setdefault(key, set()).add(sid)
            continue
        want = store.get(sid, {})
        if k == 'session_block':
            want = dict(want)
            want[op['k']] = op['v']
            store[sid] = copy.deepcopy(want)
        got = im['result']
        if not C.same_unordered(got, want):
            stale = sid not in store or k == 'session_block'
            if earlier_stored(key, sid) and sid_is_new_on(key, sid, trace):
                fails.append((SIG, 'a new session id on a namespace re-connected on the same transport reads the '
                                   'previous session: got %r, a fresh session has %r' % (got, want)))
                store[sid] = copy.deepcopy(got)      # follow the implementation inside the known region
            else:
                fails.append((None, '%s(%s, %s) returned %r, the session holds %r' % (k, sid, op['ns'], got, want)))
        if k in ('get_session', 'session_block'):
            if store.get(sid):
                hist.setdefault(key, set()).add(sid)
    return fails


def sid_is_new_on(key, sid, trace):
    """was there an earlier, different session on this transport+namespace?"""
    seen = []
    for op, im, _ in trace:
        for tid, q in S.sent_packets(im):
            if q['type'] == 0 and isinstance(q['data'], dict) and (tid, q['ns']) == key:
                seen.append(q['data']['sid'])
    return sid in seen and seen.index(sid) > 0


def nontrivial(cfg, trace):
    writes = ('save_session', 'session_block', 'session_block_save', 'session_nested')
    saves = sum(1 for o, _, _ in trace if o['op'] in writes)
    gets = sum(1 for o, _, _ in trace if o['op'] == 'get_session')
    sids = set(o['sid'] for o, _, _ in trace if o['op'] in writes)
    if saves >= 2 and gets >= 2 and len(sids) >= 2:
        return hash(repr([o for o, _, _ in trace]))
    return None


def run(ctx):
    C.proof_step(ctx, ['the engine.io per-socket session dict lives exactly as long as the socket',
                       'dicts obtained from get_session() are not mutated outside session() (aliasing is not guaranteed by the docs)'])
    STATS.clear()
    S.run_cases(ctx, PROFILE, ctx.scale(150, 3000), 45, oracle=oracle, nontrivial=measure)
    for k, v in sorted(STATS.items()):
        ctx.count(k if k.startswith(('block', 'nested_blocks')) else 'no_such_session.' + k, v)
    ctx.coverage['mismatched_sid_namespace_calls'] = {
        'rule': 'get_session / save_session / session() / nested session() with a (sid, namespace) pair that names no '
                'live session: a live id with another namespace ("/" = argument omitted, or one the same client is / '
                'was / is later connected to), ended ids, while the namespace has / has no clients; followed by reads '
                'under the correct pairs and, when the client connects to that namespace afterwards, of its new '
                'session.  Oracle: the call raises KeyError and has no effect (the later reads are exactly the private '
                'dict per live (sid, namespace), fresh at birth)',
        'calls': STATS['calls'],
        'live_id_other_namespace_same_client_connected_there': sum(
            v for k, v in STATS.items() if '.same_client_connected_there.' in k),
        'live_id_other_namespace_same_client_not_there_namespace_has_clients': sum(
            v for k, v in STATS.items() if ('.same_client_never_connected_there.namespace_has_clients' in k
                                            or '.same_client_was_connected_there.namespace_has_clients' in k)),
        'new_session_read_after_such_a_call': STATS['read_of_the_session_born_after_a_mismatched_call'],
        'new_session_read_after_such_a_call_outside_known_finding_region':
            STATS['read_of_the_session_born_after_a_mismatched_call.namespace_new_to_the_client'],
    }
    ctx.coverage['session_blocks_with_a_save_while_open'] = {
        'rule': 'with session(sid, ns) as s: s[k0]=..; save_session(<target>, value); s[k]=..  -- target = the same '
                'session, another namespace of the same client, another client, a pair naming no live session (the call '
                'raises inside the block). Oracle: after the exit get_session(sid, ns) is the dict obtained at entry with '
                'the block\'s modifications (the exit stores it over whatever was saved meanwhile), the other sessions '
                'hold what was saved for them; model: getSession; saveSession; saveSession(entry dict + modifications)',
        'blocks': STATS['blocks_with_save_inside'],
        'by_target': {k.split('.', 1)[1]: v for k, v in sorted(STATS.items()) if k.startswith('block_with_save_inside.')},
    }
    ctx.coverage['nested_session_blocks_for_two_sessions'] = {
        'rule': 'with session(sid, ns) as a: with session(<other>) as b: b[k2]=..; a[k]=..  -- <other> = the session of '
                'the same client on another namespace, another client\'s session, a pair naming no live session (the inner '
                'entry raises KeyError through the outer block). Oracle: after both exits each session holds what it held '
                'at entry plus its own block\'s modification, nothing of the other\'s (also judged by reads of both that '
                'follow); model: getSession/saveSession per block on its own (sid, namespace)',
        'ops': STATS['nested_blocks_two_sessions'],
        'by_inner': {k.split('.', 1)[1]: v for k, v in sorted(STATS.items()) if k.startswith('nested_blocks_two_sessions.')},
    }
    ctx.coverage['rule'] = ('histories over connect(ns), save_session, get_session, session() blocks, namespace DISCONNECT, '
                            'disconnect(), transport loss, reconnect on the same or a new transport, for several clients and '
                            'namespaces; oracle = one private dict per session id, fresh at birth. non-trivial = >=2 writes by '
                            '>=2 sessions and >=2 reads')


def replay(ctx, r):
    return S.replay_case(ctx, r, oracle=oracle)
