"""C20 — threaded server: concurrent terminations of one client (kernel `sched`, threads reading).

Level `proof`, precisely:
  * PROVED (Lean, all schedules of any length, any number of tasks): `Sio.C20.gate_serial_partial` —
    the property for every schedule in which no task opens a check…mark window on a namespace while
    another task's window on it is open (`gateSerial`);
  * MACHINE-CHECKED COUNTER-EXAMPLES to the full statement: `race_double_call`,
    `race_raise_residue`, `race_lost_swallowed_residue`, `full_statement_fails` (`decide`);
  * TIE to the code on every run: the real `socketio.Server` under the deterministic proxy scheduler
    (harness/sched_threads.py), ALL interleavings of 2 (quick) / 3 (thorough; modulo commutation of
    declared-independent accesses) terminating actions, each compared with `Sched.run false`.
The same with the server's client manager being a `PubSubManager` (in-memory subclass of harness/world_pubsub.py,
one host): `disconnect()` then goes through `PubSubManager.can_disconnect` (own `is_connected` test, local
re-submission `_handle_disconnect` -> `server.disconnect(ignore_queue=True)` for a sid it does not consider
connected: sub-steps of the model's `check`), and a further terminating action exists: `queue`, a `disconnect`
message for the sid arriving on the channel and applied by the listener thread (model task `api`).
Gate-serial schedules must satisfy the property on the implementation (else VIOLATION).
Gate-overlapping schedules that fail it with the predicted shapes are the known finding
`gate-overlap` (DESIGN §6 F6); inside that region only the oracle is evaluated.
"""
import itertools
import json

from .. import common as C

LEVEL = 'proof'

SIG = 'gate-overlap'
MAIN = ('api', 'client', 'lost')
OTHER = ('other_api', 'other_client')
# failure kinds the model predicts for overlapping gates (Sio.C20.race_*)
OVERLAP_SHAPES = {'handler-ran-more-than-once', 'KeyError-in-pre_disconnect', 'pending-residue',
                  'KeyError-swallowed-by-eio-disconnect'}


def T():
    from .. import sched_threads
    return sched_threads


def targets(actions):
    t = T()
    out = {}
    for a in actions:
        k, nss = t.MODEL_TASK[a]
        for n in nss:
            out.setdefault(n, set()).add(k)
    return out


def oracle(obs):
    """the property itself, on what the implementation did; -> list of (kind, text)"""
    fails = []
    tg = targets(obs['actions'])
    for n in (0, 1):
        calls = obs['calls'].get(n, [])
        mem, pend = obs['residue'][n]
        if n in tg:
            if len(calls) > 1:
                fails.append(('handler-ran-more-than-once', 'disconnect handler ran %d times on ns %d: %r' % (len(calls), n, calls)))
            elif len(calls) == 0:
                fails.append(('handler-never-ran', 'disconnect handler never ran on ns %d' % n))
            for k in calls:
                if k not in tg[n]:
                    fails.append(('foreign-reason', 'handler reason %r names no cause in progress on ns %d' % (k, n)))
            if mem:
                fails.append(('room-residue', 'sid still in a room of ns %d afterwards' % n))
            if pend:
                fails.append(('pending-residue', 'sid still in pending_disconnect of ns %d afterwards (%d entries)' % (n, pend)))
            # (a DISCONNECT packet sent after the transport was closed is dropped by engine.io)
            nd, na = obs['disc_packets'].get(n, 0), calls.count('api')
            if not obs['overlap'] and (nd > na or (nd < na and 'lost' not in obs['actions'])):
                fails.append(('disconnect-packets', 'DISCONNECT packets on ns %d: %d, handler calls by disconnect(): %d'
                              % (n, obs['disc_packets'].get(n, 0), calls.count('api'))))
        else:
            if calls or not mem or pend:
                fails.append(('other-namespace-affected', 'ns %d is targeted by nobody: calls %r, member %r, pending %d' % (n, calls, mem, pend)))
    for (t, cls) in obs['raised']:
        kind = 'KeyError-in-pre_disconnect' if cls == 'KeyError' else 'raised-' + str(cls)
        fails.append((kind, 'thread %d (%s) raised %s' % (t, obs['actions'][t] if isinstance(t, int) and t < len(obs['actions']) else '?', cls)))
    for (t, cls) in obs['swallowed']:
        kind = 'KeyError-swallowed-by-eio-disconnect' if cls == 'KeyError' else 'swallowed-' + str(cls)
        fails.append((kind, 'thread %d: _handle_eio_disconnect swallowed %s' % (t, cls)))
    if 'lost' in obs['actions'] and obs['environ_left']:
        fails.append(('environ-residue', 'environ of the lost transport still stored'))
    # "no trace of the client remains on the server": whatever in the server object still names the departed transport /
    # the ended sessions, beyond the residue judged by name above
    judged = set()
    if any(obs['residue'][n][0] for n in (0, 1)):
        judged.add('server.manager.rooms')
    if any(obs['residue'][n][1] for n in (0, 1)):
        judged.add('server.manager.pending_disconnect')
    if obs['environ_left']:
        judged.add('server.environ')
    left = [p for p in obs.get('trace_left') or [] if p not in judged]
    if left:
        fails.append(('client-trace-left', 'the server object still refers to the departed %s at %s%s' % (
            'transport / its sessions' if 'lost' in obs['actions'] else 'session', left,
            ' (the client had sent %r and not yet all attachments)' % obs['half_binary'] if obs.get('half_binary') else '')))
    if not obs['other_client_ok']:
        fails.append(('other-client-affected', 'the other client of the namespace is no longer connected'))
    if obs.get('stray_calls'):
        fails.append(('stray-handler', 'disconnect handler ran for a session nobody ended: %r' % (obs['stray_calls'],)))
    side = obs.get('side') or {}
    if 'bystander_disconnect' in side:
        b = side['bystander_disconnect']
        if b['calls'] != ['api'] or b['still_connected'] or b['pending']:
            fails.append(('bystander', 'disconnect() of the other client of the namespace: handler calls %r, still connected %r, '
                          'pending %d' % (b['calls'], b['still_connected'], b['pending'])))
    if 'bystander_refused' in side:
        b = side['bystander_refused']
        if [f[0] for f in b['frames']] != [4] or b['registered']:
            fails.append(('bystander', 'refused CONNECT of another transport: frames %r, still registered %r'
                          % (b['frames'], b['registered'])))
    if 'event' in side:
        e = side['event']
        st = set(e['connected_before_each_step'])
        dispatched = (e['handler_runs'], [a[1] for a in e['acks']])
        if st == {False} and dispatched != (0, []):
            fails.append(('event-while-disconnecting', 'EVENT from a session that was not connected at any point of its '
                          'processing: handler ran %d times, ACK ids %r (required: dropped)' % dispatched))
        if st == {True} and dispatched != (1, [7]):
            fails.append(('event-lost', 'EVENT from a session connected throughout its processing: handler ran %d times, ACK ids %r'
                          % dispatched))
    return fails


def correspondence(obs, m):
    diffs = []
    if obs['unmapped']:
        diffs.append('the server made accesses the model has no step for: %r' % (obs['unmapped'],))
    mc = {n: v for n, v in m['calls'] if v}
    if mc != {n: v for n, v in obs['calls'].items() if v}:
        diffs.append('handler calls: impl %r, model %r' % (obs['calls'], mc))
    acts = obs['actions']
    ir = sorted(t for t, cls in obs['raised'] if isinstance(t, int))
    if ir != sorted(m['raised']):
        diffs.append('raising tasks: impl %r, model %r' % (obs['raised'], m['raised']))
    if len(obs['swallowed']) != m['contained']:
        diffs.append('swallowed exceptions: impl %r, model %d' % (obs['swallowed'], m['contained']))
    mres = {n: (mem, pend) for n, mem, pend in m['residue']}
    if any(tuple(obs['residue'][n]) != tuple(mres.get(n, (False, 0))) for n in (0, 1)):
        diffs.append('residue: impl %r, model %r' % (obs['residue'], mres))
    if not m['allDone']:
        diffs.append('the model is not at quiescence after the mapped schedule: pcs %r' % (m['pcs'],))
    if m['serial'] == obs['overlap']:
        diffs.append('gate windows: impl overlap=%r, model gateSerial=%r' % (obs['overlap'], m['serial']))
    # step by step: the pc the model executes = the access the implementation makes
    cur = {}
    for j, (i, after) in enumerate(zip(obs['msched'], m['trace'])):
        before = cur.get(i, 'check')
        if j < len(obs['mpcs']) and obs['mpcs'][j] != before:
            diffs.append('step %d of the mapped schedule: task %d (%s) makes access %r, the model is at pc %r'
                         % (j, i, acts[i], obs['mpcs'][j], before))
            break
        cur[i] = after
    return diffs


def pair_configs(thorough=True):
    out = []
    for a, b in itertools.combinations_with_replacement(MAIN, 2):
        if (a, b) == ('lost', 'lost'):
            continue        # engine.io's own `closing` guard, not socket.io's gate
        out.append({'actions': [a, b], 'others': False})
        out.append({'actions': [a, b], 'others': True})
    for a in MAIN:
        for b in OTHER:
            if a == 'lost' and not thorough:
                continue    # quick: loss + action on the other namespace only modulo independence (nested_configs)
            out.append({'actions': [a, b], 'others': False})
            if thorough:    # (a second client in '/' changes nothing for an action on '/b')
                out.append({'actions': [a, b], 'others': True})
    return out


SAME_NS_PAIRS = (('api', 'api'), ('api', 'client'), ('client', 'client'))


def nested_configs():
    """pre-emption ALSO at the manager's calls to its own methods (inside manager.disconnect: basic_disconnect,
    basic_leave_room per room; inside can_disconnect: is_connected) while the run is gate-serial.
    -> (exhaustive configs, configs explored modulo declared independence)"""
    full = [{'actions': [a, b], 'others': o, 'nested': True} for a, b in SAME_NS_PAIRS for o in (False, True)]
    reduced = [{'actions': [a, 'lost'], 'others': o, 'nested': True} for a in ('api', 'client') for o in (False, True)]
    reduced += [{'actions': [a, b], 'others': False, 'nested': True} for a in MAIN for b in OTHER]
    return full, reduced


def nested_triple_configs():
    out = []
    for tr in itertools.combinations_with_replacement(MAIN, 3):
        if tr.count('lost') > 1:
            continue
        out.append({'actions': list(tr), 'others': False, 'nested': True})
    return out


def side_configs(thorough):
    """two terminating actions on one namespace + one concurrent operation that is not a terminating action
    of the sid (explored modulo the declared independence; no further branching once two gate windows overlap)"""
    out = []
    pairs = list(SAME_NS_PAIRS) + ([('api', 'lost'), ('client', 'lost')] if thorough else [])
    for a, b in pairs:
        for sd in ('bystander_refused', 'bystander_disconnect', 'event'):
            if sd == 'event' and 'lost' in (a, b):
                continue
            out.append({'actions': [a, b], 'others': False, 'side': [sd]})
    return out


PMAIN = ('api', 'client', 'lost', 'queue')


def pubsub_configs(thorough):
    """server with a PubSubManager.  -> (exhaustive, modulo declared independence, exhaustive with nested pre-emption)"""
    def cfg(acts, others=False, **kw):
        return dict({'actions': list(acts), 'others': others, 'manager': 'pubsub'}, **kw)
    pairs = [p for p in itertools.combinations_with_replacement(PMAIN, 2)
             if p not in (('lost', 'lost'), ('queue', 'queue'))]
    if not thorough:
        full = [cfg(p) for p in pairs if 'lost' not in p and ('api' in p or 'queue' in p)]
        red = [cfg(p) for p in pairs if 'lost' in p and ('api' in p or 'queue' in p)]
        return full, red, [cfg(('queue', 'client'), nested=True)]
    full = [cfg(p, o) for p in pairs for o in (False, True)]
    full += [cfg((a, b)) for a in ('api', 'queue') for b in OTHER]
    nested = [cfg(p, o, nested=True) for p in pairs if 'lost' not in p for o in (False, True)]
    red = [cfg((a, 'lost'), o, nested=True) for a in ('api', 'queue') for o in (False, True)]
    return full, red, nested


def pubsub_triple_configs():
    out = []
    for tr in itertools.combinations_with_replacement(PMAIN, 3):
        if tr.count('lost') > 1 or tr.count('queue') > 1 or not ('api' in tr or 'queue' in tr):
            continue
        out.append({'actions': list(tr), 'others': False, 'manager': 'pubsub'})
    return out


def half_binary_configs(rng, thorough):
    """the client is in the middle of a binary event / ack (header received, attachments outstanding) when its
    transport is lost while another termination is in progress.  -> (exhaustive, modulo declared independence)"""
    def hb():
        n = rng.choice([1, 1, 2, 3])
        return {'ns': rng.choice(['/', '/', '/b']), 'n': n, 'arrived': rng.randrange(n), 'ack': rng.random() < 0.25}
    red = []
    for a in ('api', 'other_api'):
        for o in (False, True):
            red.append({'actions': [a, 'lost'], 'others': o, 'half_binary': hb()})
    red.append({'actions': ['api', 'lost'], 'others': False, 'nested': True, 'half_binary': hb()})
    for a in ('api', 'queue'):
        red.append({'actions': [a, 'lost'], 'others': False, 'manager': 'pubsub', 'half_binary': hb()})
    # (without a transport loss the buffer legitimately stays: the transport lives on)
    red.append({'actions': ['api', 'other_api'], 'others': False, 'half_binary': hb()})
    full = []
    if thorough:
        full = [{'actions': ['api', 'lost'], 'others': o, 'half_binary': hb()} for o in (False, True)]
        red += [{'actions': ['api', 'api', 'lost'], 'others': False, 'half_binary': hb()},
                {'actions': ['api', 'other_api', 'lost'], 'others': False, 'half_binary': hb()}]
    return full, red


def cfg_key(cfg, reduced=False):
    hb = cfg.get('half_binary')
    return '+'.join(cfg['actions']) + ('/pubsub' if cfg.get('manager') == 'pubsub' else '') + \
        ('/half-binary(%s%s,%d of %d)' % ('ack ' if hb.get('ack') else '', hb.get('ns', '/'), hb.get('arrived', 0), hb.get('n', 1))
         if hb else '') + \
        ('/shared-ns' if cfg['others'] else '') + \
        ('/side:' + '+'.join(cfg['side']) if cfg.get('side') else '') + \
        ('/nested' if cfg.get('nested') else '') + ('/reduced' if reduced else '')


def triple_configs():
    kinds = MAIN + OTHER
    out = []
    for tr in itertools.combinations_with_replacement(kinds, 3):
        if tr.count('lost') > 1 or not any(k in MAIN for k in tr):
            continue
        out.append(list(tr))
    return [{'actions': acts, 'others': o} for acts in out for o in (False, True)]


def judge(ctx, cfg, obs, m, stats, reduced):
    fails = oracle(obs)
    diffs = correspondence(obs, m)
    rep = {'cfg': cfg, 'sched': obs['sched'], 'labels': obs['labels'], 'model_sched': obs['msched'],
           'observed': {k: obs.get(k) for k in ('calls', 'raised', 'swallowed', 'residue', 'overlap', 'disc_packets', 'side')},
           'model': {k: m[k] for k in ('calls', 'raised', 'contained', 'residue', 'serial', 'pcs')},
           'oracle': [f[1] for f in fails], 'correspondence': diffs}
    stats['runs'] += 1
    ctx.count('actions:' + cfg_key(cfg, reduced))
    if cfg.get('half_binary'):
        stats['half_binary_runs'] += 1
        if not obs['overlap']:
            stats['half_binary_serial'] += 1
    if cfg.get('manager') == 'pubsub':
        stats['pubsub_runs'] += 1
        if not obs['overlap']:
            stats['pubsub_serial'] += 1
        if 'queue' in cfg['actions']:
            stats['pubsub_queue'] += 1
        if obs['published']:
            # can_disconnect() did not consider the sid connected: re-submitted locally and published
            stats['pubsub_resubmitted'] += 1
            if obs['published'] != [('disconnect', '/', True)] * len(obs['published']):
                ctx.violation('oracle', 'what reached the channel is not a disconnect request for the sid: %r'
                              % (obs['published'],), rep)
    if obs['overlap']:
        stats['overlap'] += 1
        if not diffs:
            stats['overlap_model_agrees'] += 1
        if fails:
            stats['overlap_failing'] += 1
            kinds = set(f[0] for f in fails)
            for k in kinds:
                stats['shapes'][k] = stats['shapes'].get(k, 0) + 1
            if kinds <= OVERLAP_SHAPES:
                if stats['example'] is None or len(obs['sched']) < len(stats['example']['sched']):
                    stats['example'] = rep
            else:
                ctx.violation('oracle', 'gate-overlapping schedule fails the property in a shape the known finding does not '
                              'cover (%s): %s' % (sorted(kinds - OVERLAP_SHAPES), [f[1] for f in fails]), rep)
    else:
        stats['serial'] += 1
        if fails:
            ctx.violation('oracle', 'gate-serial schedule violates C20 on the implementation: %s' % [f[1] for f in fails], rep)
        elif diffs:
            ctx.violation('correspondence', 'gate-serial schedule: model and implementation differ: %s' % diffs, rep,
                          no_input=True)
    return fails, diffs


def outcome_sig(o):
    return json.dumps([o['calls'], o['raised'], o['swallowed'], o['residue'], o['overlap']], sort_keys=True, default=str)


def run_configs(ctx, cfgs, stats, indep=None, budget=None, serial_only=False):
    t = T()
    for cfg in cfgs:
        obs_all = list(t.explore(cfg, indep=indep, serial_only=serial_only))
        ans = C.batch('sched', [t.model_line(o) for o in obs_all])
        key = cfg_key(cfg, indep is not None)
        stats['per_config'][key] = len(obs_all)
        if cfg.get('nested'):
            stats['nested_runs'] += len(obs_all)
            stats['nested_serial'] += sum(1 for o in obs_all if not o['overlap'])
        stats['outcomes'][key] = set(outcome_sig(o) for o in obs_all)
        for o, m in zip(obs_all, ans):
            fails, diffs = judge(ctx, cfg, o, m, stats, indep is not None)
            # non-trivial: the actions are really interleaved (some action resumes after another one ran)
            sc = o['sched']
            switches = sum(1 for x, y in zip(sc, sc[1:]) if x != y)
            if switches >= len(set(sc)):
                stats['nontrivial'].add((key, tuple(sc)))
            if len(stats['samples']) < 6 and (o['overlap'] or len(stats['samples']) < 3):
                stats['samples'].append({'actions': cfg['actions'], 'others': cfg['others'], 'sched': o['sched'],
                                         'accesses': o['labels'], 'calls': o['calls'], 'raised': o['raised'],
                                         'residue': o['residue'], 'gate_overlap': o['overlap']})


def run(ctx):
    C.proof_step(ctx, [
        'pre-emption of the threaded server at method-call granularity on the client manager, the transport layer and '
        'the application handler (not bytecode granularity)',
        'the proxy scheduler of harness/sched_threads.py (one runnable thread at a time; hand-off by a Condition)',
    ])
    C.build_driver('sched')
    stats = {'runs': 0, 'serial': 0, 'overlap': 0, 'overlap_failing': 0, 'overlap_model_agrees': 0, 'shapes': {},
             'example': None, 'per_config': {}, 'nontrivial': set(), 'samples': [], 'outcomes': {},
             'nested_runs': 0, 'nested_serial': 0, 'half_binary_runs': 0, 'half_binary_serial': 0,
             'pubsub_runs': 0, 'pubsub_serial': 0, 'pubsub_queue': 0, 'pubsub_resubmitted': 0}
    run_configs(ctx, pair_configs(ctx.thorough), stats)
    pairs = stats['runs']
    # nested pre-emption (inside manager.disconnect / can_disconnect)
    t = T()
    nfull, nred = nested_configs()
    run_configs(ctx, nfull, stats)
    run_configs(ctx, nred, stats, indep=t.independent)
    run_configs(ctx, side_configs(ctx.thorough), stats, indep=t.independent, serial_only=True)
    ctx.coverage['side_action_schedules'] = sum(v for k, v in stats['per_config'].items() if '/side:' in k)
    pfull, pred, pnested = pubsub_configs(ctx.thorough)
    run_configs(ctx, pfull, stats)
    run_configs(ctx, pred, stats, indep=t.independent)
    run_configs(ctx, pnested, stats)
    hfull, hred = half_binary_configs(ctx.rng, ctx.thorough)
    run_configs(ctx, hfull, stats)
    run_configs(ctx, hred, stats, indep=t.independent)
    nested_pairs = stats['runs'] - pairs
    pairs = stats['runs']
    exhaustive3 = None
    if ctx.thorough:
        t = T()
        # the sleep-set reduction used for three actions is first validated on the pairs, where the full
        # enumeration is at hand: it must reach exactly the same set of outcomes
        checked = 0
        for cfg in pair_configs(True):
            key = '+'.join(cfg['actions']) + ('/shared-ns' if cfg['others'] else '')
            reduced = set(outcome_sig(o) for o in t.explore(cfg, indep=t.independent))
            if reduced != stats['outcomes'][key]:
                raise C.Infra('sleep-set reduction is not outcome-preserving on %s: %d vs %d outcomes (the declared '
                              'independence relation is wrong)' % (key, len(reduced), len(stats['outcomes'][key])))
            checked += 1
        for cfg in nfull:
            reduced = set(outcome_sig(o) for o in t.explore(cfg, indep=t.independent))
            if reduced != stats['outcomes'][cfg_key(cfg)]:
                raise C.Infra('sleep-set reduction is not outcome-preserving on %s' % cfg_key(cfg))
            checked += 1
        ctx.coverage['independence_cross_validated_on_pair_configs'] = checked
        run_configs(ctx, triple_configs(), stats, indep=t.independent)
        run_configs(ctx, nested_triple_configs(), stats, indep=t.independent)
        run_configs(ctx, pubsub_triple_configs(), stats, indep=t.independent)
        exhaustive3 = stats['runs'] - pairs
        ctx.assumptions.append(
            'three-action enumeration: complete modulo commutation of accesses declared independent in '
            'sched_threads.independent (transport send vs manager accesses, harness-owned handler vs manager accesses, '
            'manager reads among themselves, manager accesses on different namespaces)')
    cov = ctx.coverage
    cov['evaluations'] = stats['runs']
    cov['exhaustive'] = True
    cov['exhaustive_scope'] = ('every interleaving of every pair of terminating actions from {disconnect(), client DISCONNECT, '
                               'transport loss, disconnect()/DISCONNECT of the other namespace of the transport}' +
                               ('' if ctx.thorough else ' except {transport loss, action on the other namespace}, which the quick tier '
                                'explores modulo declared independence,') + ' (sole member of '
                               'the namespace / namespace shared with another client), pre-emption before every manager / '
                               'transport / handler access' + ('; every triple modulo declared independence' if ctx.thorough else ''))
    cov['pair_schedules'] = pairs
    cov['nested_preemption_schedules'] = stats['nested_runs']
    cov['nested_preemption_gate_serial'] = stats['nested_serial']
    cov['nested_preemption_scope'] = (
        'pre-emption also at the manager\'s calls to its own methods (basic_disconnect, basic_leave_room per room, '
        'is_connected inside can_disconnect) for as long as the run is gate-serial: exhaustive for the pairs of actions on one '
        'namespace (disconnect()/DISCONNECT, both orders, sole member / shared namespace); pairs with a transport loss or with '
        'an action on the other namespace modulo the declared independence')
    if exhaustive3 is not None:
        cov['triple_schedules_modulo_independence'] = exhaustive3
    cov['half_received_binary_packet_schedules'] = stats['half_binary_runs']
    cov['half_received_binary_packet_gate_serial'] = stats['half_binary_serial']
    cov['half_received_binary_packet_scope'] = (
        'the client has sent the header of a binary event / ack (namespace, number of attachments announced / arrived drawn '
        'from the seed) and not all attachments when {disconnect() | disconnect() of the other namespace | queue} and the loss '
        'of its transport start (plain and pub/sub manager, sole member / shared namespace, once with nested pre-emption), '
        'modulo declared independence' + ('; disconnect()+loss exhaustively; triples with a loss' if ctx.thorough else '') +
        '.  Every schedule of every configuration: at quiescence the server object graph is walked for anything that still '
        'names the lost transport / the ended sessions (oracle kind client-trace-left)')
    cov['pubsub_manager_schedules'] = stats['pubsub_runs']
    cov['pubsub_manager_gate_serial'] = stats['pubsub_serial']
    cov['pubsub_manager_with_queue_message'] = stats['pubsub_queue']
    cov['pubsub_manager_disconnect_resubmitted_locally'] = stats['pubsub_resubmitted']
    cov['pubsub_manager_scope'] = (
        'the same server with a PubSubManager (in-memory subclass, one host, initialised by the first connection), all '
        'manager and transport calls through the same proxies; terminating actions {disconnect(), client DISCONNECT, '
        'transport loss' + (', disconnect()/DISCONNECT of the other namespace' if ctx.thorough else '') + ', queue = a '
        'disconnect message for the sid from another host applied by the listener thread (real PubSubManager._thread(), at '
        'most one per schedule: a host has one listener)}: ' +
        ('every pair exhaustively (sole member / shared namespace), pairs without a loss also with nested pre-emption, '
         'triples containing disconnect() or queue modulo declared independence' if ctx.thorough else
         'pairs containing disconnect() or queue: exhaustively without a transport loss, modulo declared independence with '
         'one; queue+DISCONNECT also with nested pre-emption') +
        '. PubSubManager.can_disconnect and the is_connected of the locally re-submitted request '
        '(server.disconnect(ignore_queue=True)) are sub-steps of the model\'s check; `queue` is a model task `api`; an '
        'exception the listener contains counts as raised by the task')
    cov['gate_serial_schedules'] = stats['serial']
    cov['gate_overlapping_schedules'] = stats['overlap']
    cov['gate_overlapping_failing'] = stats['overlap_failing']
    cov['gate_overlapping_model_agrees'] = stats['overlap_model_agrees']
    cov['failure_shapes_in_overlap_region'] = stats['shapes']
    cov['schedules_per_config'] = stats['per_config']
    cov['distinct_nontrivial'] = len(stats['nontrivial'])
    cov['rule'] = ('non-trivial = schedule in which the actions are really interleaved (not one action after the other); every '
                   'schedule runs on a fresh real socketio.Server(async_mode=threading) and on Sio.Sched.run false')
    cov['samples'] = stats['samples']
    cov['traces_validated_against_impl'] = stats['runs']
    cov['level_detail'] = ('proof of the gate-serial case (Sio.C20.gate_serial_partial: all schedules, any number of tasks) + '
                           'machine-checked counter-examples to the full statement (race_double_call, race_raise_residue, '
                           'race_lost_swallowed_residue, full_statement_fails); the full statement of C20 is FALSE for the code '
                           'as it is (known finding gate-overlap)')
    ctx.assumptions.append('engine.io: Socket.receive / Socket.close call the socket.io handlers inline on the calling thread')
    if stats['overlap_failing']:
        ex = stats['example'] or {}
        ctx.known(SIG, 'threaded Server: %d of %d gate-overlapping schedules fail (%s); shortest: actions %s, schedule %s, accesses '
                  '%s -> calls %s, raised %s, pending/rooms residue %s'
                  % (stats['overlap_failing'], stats['overlap'], json.dumps(stats['shapes'], sort_keys=True),
                     ex.get('cfg', {}).get('actions'), ex.get('sched'), ex.get('labels'),
                     ex.get('observed', {}).get('calls'), ex.get('observed', {}).get('raised'),
                     ex.get('observed', {}).get('residue')))
    else:
        ctx.notes.append('no gate-overlapping schedule failed the property: the known finding gate-overlap did not reproduce')
    C.fold_proof_failures(ctx)


def replay(ctx, r):
    t = T()
    rep = r.get('replay', r)
    if 'cfg' not in rep:
        print(json.dumps(rep, indent=1))
        return 0
    obs = t.replay_schedule(rep['cfg'], rep['sched'])
    m = C.batch('sched', [t.model_line(obs)])[0]
    print('implementation:', json.dumps({k: obs[k] for k in ('actions', 'others', 'manager', 'sched', 'labels', 'calls', 'raised',
                                                               'swallowed', 'listener_contained', 'published', 'residue',
                                                               'overlap')}, default=str))
    print('model:         ', json.dumps(m))
    fails = oracle(obs)
    print('oracle:        ', 'holds' if not fails else [f[1] for f in fails])
    print('correspondence:', correspondence(obs, m) or 'agrees')
    return 1 if fails else 0
