"""C14 — the asyncio classes behave exactly like their threaded counterparts.

Double correspondence: the scenario generators of the other kernels are executed on the threaded
class, on the asyncio class and on the Lean model; here the two implementation traces are also
compared with each other directly.  The source-derived part (namespace helper tables, reserved
lists) is a theorem over regenerated tables."""
import copy
import importlib

from .. import common as C
from .. import server_sim as S
from .. import server_gen as SG
from . import c11 as c11mod
from . import c12 as c12mod

LEVEL = 'translation_validation'

PROFILE = {
    'weights': {'open': 3, 'connect': 8, 'client_disconnect': 3, 'event': 8, 'ack': 4, 'emit': 4, 'emit_cb': 4,
                'call': 1, 'api_disconnect': 3, 'enter': 3, 'leave': 2, 'close': 1, 'rooms': 2, 'lost': 3,
                'partial_binary': 2, 'session': 4, 'hostile': 4},
    'connect_outcomes': {'accept': 5, 'false': 1, 'refuse': 2, 'raise': 1},
    'event_raise': 0.1, 'disconnect_raise': 0.3,
}


def prepare(ctx):
    from .. import regen
    try:
        regen.run(C.REPO)
    except Exception:   # noqa  (a translator problem surfaces as a failed proof obligation)
        pass


def compare_impls(op, a, b):
    d = []
    if a['sends'] != b['sends']:
        d.append('packets sent differ: threaded=%r asyncio=%r' % (a['sends'], b['sends']))
    ia, ib = a['invokes'], b['invokes']
    if op['op'] == 'lost':
        ia, ib = sorted(ia, key=repr), sorted(ib, key=repr)
    if len(ia) != len(ib) or any(x[0] != y[0] or not C.same(list(x[1]), list(y[1])) for x, y in zip(ia, ib)):
        d.append('handler invocations differ: threaded=%r asyncio=%r' % (ia, ib))
    if len(a['callbacks']) != len(b['callbacks']) or any(
            x[0] != y[0] or not C.same(list(x[1]), list(y[1])) for x, y in zip(a['callbacks'], b['callbacks'])):
        d.append('callbacks differ: threaded=%r asyncio=%r' % (a['callbacks'], b['callbacks']))
    if a['exc'] != b['exc']:
        d.append('API call raised %r (threaded) / %r (asyncio)' % (a['exc'], b['exc']))
    ra, rb = a['result'], b['result']
    if op['op'] == 'rooms':
        ra, rb = sorted(ra or [], key=repr), sorted(rb or [], key=repr)
    if not C.same(_l(ra), _l(rb)):
        d.append('results differ: threaded=%r asyncio=%r' % (ra, rb))
    if (a['raised'] or a['handler_raised'] > 0) != (b['raised'] or b['handler_raised'] > 0):
        d.append('one family contained an error, the other did not')
    return d


def _l(v):
    if isinstance(v, (list, tuple)):
        return [_l(x) for x in v]
    if isinstance(v, dict):
        return {k: _l(x) for k, x in v.items()}
    return v


def server_parity(ctx, ncases, nops, PROFILE=None):
    PROFILE = PROFILE or globals()['PROFILE']
    rng = ctx.rng
    programs = 0
    samples = []
    disagreements = 0
    nontriv = set()
    for ci in range(ncases):
        cfg = SG.make_cfg(rng, PROFILE)
        sc = SG.Scenario(rng, PROFILE)
        c11mod.gen_hook(sc, cfg)
        # one case in four has 'active' handlers (they emit to the client they were called for): parity only,
        # the model has passive handlers
        active = ci % 4 == 3
        runner = S.Runner('threading', cfg, active=active)
        ops, thr = [], []
        try:
            n = rng.randint(nops // 3, nops)
            k = 0
            while k < n or sc.pending_frames:
                op = sc.next()
                k += 1
                if not S.representable(op):
                    continue
                obs = runner.do(copy.deepcopy(op))
                sc.learn(op, obs)
                now = runner.connected()
                sc.gone = sorted(set(sc.gone) | (set(sc.conn.values()) - set(now.values())))[-6:]
                sc.conn = now
                ops.append(op)
                thr.append(obs)
                ctx.count('op.' + op['op'])
            if cfg['asyncHandlers']:
                ops.append({'op': 'settle'})
                thr.append(runner.do(ops[-1]))
            for t in list(sc.open):
                ops.append({'op': 'lost', 't': t, 'reason': 'transport close'})
                thr.append(runner.do(ops[-1]))
        finally:
            runner.close()
        coro = True if active else rng.random() < 0.6
        asy, _ = S.execute_impl('asyncio', cfg, ops, coro, active=active)
        model, _snap = S.model_run(cfg, ops)
        programs += 1
        bad = None
        for i, (op, a, b, m) in enumerate(zip(ops, thr, asy, model)):
            d = compare_impls(op, a, b)
            if d:
                bad = (i, d, 'parity')
                break
            d1, d2 = ([], []) if active else (S.compare(op, a, m), S.compare(op, b, m))
            if d1 or d2:
                bad = (i, d1 or d2, 'model')
                break
        if bad:
            disagreements += 1
            i, d, kind = bad

            def still(cand):
                t1, _ = S.execute_impl('threading', cfg, cand, active=active)
                t2, _ = S.execute_impl('asyncio', cfg, cand, coro, active=active)
                return any(compare_impls(o, x, y) for o, x, y in zip(cand, t1, t2))
            small = S.shrink_ops(ops[:i + 1], still) if kind == 'parity' else ops[:i + 1]
            ctx.violation('oracle' if kind == 'parity' else 'correspondence',
                          ('Server and AsyncServer behave differently: ' if kind == 'parity' else
                           'a server family disagrees with the common model: ') + d[0][:500],
                          {'mode': 'asyncio', 'coro': coro, 'cfg': cfg, 'ops': small, 'difference': d, 'active': active},
                          no_input=(kind != 'parity'))
        kinds = set(o['op'] for o in ops)
        if len(kinds) >= 8:
            nontriv.add(hash(repr(ops)))
        if len(samples) < 2:
            samples.append({'cfg': {k: cfg[k] for k in ('alwaysConnect', 'asyncHandlers', 'served', 'fn', 'cls')},
                            'ops': [S._brief(o) for o in ops[:20]]})
    return programs, disagreements, samples, len(nontriv)


def client_parity(ctx, ncases, nops):
    """Client vs AsyncClient: histories generated on the threaded client, replayed on the asyncio client"""
    from .. import client_cases as K
    rng = ctx.rng
    programs = disagreements = 0
    for i in range(ncases):
        profile = 'c08' if i % 2 == 0 else 'c09'
        case, recs1, _orc = K.gen_case(rng, 'threading', profile, rng.randint(nops // 2, nops))
        case2 = dict(case, mode='asyncio')
        try:
            recs2, _ = K.exec_case(case2)
        except Exception as ex:   # noqa
            ctx.violation('oracle', 'AsyncClient could not execute a history the threaded Client executed: %r' % (ex,),
                          {'kernel': 'client', 'case': K.case_json(case)})
            disagreements += 1
            continue
        programs += 1
        for j, (a, b) in enumerate(zip(recs1, recs2)):
            ca, cb = K.canon_impl(a), K.canon_impl(b)
            sa, sb = K.canon_snap_impl(a['snap']), K.canon_snap_impl(b['snap'])
            if ca != cb or sa != sb:
                disagreements += 1
                ctx.violation('oracle', 'Client and AsyncClient behave differently at op %d (%r): threaded=%r asyncio=%r'
                              % (j, case['ops'][j].get('op'), (ca, sa), (cb, sb)),
                              {'kernel': 'client', 'case': K.case_json(dict(case, ops=case['ops'][:j + 1])),
                               'threaded': repr((ca, sa)), 'asyncio': repr((cb, sb))})
                break
        ctx.count('client_parity_cases')
    return programs, disagreements


def client_active_parity(ctx, ncases):
    """Client vs AsyncClient with ACTIVE handlers: connect / disconnect / connect_error / event handlers
    (functions and class-based namespaces, plain and coroutine) that, from inside, record what the client shows
    (`connected`, `namespaces`, `get_sid`) and call its API (`emit` / `send` on the namespace being handled, on
    another one, on one that is not connected; `disconnect()`), swallowing or re-raising what the call raises.
    Parity only - there is no Lean model of active handlers: the two traces (handler observations, packets,
    results / exception classes, later invocations such as `__disconnect_final`, state after every operation)
    are compared with each other."""
    from .. import client_cases as K
    rng = ctx.rng
    programs = disagreements = 0
    distinct = set()
    samples = []
    for i in range(ncases):
        case, tags = K.gen_active_case(rng)
        d = K.parity_diff(case)
        programs += 1
        for t in set(tags):
            ctx.count('client_active.' + t)
        acts = [h['act'] for h in case['registry']['fns'] + [m for c in case['registry']['classes'] for m in c['methods']]
                if h.get('act')]
        for a in acts:
            ctx.count('client_active.handler_api.' + str(a['api']) + ('.reraise' if a['reraise'] and a['api'] else ''))
        distinct.add(K.skeleton(case) + repr(sorted(set(tags))))
        if d is not None:
            disagreements += 1
            if disagreements <= 4:
                small = K.shrink_active(case)
                d2 = K.parity_diff(small) or d
                ctx.violation('oracle', 'Client and AsyncClient behave differently with active handlers at op %d: '
                              'threaded=%r asyncio=%r' % (d2[0], d2[1], d2[2]),
                              {'kernel': 'client', 'case': K.case_json(small),
                               'threaded': repr(d2[1]), 'asyncio': repr(d2[2])})
        elif len(samples) < 2 and len(case['ops']) <= 6 and acts:
            samples.append({'skeleton': K.skeleton(case), 'tags': tags, 'acts': acts[:3]})
    return {'programs': programs, 'disagreements': disagreements, 'distinct': len(distinct), 'samples': samples,
            'level': 'parity only (no Lean model of handlers that use the client from inside)'}


def run(ctx):
    a = C.proof_step(ctx, ['parity itself is decided by executing the same scenarios on both families (translation validation); '
                           'the theorems cover only the source-derived tables'])
    programs, disagreements, samples, nontriv = server_parity(ctx, ctx.scale(220, 3000), 50)
    from . import c06 as c06mod
    p2, d2, _s2, n2 = server_parity(ctx, ctx.scale(120, 1500), 70, dict(c06mod.PROFILE))
    programs, disagreements, nontriv = programs + p2, disagreements + d2, nontriv + n2
    sub = {}
    try:
        cp, cd = client_parity(ctx, ctx.scale(150, 3000), 24)
        programs += cp
        disagreements += cd
        sub['client'] = {'programs': cp, 'disagreements': cd}
        ca = client_active_parity(ctx, ctx.scale(500, 8000))
        programs += ca['programs']
        disagreements += ca['disagreements']
        sub['client_active_handlers'] = ca
    except ImportError:
        pass
    sub['by_construction'] = ('the checks of C03 (managers), C08/C09 (clients), C10 (reconnection), C19 (simple clients), '
                              'C07/C15 (pub/sub managers), C18 (admin) execute every generated scenario on the threaded and on the '
                              'asyncio class against ONE deterministic Lean model; agreement with the same function implies parity')
    # the other kernels' own double runs (each executes its scenarios on both families against one model)
    for name in ('c03', 'c08', 'c09', 'c10', 'c19', 'c07', 'c15'):
        try:
            mod = importlib.import_module('harness.props.' + name)
        except Exception:   # noqa
            continue
        fn = getattr(mod, 'parity', None)
        if fn is None:
            continue
        r = fn(ctx)
        sub[name] = r
        programs += r.get('programs', 0)
    ctx.coverage.update({
        'programs': programs, 'disagreements_checked': disagreements, 'samples': samples,
        'evaluations': programs, 'distinct_nontrivial': nontriv, 'sub_kernels': sub,
        'rule': 'scripted scenarios mixing client packets (valid and malformed), server API calls, transport losses, sessions, '
                'handler faults; executed on Server, on AsyncServer (sync or coroutine handlers, background handlers joined) and '
                'on the Lean model; traces compared after renaming session ids by order of appearance. non-trivial = scenario '
                'using >= 8 different kinds of operation',
    })


def replay(ctx, r):
    case = C.unjsonable(r.get('replay', r))
    if case.get('kernel') == 'simple':
        from . import c19
        for fam in ('threads', 'asyncio'):
            print(fam, c19.run_parity_program(fam, case['program']))
        return 0
    if case.get('kernel') == 'client':
        from .. import client_cases as K
        base = K.case_from_json(case['case'])
        if base.get('active'):
            out = {}
            for mode in ('threading', 'asyncio'):
                recs = K.exec_plain(dict(base, mode=mode))
                out[mode] = [(K.canon_impl(x), K.canon_snap_impl(x['snap'])) for x in recs]
            for j, op in enumerate(base['ops']):
                print('--- op %d: %s' % (j, repr(op)[:200]))
                for mode in ('threading', 'asyncio'):
                    print('   %-9s: %r' % (mode, out[mode][j] if j < len(out[mode]) else None))
            d = K.parity_diff(base)
            print('parity:', 'holds' if d is None else 'Client and AsyncClient differ at op %d' % d[0])
            return 1 if d else 0
        out = {}
        for mode in ('threading', 'asyncio'):
            recs, _ = K.exec_case(dict(base, mode=mode))
            out[mode] = [(K.canon_impl(x), K.canon_snap_impl(x['snap'])) for x in recs]
            print(mode, [x[0] for x in out[mode]][-3:])
        differ = out['threading'] != out['asyncio']
        print('parity:', 'Client and AsyncClient differ' if differ else 'holds')
        return 1 if differ else 0
    t1, _ = S.execute_impl('threading', case['cfg'], case['ops'], active=case.get('active', False))
    t2, _ = S.execute_impl('asyncio', case['cfg'], case['ops'], case.get('coro', False), active=case.get('active', False))
    for i, (o, a, b) in enumerate(zip(case['ops'], t1, t2)):
        print('--- op %d: %s' % (i, S._brief(o)))
        print('   threaded: %r' % ({k: v for k, v in a.items() if v},))
        print('   asyncio : %r' % ({k: v for k, v in b.items() if v},))
        d = compare_impls(o, a, b)
        if d:
            print('   DIFF    : %s' % d)
    return 0
