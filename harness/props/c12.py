"""C12 — hostile input from one client cannot touch other clients or stop the server (K4).

Oracle (model-free): every scenario is executed twice on the implementation, once with the
offender's traffic and once without it; everything the bystanders can observe must be equal."""
import copy
import tracemalloc

from .. import common as C
from .. import server_sim as S
from .. import gen as G
from .. import pycodec

LEVEL = 'proof'
OFF = 'T1'          # the offender is the first transport

PROFILE = {
    'weights': {'open': 3, 'connect': 6, 'client_disconnect': 1, 'event': 8, 'ack': 3, 'emit': 3, 'emit_cb': 3,
                'api_disconnect': 1, 'enter': 2, 'leave': 1, 'close': 0, 'rooms': 2, 'lost': 1, 'partial_binary': 1,
                'session': 2, 'hostile': 14},
    'connect_outcomes': {'accept': 9, 'false': 1, 'refuse': 1, 'raise': 0},
    'async_handlers': False,
}

FIXED = ['2["*","victim-sid","x"]', '2/a,7["*","other-sid"]', '2["*"]', 'x', '9', '4"err"', '2', '2[]', '2{"a":1}', '2"msg"', '2[["a"]]', '2[{"a":1},2]', '2[5]', '2[null,1]',
         '3', '31', '31{"a":1}', '31"ab"', '31 5', '51-["msg",{"_placeholder":true,"num":5}]',
         '51-["msg",{"_placeholder":true,"num":-1}]', '51-["msg",{"_placeholder":true,"num":"0"}]',
         '51-{"_placeholder":true,"num":0}', '59999999999-["msg"]', '510000000000-["msg"]', '5-["msg"]',
         '2/nope,["msg"]', '0/nope,', '1/nope,', '1/a,', '5', '6', '50-["msg"]', '61-/a,1[]', '2["msg"', '42["msg"]',
         '2' + '1' * 101 + '["msg"]', '2' + '9' * 100 + '["msg",1]', '2٣["msg"]', '2²["msg"]', '٢["msg"]',
         '2/a?x=1,["msg",1]', '2/a', '2/a,', '0{"sid":"s0"}', '00', '0[1]', '0"tok"', '2["connect"]X',
         '2[' * 2000, '2' + '[' * 200 + ']' * 200, '2["msg",' + '{"a":' * 300 + '1' + '}' * 300 + ']',
         '7', '8["x"]', '2["msg",1e999]', '2["msg",NaN]', '2["\\ud800"]']


def mutate(rng, text):
    s = list(text)
    for _ in range(rng.randint(1, 3)):
        k = rng.random()
        pos = rng.randint(0, len(s))
        if k < 0.25 and s:
            del s[min(pos, len(s) - 1)]
        elif k < 0.55:
            s.insert(pos, rng.choice(list('0123456789-,/?[]{}":٣² ') + ['10000000000', '99999999999', '/a,', '/b,']))
        elif k < 0.75 and s:
            i = min(pos, len(s) - 1)
            s.insert(i, s[i])
        elif s:
            s = s[:pos]
    return ''.join(s)


def gen_hook(sc, cfg):
    rng = sc.rng
    sc.ntrans = 0
    # handler outcomes must not depend on how many invocations the offender caused: constant scripts
    ret = rng.choice([None, 'ok', ('a', b'\x01'), {'k': [1, 2]}, [1, 'x']])
    cfg['onConnect'] = []
    cfg['onEvent'] = [{'ret': ret}] * 400
    cfg['onDisconnect'] = []

    def g_hostile():
        if OFF not in sc.open:
            return None
        r = rng.random()
        if r < 0.35:
            return {'op': 'frame', 't': OFF, 'text': rng.choice(FIXED), '_hostile': True}
        if r < 0.7:
            # grammar mutation of a valid packet, possibly addressed like a bystander's traffic
            ns = rng.choice(['/', '/a', '/b'])
            base = rng.choice([
                pycodec.encode(2, ns, rng.choice([None, 1, 2, 7]), ['msg', G.gen_value(rng, 2, 0.2)]),
                pycodec.encode(3, ns, rng.choice([0, 1, 2, 3]), [G.gen_value(rng, 1, 0.2)]),
                pycodec.encode(0, ns, None, rng.choice([None, {'t': 1}])),
                pycodec.encode(1, ns),
            ])
            text = mutate(rng, base[0]) or '2'
            ops = [{'op': 'frame', 't': OFF, 'text': text, '_hostile': True}]
            for b in base[1:]:
                if rng.random() < 0.6:
                    ops.append({'op': 'frameval', 't': OFF, 'v': b, '_hostile': True})
            sc.pending_frames = ops[1:] + sc.pending_frames
            return ops[0]
        if r < 0.85:
            return {'op': 'frameval', 't': OFF, '_hostile': True,
                    'v': rng.choice([b'', b'\x00\x01', b'2["msg"]', b'1', b'0', b'2', b'3', b'5', b'6', b'4', b'9',
                                     1, True, 5, 6, 3, 2, 0, None, 7, -1, False, [], {}])}
        alpha = list('0123456789') + list('-,/?[]{}":aZ٣²x ') + ['["msg"]', '{"_placeholder":true,"num":0}', '/a,']
        return {'op': 'frame', 't': OFF, 'text': ''.join(rng.choice(alpha) for _ in range(rng.randint(1, 14))),
                '_hostile': True}
    sc.g_hostile = g_hostile


RESERVED_EV = ('connect', 'disconnect')


def representable_domain(op):
    """client events literally named connect/disconnect are outside the domain (C04)"""
    if op['op'] == 'frame':
        t = op['text']
        return not any(('["%s"' % e) in t for e in RESERVED_EV)
    return True


# ---------------------------------------------------------------- the two-run oracle

def _owner_of_names(trace):
    """session-id name -> transport it was allocated to (the op that made it appear)"""
    owner = {}
    seen = set()

    def walk(v, t):
        if isinstance(v, str):
            if len(v) >= 2 and v[0] == 's' and v[1:].isdigit() and v not in seen:
                seen.add(v)
                owner[v] = t
        elif isinstance(v, (list, tuple)):
            for x in v:
                walk(x, t)
        elif isinstance(v, dict):
            for x in v.values():
                walk(x, t)
    for op, im, _ in trace:
        t = op.get('t')
        if t is None:
            continue
        for slot, args in im['invokes']:
            walk(args, t)
        for tid, frames in im['sends'].items():
            for f in frames:
                if isinstance(f, str) and f.startswith('0') and '"sid":"' in f:
                    walk(f.split('"sid":"', 1)[1].split('"', 1)[0], t)
                elif isinstance(f, dict) and isinstance(f.get('mp'), dict) and f['mp'].get('type') == 0:
                    walk(f['mp'].get('data'), t)
    return owner


def _map_op(op, m):
    op = copy.deepcopy(op)

    def mp(x):
        return m.get(x, x)
    for k in ('sid', 'room'):
        if k in op:
            op[k] = mp(op[k])
    if op.get('to'):
        if 'one' in op['to']:
            op['to']['one'] = mp(op['to']['one'])
        else:
            op['to']['many'] = [mp(x) for x in op['to']['many']]
    if op.get('skip'):
        op['skip'] = [mp(x) for x in op['skip']]
    return op


def _rename(v, m):
    if isinstance(v, dict) and 'mp' in v and len(v) == 1:
        return {'mp': _rename_exact(v['mp'], m)}
    if isinstance(v, str):
        for a, b in m.items():
            if a in v:
                v = v.replace('"%s"' % a, '"%s"' % b) if v.startswith('0') else (b if v == a else v)
        return v
    if isinstance(v, (list, tuple)):
        return [_rename(x, m) for x in v]
    if isinstance(v, dict):
        return {k: _rename(x, m) for k, x in v.items()}
    return v


def _rename_exact(v, m):
    if isinstance(v, str):
        return m.get(v, v)
    if isinstance(v, (list, tuple)):
        return [_rename_exact(x, m) for x in v]
    if isinstance(v, dict):
        return {k: _rename_exact(x, m) for k, x in v.items()}
    return v


def oracle(cfg, trace, residue, info):
    fails = two_run(cfg, trace, info, None)
    if not fails:
        mp_ops = to_msgpack_ops([o for o, _, _ in trace])
        so = {'serializer': 'msgpack'}
        try:
            obs1, _ = S.execute_impl(info['mode'], cfg, mp_ops, info['coro'], server_opts=so)
            fails = [(sig, 'msgpack serializer: ' + t) for sig, t in
                     two_run(cfg, [(o, im, None) for o, im in zip(mp_ops, obs1)], info, so)]
        except Exception as ex:   # noqa
            fails = [(None, 'msgpack run failed: %r' % (ex,))]
    return fails


def to_msgpack_ops(ops):
    """the same scenario for a server with serializer='msgpack': every complete client packet becomes
    one msgpack frame; frames that are not a well-formed packet become msgpack-level garbage"""
    import msgpack
    cf = S.ClientFrames()
    out = []
    garbage = [lambda t: t.encode('utf-8', 'replace') or b'\xc1', lambda t: msgpack.dumps(t), lambda t: msgpack.dumps({'type': 2}),
               lambda t: msgpack.dumps({'type': 2, 'nsp': '/', 'data': 'notalist'}),
               lambda t: msgpack.dumps({'type': 99, 'nsp': '/'}), lambda t: msgpack.dumps({'type': 0, 'nsp': 5}),
               lambda t: msgpack.dumps({'type': 3, 'nsp': '/', 'id': [1], 'data': []}),
               lambda t: msgpack.dumps({'type': 2, 'nsp': '/a', 'data': [['x']], 'id': 'i'}),
               lambda t: msgpack.dumps([1, 2, 3]), lambda t: msgpack.dumps({'type': 1, 'nsp': '/nope'}),
               lambda t: msgpack.dumps({'type': 0, 'nsp': '*'}), lambda t: msgpack.dumps({'type': 0, 'nsp': '*', 'data': {'t': 1}}),
               lambda t: msgpack.dumps({'type': 2, 'nsp': '*', 'data': ['msg', 'victim-sid', 1]}),
               lambda t: msgpack.dumps({'type': 2, 'nsp': '*', 'data': ['*', 'victim-sid'], 'id': 1}),
               lambda t: msgpack.dumps({'type': 0}), lambda t: msgpack.dumps({'type': 2, 'data': ['msg', 1]}),
               lambda t: msgpack.dumps({'type': 2, 'data': ['msg', 1], 'id': 3}), lambda t: msgpack.dumps({'type': 1}),
               lambda t: msgpack.dumps({'type': 0, 'data': {'t': 1}}), lambda t: msgpack.dumps({'nsp': '/', 'data': ['msg']}),
               lambda t: msgpack.dumps({'type': 5, 'nsp': '/', 'data': ['msg']}), lambda t: b'\x81\xa4type']
    for op in ops:
        if op['op'] not in ('frame', 'frameval'):
            out.append(op)
            continue
        if op['op'] == 'frameval' and not isinstance(op['v'], (bytes, bytearray)) and op.get('_hostile'):
            out.append(op)
            continue
        p = cf.feed(op)
        if p == 'incomplete':
            continue
        if isinstance(p, dict) and isinstance(p['type'], int) and not op.get('_hostile'):
            d = {'type': p['type'], 'data': p['data'], 'nsp': p['ns']}
            if p['id'] is not None:
                d['id'] = p['id']
            try:
                out.append({'op': 'frameval', 't': op['t'], 'v': msgpack.dumps(d)})
                continue
            except Exception:   # noqa   (e.g. an integer beyond 64 bits)
                pass
        key = op.get('text') if op['op'] == 'frame' else repr(op['v'])
        g = garbage[sum(map(ord, key)) % len(garbage)]
        out.append({'op': 'frameval', 't': op['t'], 'v': g(key), '_hostile': True})
    return out


def two_run(cfg, trace, info, server_opts):
    fails = []
    owner = _owner_of_names(trace)
    # names as they will be in the run without the offender
    order = sorted(owner, key=lambda n: int(n[1:]))
    m = {}
    k = 0
    for n in order:
        if owner[n] == OFF:
            m[n] = 'ghost-' + n
        else:
            m[n] = 's%d' % k
            k += 1
    touches_off = []
    ops2 = []
    for op, im, _ in trace:
        if op.get('t') == OFF:
            continue
        addr = [op.get('sid'), op.get('room')] + ([op['to'].get('one')] + op['to'].get('many', []) if op.get('to') else [])
        ops2.append((_map_op(op, m), im, any(a in owner and owner[a] == OFF for a in addr if a)))
    try:
        obs2, _names2 = S.execute_impl(info['mode'], cfg, [o for o, _, _ in ops2], info['coro'], server_opts=server_opts)
    except Exception as ex:   # noqa
        return [(None, 'the run without the offender failed: %r' % (ex,))]
    inv_m = m
    for (op2, im1, off_addr), im2 in zip(ops2, obs2):
        s1 = {t: _rename(fr, inv_m) for t, fr in im1['sends'].items() if t != OFF}
        s2 = {t: fr for t, fr in im2['sends'].items()}
        if s1 != s2:
            fails.append((None, 'a bystander is sent different packets when the offender is present: op %r with=%r without=%r'
                          % (S._brief(op2), s1, s2)))
            break
        i1 = [(sl, _rename(a, inv_m)) for sl, a in im1['invokes'] if not any(isinstance(x, str) and owner.get(x) == OFF for x in a)]
        i2 = [(sl, list(a)) for sl, a in im2['invokes']]
        if op2['op'] == 'lost':       # order across the namespaces of one transport is not part of any claim
            i1, i2 = sorted(i1, key=repr), sorted(i2, key=repr)
        if len(i1) != len(i2) or any(x[0] != y[0] or not C.same(x[1], y[1]) for x, y in zip(i1, i2)):
            fails.append((None, 'bystander handler invocations differ when the offender is present: op %r with=%r without=%r'
                          % (S._brief(op2), i1, i2)))
            break
        c1 = [(tk, _rename(a, inv_m)) for tk, a in im1['callbacks']]
        c2 = [(tk, list(a)) for tk, a in im2['callbacks']]
        if not off_addr and (len(c1) != len(c2) or any(x[0] != y[0] or not C.same(x[1], y[1]) for x, y in zip(c1, c2))):
            fails.append((None, 'callbacks differ when the offender is present: op %r with=%r without=%r' % (S._brief(op2), c1, c2)))
            break
        if not off_addr and op2['op'] in ('rooms', 'get_session', 'session_block'):
            r1 = _rename(im1['result'], inv_m)
            if im1['exc'] != im2['exc'] or not C.same(_sorted(r1), _sorted(im2['result'])):
                fails.append((None, '%s answers differently when the offender is present: %r / %r' % (op2['op'], r1, im2['result'])))
                break
    # the offender's own traffic: nothing goes to anybody else, nothing undecodable reaches a handler
    cf = S.ClientFrames()
    for op, im, _ in trace:
        if op.get('t') != OFF or op['op'] not in ('frame', 'frameval'):
            if op['op'] == 'lost' and op.get('t') == OFF:
                cf.drop(OFF)
            continue
        stray = (not server_opts and op['op'] == 'frameval' and isinstance(op['v'], (bytes, bytearray)) and op['v']
                 and OFF not in cf.pend)
        if stray and (im['invokes'] or im['sends']):
            fails.append((None, 'a stray binary frame (no binary packet pending) was decoded and acted upon: %r -> invokes %r, '
                                'packets %r' % (op['v'], im['invokes'], im['sends'])))
        if not server_opts and cf.feed(op) == 'undecodable' and im['invokes']:
            fails.append((None, 'a packet that cannot be decoded (text frame + attachments do not reconstruct) reached an '
                                'application handler: %r -> %r' % (S._brief(op), im['invokes'])))
        for t, fr in im['sends'].items():
            if t != OFF:
                fails.append((None, 'a frame from the offender made the server send to %s: %r -> %r' % (t, S._brief(op), fr)))
        for sl, a in im['invokes']:
            pos = S.sid_position(sl)
            if len(a) <= pos or owner.get(a[pos]) != OFF:
                fails.append((None, 'a frame from the offender invoked a handler whose session-id argument is not one of the '
                                    'offender\'s own ids (handler invoked on behalf of somebody else): %r' % ((sl, a),)))
        if im['callbacks']:
            # a callback may fire only for an id the server issued to the offender itself: checked by C06's oracle;
            # here: never in the same step as an error
            pass
        if im['raised'] and im['invokes'] and not im['handler_raised']:
            evs = [i for i in im['invokes'] if i[0][2] not in ('connect', 'on_connect')]
            if evs and op['op'] == 'frame' and _undecodable(op['text']):
                fails.append((None, 'an undecodable frame reached an application handler: %r' % (op,)))
        if server_opts and server_opts.get('serializer') == 'msgpack' and op['op'] == 'frameval' \
                and isinstance(op['v'], (bytes, bytearray)) and im['invokes'] and _mp_malformed(op['v']):
            fails.append((None, 'a msgpack frame that is not a packet map with its mandatory fields reached an application '
                                'handler: %r -> %r' % (op['v'], im['invokes'])))
    return fails


def _mp_malformed(b):
    """not a msgpack map carrying the mandatory 'type' and 'nsp' fields of a packet"""
    import msgpack
    try:
        d = msgpack.loads(bytes(b))
    except Exception:   # noqa
        return True
    return not (isinstance(d, dict) and 'type' in d and 'nsp' in d)


def _undecodable(text):
    try:
        pycodec.decode_text(text)
        return False
    except Exception:   # noqa
        return True


def _sorted(v):
    if isinstance(v, list):
        try:
            return sorted(v, key=repr)
        except Exception:   # noqa
            return v
    return v


def nontrivial(cfg, trace):
    host = sum(1 for o, _, _ in trace if o.get('_hostile'))
    by = set(o.get('t') for o, im, _ in trace if o.get('t') not in (None, OFF) and (im['invokes'] or im['sends']))
    if host >= 3 and len(by) >= 2:
        return hash(repr([o for o, _, _ in trace]))
    return None


# ---------------------------------------------------------------- allocation / work probe (in a child process)
#
# "a declared attachment count or id never makes the server reserve resources (memory, work) in proportion to the
# number declared".  The frames are fed to the real server in a CHILD process that has a hard address-space limit, so
# that a server which does reserve in proportion is reported (MemoryError / kill / stall / measured growth) instead
# of taking the check down with it.  Declared numbers climb a ladder: small ones first, so that a guilty server is
# reported by the smallest declared number that shows the growth, and the absurd ones only after the small ones were
# found innocent.

AS_EXTRA = 1536 * 1024 * 1024      # address space the child may take above what it holds when the probe starts
WALL = 120                         # seconds; only turns a stall of the child into a report
CPU_LIMIT = 5.0                    # seconds of CPU for ONE frame of < 150 characters (unchanged tree: < 1 ms)
LINES_SLACK = 50000                # interpreter line events for one frame (unchanged tree: a few hundred)
_GUILTY = [None]                   # smallest declared number found guilty by the probe (None: innocent)


def alloc_limit(f):
    return 200 * len(f) + 262144


def probe_rungs():
    """[(declared number, frame)] — small declared numbers first"""
    out = []
    for n in (10 ** 3, 10 ** 4, 10 ** 5, 10 ** 6, 10 ** 9, 9999999999):
        out += [(n, '5%d-["msg"]' % n),
                (n, '5%d-/a,7["msg",{"_placeholder":true,"num":%d}]' % (n, n - 1)),
                (n, '5%d-["msg",{"_placeholder":true,"num":0}]' % n),
                (n, '6%d-1[{"_placeholder":true,"num":0}]' % n),
                (n, '2%d["msg"]' % n), (n, '3%d[]' % n), (n, '2/a,%d["msg",1]' % n)]
    big = 10 ** 100 - 1
    out += [(big, '2%d["msg"]' % big), (big, '3%d[]' % big), (big, '5999999999-%d["msg"]' % (10 ** 99 - 1))]
    return out


def _child():
    """child process: stdin = {"mode", "rungs": [[declared, frame]..], "as_extra"}; one 'B i' line before and one
    'E i {..}' line after every rung; stops after the first guilty rung"""
    import json
    import resource
    import sys
    import threading
    import time
    job = json.loads(sys.stdin.read())
    cfg = S.default_cfg()
    cfg['fn'] = [['/', 'connect'], ['/', 'msg'], ['/a', 'connect'], ['/a', 'msg']]
    r = S.Runner(job['mode'], cfg)
    r.do({'op': 'open', 't': 'W'})
    r.do({'op': 'frame', 't': 'W', 'text': '0'})
    r.do({'op': 'frame', 't': 'W', 'text': '2["msg",1]'})          # warm up (imports, caches)
    vm = 0
    for line in open('/proc/self/status'):
        if line.startswith('VmSize:'):
            vm = int(line.split()[1]) * 1024
    resource.setrlimit(resource.RLIMIT_AS, (vm + job['as_extra'], vm + job['as_extra']))
    state = {'lines': 0, 'memerr': False}

    def local(frame, event, arg):
        if event == 'line':
            state['lines'] += 1
        elif event == 'exception' and isinstance(arg[0], type) and issubclass(arg[0], MemoryError):
            state['memerr'] = True
        return local

    def tracer(frame, event, arg):
        return local
    for i, (n, f) in enumerate(job['rungs']):
        sys.stdout.write('B %d\n' % i)
        sys.stdout.flush()
        t = 'P%d' % i
        r.do({'op': 'open', 't': t})
        r.do({'op': 'frame', 't': t, 'text': '0'})
        r.do({'op': 'frame', 't': t, 'text': '0/a,'})
        state['lines'], state['memerr'] = 0, False
        res = {}
        tracemalloc.start()
        before = tracemalloc.get_traced_memory()[0]
        cpu = time.process_time()
        threading.settrace(tracer)
        sys.settrace(tracer)
        try:
            obs = r.do({'op': 'frame', 't': t, 'text': f})
            res['exc'] = obs.get('exc')
        except MemoryError:
            state['memerr'] = True
        except Exception as ex:   # noqa
            res['harness_exc'] = repr(ex)
        finally:
            sys.settrace(None)
            threading.settrace(None)
        res['cpu'] = time.process_time() - cpu
        res['allocated'] = tracemalloc.get_traced_memory()[1] - before
        tracemalloc.stop()
        res['lines'], res['memerr'] = state['lines'], state['memerr']
        res['guilty'] = bool(res['memerr'] or res['allocated'] > alloc_limit(f) or res['cpu'] > CPU_LIMIT
                             or res['lines'] > LINES_SLACK + 200 * len(f))
        sys.stdout.write('E %d %s\n' % (i, json.dumps(res)))
        sys.stdout.flush()
        if res['guilty']:
            break
        try:
            r.do({'op': 'frameval', 't': t, 'v': b'x'})
            r.do({'op': 'lost', 't': t})
        except Exception:   # noqa
            pass
    sys.stdout.write('END\n')
    sys.stdout.flush()
    import os
    os._exit(0)


def run_child(mode, rungs, wall=WALL):
    """-> [(index, declared, frame, result dict)], result['guilty'] says whether the rung violates the statement;
    a rung the child did not survive (killed, out of memory, stalled) is reported with result['died']."""
    import json
    import os
    import subprocess
    import sys
    p = subprocess.Popen([sys.executable, '-c', 'from harness.props import c12; c12._child()'], cwd=C.ROOT,
                         stdin=subprocess.PIPE, stdout=subprocess.PIPE, stderr=subprocess.PIPE, env=dict(os.environ))
    job = json.dumps({'mode': mode, 'rungs': [[n, f] for n, f in rungs], 'as_extra': AS_EXTRA}).encode()
    how = None
    try:
        out, err = p.communicate(job, timeout=wall)
    except subprocess.TimeoutExpired:
        p.kill()
        out, err = p.communicate()
        how = 'made no progress for the %d s the probe allows (stall); child killed' % wall
    began, results, ended = None, [], False
    for line in out.decode('utf-8', 'replace').splitlines():
        w = line.split(' ', 2)
        if w[0] == 'B':
            began = int(w[1])
        elif w[0] == 'E':
            i = int(w[1])
            results.append((i, rungs[i][0], rungs[i][1], json.loads(w[2])))
            began = None
        elif w[0] == 'END':
            ended = True
    if not ended:
        if how is None:
            tail = err.decode('utf-8', 'replace').strip().splitlines()[-1:] or ['']
            how = 'child process ended with status %r (%s)' % (p.returncode, tail[0][:200])
        if began is None:
            # not inside a rung: the harness itself failed, not the property
            raise RuntimeError('allocation probe child failed outside a probed frame: ' + how)
        results.append((began, rungs[began][0], rungs[began][1], {'guilty': True, 'died': how}))
    return results


def describe(f, res):
    if res.get('died'):
        return 'processing the %d-character frame %r: server process %s' % (len(f), f[:60], res['died'])
    why = []
    if res.get('memerr'):
        why.append('ran out of memory (MemoryError under a %d MB address-space allowance)' % (AS_EXTRA >> 20))
    if res['allocated'] > alloc_limit(f):
        why.append('allocated %d bytes' % res['allocated'])
    if res['lines'] > LINES_SLACK + 200 * len(f):
        why.append('executed %d interpreter lines' % res['lines'])
    if res['cpu'] > CPU_LIMIT:
        why.append('took %.1f s of CPU' % res['cpu'])
    return 'processing the %d-character frame %r %s' % (len(f), f[:60], ', '.join(why))


def alloc_probe(ctx):
    """a declared attachment count / id never makes the server reserve in proportion to the number declared"""
    worst, worst_lines, nr = 0, 0, 0
    rungs = probe_rungs()
    for mode in ('threading', 'asyncio'):
        for i, n, f, res in run_child(mode, rungs):
            nr += 1
            ctx.count('alloc_probe.declared_1e%d' % (len(str(n)) - 1))
            if res['guilty']:
                _GUILTY[0] = n if _GUILTY[0] is None else min(_GUILTY[0], n)
                ctx.violation('oracle', describe(f, res) + ' (declared number %d, %s server; resources reserved '
                              'in proportion to a number the client merely declares)' % (n, mode),
                              {'alloc_probe': {'frame': f, 'declared': n, 'mode': mode}, 'measured': res})
            else:
                worst = max(worst, res['allocated'])
                worst_lines = max(worst_lines, res['lines'])
    ctx.coverage['alloc_probe_worst_bytes'] = worst
    ctx.coverage['alloc_probe_worst_lines'] = worst_lines
    ctx.coverage['alloc_probe_frames'] = nr
    ctx.coverage['alloc_probe_rule'] = (
        'declared attachment counts / ids 10^3..10^6, 10^9, 9999999999 (and 100-digit ids) fed to both server '
        'families in a child process with RLIMIT_AS = size at start + %d MB; per frame: tracemalloc peak, interpreter '
        'line events, CPU, MemoryError, death or stall of the child; smallest declared numbers first, the ladder '
        'stops at the first guilty rung' % (AS_EXTRA >> 20))
    if _GUILTY[0] is not None:
        ctx.notes.append('allocation probe: declared number %d already makes the server reserve in proportion; hostile '
                         'frames declaring numbers >= %d are not fed to the in-process servers of this run'
                         % (_GUILTY[0], _GUILTY[0]))


def declares_at_least(text, limit):
    """does the frame contain a run of decimal digits whose value is >= limit?"""
    run = ''
    for ch in text + ' ':
        if ch.isdigit():
            run += ch
            continue
        if run:
            try:
                if int(run) >= limit:
                    return True
            except ValueError:
                pass
            run = ''
    return False


def safe_in_process(op):
    """once the probe has found the server guilty, frames declaring a number at least as large as the smallest
    guilty one are kept away from the in-process servers (they would take the check down, and the verdict exists)"""
    if _GUILTY[0] is None:
        return True
    if op['op'] == 'frame':
        return not declares_at_least(op['text'], _GUILTY[0])
    if op['op'] == 'burst':
        return all(safe_in_process(o) for o in op['frames'])
    if op['op'] == 'call':
        return all(safe_in_process(o) for o in op['during'])
    return True


def run(ctx):
    C.proof_step(ctx, ['handlers are passive (return values only), as in the statement',
                       'allocation is probed with tracemalloc, not modelled'])
    orig = S.representable
    # first, and in a child process: the only place where absurd declared numbers meet a server that has not yet
    # been found innocent of reserving in proportion to them
    _GUILTY[0] = None
    alloc_probe(ctx)

    def rep(op):
        if not safe_in_process(op):
            ctx.count('skipped_declares_guilty_number')
            return False
        return orig(op) and representable_domain(op)
    S.representable = rep
    try:
        S.run_cases(ctx, PROFILE, ctx.scale(120, 2500), 60, oracle=oracle, nontrivial=nontrivial, gen_hook=gen_hook)
    finally:
        S.representable = orig
    ctx.coverage['rule'] = ('one offender (first transport) sends fixed hostile frames, grammar mutations of valid packets, odd '
                            'engine.io values and noise, interleaved with well-formed traffic of 2-3 bystanders on the same and '
                            'other namespaces; both server families vs the model, and each scenario re-run without the offender '
                            '(bystander-visible packets, handler invocations, callbacks, rooms()/session answers must be equal). '
                            'non-trivial = >=3 hostile frames and >=2 active bystanders')
    ctx.assumptions.append('msgpack serializer: covered by the two-run oracle on the real servers only (the Lean model is of the default packet class)')


def replay(ctx, r):
    rep = r.get('replay', r)
    if isinstance(rep, dict) and isinstance(rep.get('alloc_probe'), dict):
        ap = rep['alloc_probe']
        print('%s server, one connected client sends the %d-character frame %r (declared number %d)'
              % (ap['mode'], len(ap['frame']), ap['frame'], ap['declared']))
        out = run_child(ap['mode'], [(ap['declared'], ap['frame'])])
        i, n, f, res = out[-1]
        print('  measured:', res)
        print('  allowed : %d bytes, %d interpreter lines, %.0f s CPU, no MemoryError, child survives'
              % (alloc_limit(f), LINES_SLACK + 200 * len(f), CPU_LIMIT))
        print('oracle verdict :', ('VIOLATED — ' + describe(f, res)) if res['guilty'] else 'holds')
        return 1 if res['guilty'] else 0
    return S.replay_case(ctx, r, oracle=oracle)
