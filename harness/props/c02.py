"""C02 — end-to-end payload transparency between client and server handlers (K1+K2).

Real `socketio.Client` <-> real `socketio.Server` and `AsyncClient` <-> `AsyncServer` over the
in-memory engine.io pair of harness/world_e2e.py, x {default, msgpack} x {raw, base64/payload
framing}.  Per burst (1-8 consecutive emit/send/call by one sender, with and without
acknowledgement):

 (a) oracle — the statement itself on the implementation: the peer's handlers are invoked, in the
     order sent, on the namespace and event sent, with exactly the arguments the tuple/None/one
     rule prescribes (byte strings included); callbacks get what the handlers returned under the
     same rule, `call()` returns its normalised form; nothing else is invoked, nothing raised;
 (b) correspondence — the frames on the wire (both directions) are the frame groups
     `Args.send (Msg.packet m)` of the model (`_to_dict` for msgpack), and the model's prediction
     `Args.deliver` / `Args.deliverMP` / `callResult` on its own frames equals the observed
     invocations and results.

Client manager (`manager` of the configuration: default | pubsub | pubsub2, see world_e2e): the same bursts on a
server behind a message queue — one host, or the application on host hA and the client on host hB.  The manager
is not part of the model: the expected frames, deliveries and results are the same (only the acknowledgement id
that travels is every second one on a single pub/sub host, which numbers the application's callback as well).

Concurrent bursts (asyncio pairings, `deliver: 'tasks'`): the burst of emit/send is delivered the way
the real engine.io cores deliver it (`E2EWorld.pump_concurrent`: one task per message towards the
client, socket.io's own handler tasks on the server with `async_handlers=True`, scripted loop turns
between the packets, the loop's default executor owned by the harness and only served when the loop is
idle) to handlers that are a mix of plain functions and coroutine functions.  The oracle is the order
clause: the handlers START in the order the messages were sent (recorded at handler entry), every
message is handled exactly once with its arguments and every handler that started also finished;
acknowledgements may come back in any order (the handlers finish in any order), each exactly once.
The correspondence is kept: forward frames and predicted deliveries as before, the acknowledgement
frames are the model's frame groups in the order of completion (any permutation of whole groups).
"""
import itertools
import json

from .. import common as C
from .. import gen as G

LEVEL = 'proof'

RESERVED = {'connect', 'disconnect', 'connect_error', '__disconnect_final', '*'}
NS_POOL = ['/chat', '/a/b', '/é', '/x-1', '/12', '/\U0001f600', '/a b', '/[', '/0', '/-', '/n"s', '/٣']
CONFIGS = list(itertools.product(['threading', 'asyncio'], ['default', 'msgpack'], ['raw', 'b64']))

# every corner of the tuple / None / one rule, sent and returned in every configuration
CORNERS = [None, (), (1,), ([],), (None,), (None, None), [], [[]], [1, 2], (1, 2), ([1, 2],), ([1], [2]),
           {}, '', b'', 0, False, [None], (b'\x00', {'k': [b'\x01']}), [{'d': {'b': b'\xff\xfe'}}],
           ('a', 2, 3.5, None, True, b'z', [], {}), 1.5, -0.0, 2 ** 63 - 1, -2 ** 63, 'é\U0001f600\x00"\\',
           {'num': 0, 'placeholder': True}]


def W():
    from .. import world_e2e
    return world_e2e


# ------------------------------------------------------------------ the rules, in Python (oracle)

def pack(d):
    if d is None:
        return []
    if isinstance(d, tuple):
        return list(d)
    return [d]


def normalise(d):
    a = pack(d)
    if len(a) == 0:
        return None
    if len(a) == 1:
        return a[0]
    return tuple(a)


def shape(d):
    if d is None:
        return 'none'
    if isinstance(d, tuple):
        return 'tuple%d' % min(len(d), 3)
    if isinstance(d, list):
        return 'list'
    if isinstance(d, dict):
        return 'dict'
    if isinstance(d, (bytes, bytearray)):
        return 'bytes'
    return 'scalar'


def bytes_under_dict_under_list(v, in_list=False, in_dict_in_list=False):
    if isinstance(v, (bytes, bytearray)):
        return in_dict_in_list
    if isinstance(v, list):
        return any(bytes_under_dict_under_list(x, True, in_dict_in_list) for x in v)
    if isinstance(v, dict):
        return any(bytes_under_dict_under_list(x, in_list, in_dict_in_list or in_list) for x in v.values())
    return False


def nontrivial(d):
    if isinstance(d, tuple):
        return len(d) >= 2 or any(bytes_under_dict_under_list(x) for x in d)
    return bytes_under_dict_under_list(d)


# ------------------------------------------------------------------ generators

def gen_data(rng):
    r = rng.random()
    if r < 0.08:
        return None
    if r < 0.12:
        return ()
    if r < 0.20:
        return (G.gen_value(rng, 2, 0.2),)
    if r < 0.45:
        return tuple(G.gen_value(rng, 3, 0.25) for _ in range(rng.randint(2, 4)))
    if r < 0.50:
        return []
    if r < 0.62:
        return [G.gen_value(rng, 3, 0.3) for _ in range(rng.randint(1, 4))]
    if r < 0.72:
        # bytes under a dict under a list, on purpose
        return [G.gen_value(rng, 1, 0.1), {'k': G.gen_bytes(rng), 'v': [G.gen_value(rng, 2, 0.4)]}]
    return G.gen_value(rng, 3, 0.25)


def gen_event(rng):
    while True:
        ev = G.gen_event_name(rng)
        if ev not in RESERVED:
            return ev


def gen_namespaces(rng):
    k = rng.randint(1, 3)
    nss = rng.sample(NS_POOL, k)
    if rng.random() < 0.6:
        nss[rng.randrange(k)] = '/'
    return nss


def gen_burst(rng, cfg, nss, n=None, p_server=0.5):
    side = 'server' if rng.random() < p_server else 'client'
    n = n or rng.randint(1, 8)
    msgs = []
    for _ in range(n):
        r = rng.random()
        can_call = side == 'client' or cfg['async_handlers']
        if r < 0.2 and can_call:
            kind = 'call'
        elif r < 0.4:
            kind = 'send'
        else:
            kind = 'emit'
        m = {'kind': kind, 'ev': 'message' if kind == 'send' else gen_event(rng), 'data': gen_data(rng),
             'ns': rng.choice(nss), 'cb': kind == 'call' or rng.random() < 0.5, 'ret': gen_data(rng),
             'coro': rng.random() < 0.5}
        if msgs and rng.random() < 0.2:
            # the application sends the very same object again
            m['data'] = C.unjsonable(C.jsonable(msgs[-1]['data']))
            m['same_data'] = True
        if msgs and rng.random() < 0.2:
            # the handler returns the very same (stored) object again
            m['ret'] = C.unjsonable(C.jsonable(msgs[-1]['ret']))
            m['same_ret'] = True
            if msgs[-1]['cb']:
                m['cb'] = True
        msgs.append(m)
    burst = {'side': side, 'msgs': msgs}
    if cfg['mode'] == 'asyncio' and rng.random() < 0.45:
        concurrent(burst, rng)
    elif can_call and len(msgs) >= 2 and rng.random() < 0.3:
        overlap(msgs, rng)
    return burst


def overlap(msgs, rng):
    """one message becomes a call() that gives up waiting; the 1-3 messages after it are sent (with callbacks)
    while it still waits; their acknowledgements — and the late one of the call — arrive afterwards"""
    i = rng.randrange(len(msgs) - 1)
    msgs[i].update(kind='call', cb=True, gives_up=True)
    if msgs[i]['ev'] == 'message':
        msgs[i]['ev'] = gen_event(rng)
    for j in range(i + 1, min(len(msgs), i + 1 + rng.randint(1, 3))):
        if msgs[j]['kind'] == 'call':
            msgs[j]['kind'] = 'emit'
        msgs[j]['while_waiting'] = True
        if rng.random() < 0.8:
            msgs[j]['cb'] = True


def concurrent(burst, rng=None, gaps=None, exec_lifo=False):
    """Mark the burst for concurrent delivery: consecutive emit/send (call() waits for its answer before the
    next message is sent: nothing to interleave), loop turns between the arriving packets, the order in which
    a thread pool would serve two waiting jobs."""
    for m in burst['msgs']:
        if m['kind'] == 'call':
            m['kind'] = 'emit'
        m.pop('gives_up', None)
        m.pop('while_waiting', None)
    burst['deliver'] = 'tasks'
    if rng is not None:
        gaps = [rng.choice([0, 0, 0, 0, 1, 1, 2, 3, 7]) for _ in range(rng.randint(1, 12))]
        if rng.random() < 0.3:
            gaps = [0]                      # the whole burst in one polling payload
        exec_lifo = rng.random() < 0.5
    burst['gaps'] = gaps or [0]
    burst['exec_lifo'] = bool(exec_lifo)
    return burst


def mixed_handler_bursts(cfg, nss):
    """asyncio: every arrangement of 2 and 3 consecutive messages over {plain function, coroutine} handlers,
    with and without acknowledgement, text and binary payloads, packets back to back and a loop turn apart."""
    out = []
    datas = [['t', 1], [{'k': b'\x01\x02'}, b'\x03'], 'x', {'d': [b'', b'\x04']}]
    k = 0
    for side in ('client', 'server'):
        for n in (2, 3):
            for kinds in itertools.product([False, True], repeat=n):
                for ack in (False, True):
                    msgs = []
                    for i, coro in enumerate(kinds):
                        k += 1
                        msgs.append({'kind': 'emit', 'ev': 'co' if coro else 'fn', 'data': (datas[k % 4], i),
                                     'ns': nss[(k // 3) % len(nss)], 'cb': ack, 'ret': (i, datas[(k + 1) % 4]),
                                     'coro': coro})
                    out.append(concurrent({'side': side, 'msgs': msgs}, gaps=[[0], [1], [0, 2]][k % 3],
                                          exec_lifo=k % 2 == 0))
    return C.unjsonable(C.jsonable(out))


def corner_bursts(cfg, nss):
    out = []
    for side in ('client', 'server'):
        msgs = []
        for i, d in enumerate(CORNERS):
            kind = 'emit'
            if i % 3 == 1 and (side == 'client' or cfg['async_handlers']):
                kind = 'call'
            elif i % 3 == 2:
                kind = 'send'
            msgs.append({'kind': kind, 'ev': 'message' if kind == 'send' else 'corner', 'data': d,
                         'ns': nss[i % len(nss)], 'cb': True, 'ret': CORNERS[(i * 7 + 3) % len(CORNERS)],
                         'coro': i % 2 == 0})
        for i in range(0, len(msgs), 8):
            out.append({'side': side, 'msgs': msgs[i:i + 8]})
        # one object, sent three times and returned three times (emit, send, call)
        obj = [{'k': b'\x01\x02', 'l': [b'', 'x']}, [b'\x03']]
        tup = ({'d': [b'\x04']}, b'\x05')
        reuse = []
        for i, kind in enumerate(['emit', 'send', 'call' if (side == 'client' or cfg['async_handlers']) else 'emit']):
            reuse.append({'kind': kind, 'ev': 'message' if kind == 'send' else 'again', 'data': obj, 'ns': nss[-1],
                          'cb': True, 'ret': tup, 'coro': i == 1, 'same_data': i > 0, 'same_ret': i > 0})
        out.append({'side': side, 'msgs': C.unjsonable(C.jsonable(reuse))})
    if cfg['mode'] == 'asyncio':
        out += [concurrent(b, gaps=[0, 1, 0, 0, 2], exec_lifo=i % 2 == 1)
                for i, b in enumerate(C.unjsonable(C.jsonable(out)))]
    return out


# ------------------------------------------------------------------ running a burst on the real classes

class Session:
    """One connected client/server pair plus the id counters the libraries are documented to use."""

    def __init__(self, cfg, nss, rng):
        self.cfg = cfg
        self.nss = nss
        self.w = W().E2EWorld(cfg['mode'], cfg['serializer'], cfg['framing'], nss, rng,
                              async_handlers=cfg['async_handlers'], settle=cfg.get('settle', 'frame'),
                              manager=cfg.get('manager', 'default'))
        self.ids = {'client': {}, 'server': {}}
        self.ntok = 0

    def close(self):
        self.w.close()

    def call_giving_up(self, side, m, data, meanwhile):
        """call() by `side` that waits in vain: the wait primitive (eio.create_event()) is the harness's; while the
        caller waits nothing moves on the link, `meanwhile()` runs (the application's other sends), then the wait
        ends the way an expired timeout ends it.  -> ('ok', value) | ('exc', class)"""
        w = self.w
        if side == 'client':
            fn, kw, eio = w.client.call, dict(namespace=m['ns']), w.ceio
        else:
            fn, kw, eio = w.api_sw.sio.call, dict(to=w.sids[m['ns']], namespace=m['ns']), w.api_sw.eio
        state = {'waiting': False, 'ran': False}

        def run_meanwhile():
            if not state['ran']:
                state['ran'] = True
                meanwhile()

        class GivesUp:
            def __init__(self):
                self.flag = False

            def set(self):
                self.flag = True

            def clear(self):
                self.flag = False

            def is_set(self):
                return self.flag

            def wait(self, timeout=None):
                state['waiting'] = True
                if not w.is_async:
                    run_meanwhile()
                    return self.flag

                async def wt():
                    await release
                return wt()

        orig = eio.create_event
        eio.create_event = lambda *a, **k: GivesUp()
        try:
            if not w.is_async:
                res = w._run(fn, m['ev'], data, timeout=0, **kw)
            else:
                import asyncio
                loop = w.loop
                release = loop.create_future()
                task = loop.create_task(fn(m['ev'], data, timeout=3600, **kw))
                for _ in range(60):
                    if task.done() or state['waiting']:
                        break
                    loop.run_until_complete(asyncio.sleep(0))
                loop.run_until_complete(asyncio.sleep(0))
                if state['waiting'] and not task.done():
                    run_meanwhile()
                    release.set_exception(asyncio.TimeoutError())
                if not task.done() and not state['waiting']:
                    task.cancel()
                try:
                    res = ('ok', loop.run_until_complete(task))
                except Exception as ex:   # noqa
                    res = ('exc', type(ex).__name__)
                except BaseException as ex:   # noqa  (cancelled: the call never reached its wait)
                    res = ('exc', type(ex).__name__)
                if not release.done():
                    release.cancel()
        finally:
            eio.create_event = orig
        run_meanwhile()              # the messages are sent in any case
        return res

    def run(self, burst):
        """-> observation dict"""
        w = self.w
        side = burst['side']
        peer = 'server' if side == 'client' else 'client'
        w.log = []
        w.errors = []
        w.take_wire()
        sent = []
        held = []                # the application's own objects: (payload passed, value the handler returns)
        prev = [None, None]
        kinds = []               # what the receiving handler of each message really is (first registration wins)
        msgs = burst['msgs']

        def issue(i):
            """sends message i; -> index of the next message to send"""
            m = msgs[i]
            kinds.append(w.handler(peer, m['ns'], m['ev'], coro=m['coro']))
            # m['data'] / m['ret'] are never handed to the library: they are the deep copies the
            # oracle judges against.  The application's object is a separate copy — or, for
            # `same_data` / `same_ret`, the very object used for the previous message.
            data = prev[0] if m.get('same_data') and held else C.unjsonable(C.jsonable(m['data']))
            ret = prev[1] if m.get('same_ret') and held else C.unjsonable(C.jsonable(m['ret']))
            prev[:] = [data, ret]
            held.append((data, ret))
            w.rets[peer].append(ret)
            mid = None
            tok = None
            if m['cb']:
                c = self.ids[side]
                mid = c[m['ns']] = c.get(m['ns'], 0) + (w.ack_id_step if side == 'server' else 1)
            entry = {'id': mid, 'tok': tok, 'res': None}
            sent.append(entry)
            nxt = i + 1
            if m['kind'] == 'call' and m.get('gives_up'):
                # a call() whose answer does not come in time: while it waits the application sends the following
                # messages (marked `while_waiting`) to the same peer, then the call gives up; the traffic moves after
                while nxt < len(msgs) and msgs[nxt].get('while_waiting') and msgs[nxt]['kind'] != 'call':
                    nxt += 1
                inner = list(range(i + 1, nxt))
                entry['res'] = self.call_giving_up(side, m, data, lambda: [issue(j) for j in inner])
            elif m['kind'] == 'call':
                entry['res'] = w.call(side, m['ev'], data, m['ns'])
            else:
                cb = None
                if m['cb']:
                    self.ntok += 1
                    entry['tok'] = 'k%d' % self.ntok
                    cb = w.callback(side, entry['tok'], coro=m['coro'])
                entry['res'] = w.emit(side, m['ev'], data, m['ns'], cb=cb, use_send=(m['kind'] == 'send'))
            return nxt

        i = 0
        while i < len(msgs):
            i = issue(i)
        conc = None
        if burst.get('deliver') == 'tasks':
            conc = w.pump_concurrent(burst.get('gaps') or [0], burst.get('exec_lifo', False))
        else:
            w.pump()
        leftover = list(w.rets[peer])
        w.rets[peer] = []
        wire = w.take_wire()
        fwd, rev = ('c2s', 's2c') if side == 'client' else ('s2c', 'c2s')
        return {'sent': sent, 'log': w.log, 'errors': list(w.errors), 'fwd': wire[fwd], 'rev': wire[rev],
                'leftover_rets': len(leftover), 'held': held, 'kinds': kinds, 'concurrent': conc}


def oracle(burst, obs):
    """The property on the implementation alone.  -> list of failure descriptions"""
    fails = []
    side = burst['side']
    peer = 'server' if side == 'client' else 'client'
    msgs = burst['msgs']
    if obs['errors']:
        fails.append('exception raised/contained: %r' % (obs['errors'][:3],))
    for e in obs['log']:
        if e[0] in ('stray', 'wrong-sid'):
            fails.append('unexpected invocation %r' % (e,))
    inv = [e for e in obs['log'] if e[0] == 'h']
    if any(e[1] != peer for e in inv):
        fails.append('handler invoked on the sending side')
    want = [[m['ns'], m['ev'], pack(m['data'])] for m in msgs]
    got = [[e[2], e[3], e[4]] for e in inv]
    conc = burst.get('deliver') == 'tasks'
    if len(got) != len(want):
        fails.append('%d handler invocations for %d messages' % (len(got), len(want)))
    elif got != want and sorted(map(repr, got)) == sorted(map(repr, want)):
        # every message handled once with its arguments, but not in the order sent
        idx, used = [], set()
        for g in got:
            j = next(j for j, x in enumerate(want) if j not in used and repr(x) == repr(g))
            used.add(j)
            idx.append(j)
        fails.append('handlers of messages sent in the order %r STARTED in the order %r (handler kinds %r)'
                     % (list(range(len(want))), idx, obs.get('kinds')))
    else:
        for i, (g, x) in enumerate(zip(got, want)):
            if g[:2] != x[:2]:
                fails.append('message %d handled as (namespace, event) %r, sent as %r (order or addressing)'
                             % (i, g[:2], x[:2]))
            elif not C.same(g[2], x[2]):
                fails.append('message %d: handler arguments %r, sent %r' % (i, g[2], x[2]))
    # every handler that started also returned; one after the other unless the burst was delivered concurrently
    started = [e[5] for e in inv if len(e) > 5]
    done = [e[2] for e in obs['log'] if e[0] == 'done']
    if sorted(started) != sorted(done):
        fails.append('handler invocations started %r, finished %r' % (started, done))
    elif not conc:
        seq = [(e[0], e[5] if e[0] == 'h' else e[2]) for e in obs['log'] if e[0] in ('h', 'done') and
               (e[0] == 'done' or len(e) > 5)]
        if seq != [(t, n) for n in started for t in ('h', 'done')]:
            fails.append('handlers overlap although the messages are delivered one at a time: %r' % (seq[:8],))
    if conc and obs.get('concurrent') and obs['concurrent']['stuck']:
        fails.append('still unfinished when the loop had come to rest and no executor job was outstanding: %r'
                     % (obs['concurrent']['stuck'][:4],))
    cbs = [e for e in obs['log'] if e[0] == 'cb']
    want_cb = [[s['tok'], pack(m['ret'])] for m, s in zip(msgs, obs['sent']) if s['tok'] is not None]
    got_cb = [[e[2], e[3]] for e in cbs]
    if any(e[1] != side for e in cbs):
        fails.append('callback invoked on the wrong side')
    if conc:
        # the handlers finish in any order, so do the acknowledgements: each exactly once, right arguments
        if sorted(g[0] for g in got_cb) != sorted(x[0] for x in want_cb):
            fails.append('callbacks invoked %r, expected each of %r once'
                         % ([g[0] for g in got_cb], [x[0] for x in want_cb]))
        elif got == want:
            # (the scripted results are handed out at handler entry: they belong to the messages only when the
            # handlers started in the order sent)
            byt = dict((x[0], x[1]) for x in want_cb)
            for g in got_cb:
                if not C.same(g[1], byt[g[0]]):
                    fails.append('callback %s received %r, handler returned %r' % (g[0], g[1], byt[g[0]]))
    elif [g[0] for g in got_cb] != [x[0] for x in want_cb]:
        fails.append('callbacks invoked %r, expected %r (each once, in order)'
                     % ([g[0] for g in got_cb], [x[0] for x in want_cb]))
    else:
        for g, x in zip(got_cb, want_cb):
            if not C.same(g[1], x[1]):
                fails.append('callback %s received %r, handler returned %r' % (g[0], g[1], x[1]))
    for i, (m, s) in enumerate(zip(msgs, obs['sent'])):
        if m['kind'] == 'call' and m.get('gives_up'):
            if tuple(s['res']) != ('exc', 'TimeoutError'):
                fails.append('message %d: the call() whose wait expired before anything was answered ended with %r'
                             % (i, s['res']))
        elif m['kind'] == 'call':
            if s['res'][0] != 'ok':
                fails.append('message %d: call() ended with %r' % (i, s['res']))
            elif not C.same(s['res'][1], normalise(m['ret'])):
                fails.append('message %d: call() returned %r, handler returned %r (expected %r)'
                             % (i, s['res'][1], m['ret'], normalise(m['ret'])))
        elif s['res'] != ('ok', None):
            fails.append('message %d: %s() ended with %r' % (i, m['kind'], s['res']))
    # ... and the application still holds what it passed / returned
    for i, (m, (data, ret)) in enumerate(zip(msgs, obs.get('held', []))):
        if not C.same(data, m['data']):
            fails.append('message %d: the payload object passed to %s() was modified by the library: now %r, '
                         'was %r' % (i, m['kind'], data, m['data']))
        if not C.same(ret, m['ret']):
            fails.append('message %d: the object the handler returned was modified by the library: now %r, '
                         'was %r' % (i, ret, m['ret']))
    return fails


# ------------------------------------------------------------------ the model's view of a burst

def wmsg_event(m, mid):
    return {'kind': 'event', 'ev': C.s2w(m['ev']), 'data': C.data2w(m['data']), 'ns': C.s2w(m['ns']),
            'id': None if mid is None else str(mid)}


def wmsg_ack(m, mid):
    return {'kind': 'ack', 'ret': C.data2w(m['ret']), 'ns': C.s2w(m['ns']), 'id': str(mid)}


def w2data(w):
    if 'none' in w:
        return None
    if 'one' in w:
        return C.w2j(w['one'])
    return tuple(C.w2j(x) for x in w['tuple'])


def frames_of(groups):
    return [f for g in groups for f in g]


def frame_py(f):
    return C.w2s(f['t']) if 't' in f else bytes.fromhex(f['b'])


def model_view(drv, cfg, burst, obs):
    """-> dict(fwd, rev, handled, acked, calls) as the model predicts them"""
    mp = cfg['serializer'] == 'msgpack'
    msgs = burst['msgs']
    evs = [wmsg_event(m, s['id']) for m, s in zip(msgs, obs['sent'])]
    acks = [wmsg_ack(m, s['id']) for m, s in zip(msgs, obs['sent']) if s['id'] is not None]
    out = {}
    for name, ws in (('fwd', evs), ('rev', acks)):
        r = drv.ask({'op': 'c02_send', 'msgpack': mp, 'msgs': ws})
        if 'exc' in r:
            out[name] = {'exc': r['exc']}
            out[name + '_del'] = {'exc': r['exc']}
            continue
        if mp:
            out[name] = [C.w2j(d) for d in r['dicts']]
            out[name + '_groups'] = [[x] for x in out[name]]
            d = drv.ask({'op': 'c02_recv_mp', 'dicts': r['dicts']})
        else:
            fs = frames_of(r['groups'])
            out[name] = [frame_py(f) for f in fs]
            out[name + '_groups'] = [[frame_py(f) for f in g] for g in r['groups']]
            text = ''.join(x for x in out[name] if isinstance(x, str))
            d = drv.ask({'op': 'c02_recv', 'frames': fs, 'cls': C.digit_table(text)})
        out[name + '_del'] = d
    calls = []
    for m in msgs:
        if m['kind'] == 'call':
            calls.append(w2data(drv.ask({'op': 'c02_norm', 'data': C.data2w(m['ret'])})['call']))
    out['calls'] = calls
    return out


def real_wire_view(cfg, frames):
    """the observed wire in the model's terms: text/bytes frames, or decoded msgpack dictionaries"""
    if cfg['serializer'] != 'msgpack':
        return frames, None
    import msgpack
    try:
        return [msgpack.loads(f) for f in frames], None
    except Exception as ex:   # noqa
        return None, type(ex).__name__


def correspond(cfg, burst, obs, mv):
    """-> list of differences between implementation and model"""
    diffs = []
    side = burst['side']
    msgs = burst['msgs']
    for name in ('fwd', 'rev'):
        real, err = real_wire_view(cfg, obs[name])
        if err:
            diffs.append('%s wire is not msgpack: %s' % (name, err))
            continue
        model = mv[name]
        if isinstance(model, dict):
            diffs.append('model refuses the burst: %r' % (model,))
            continue
        if name == 'rev' and burst.get('deliver') == 'tasks':
            # the acknowledgements leave in the order the handlers finish: whole frame groups of the
            # model, each once, in any order
            groups = list(mv['rev_groups'])
            k = 0
            while k < len(real):
                j = next((j for j, g in enumerate(groups) if len(g) <= len(real) - k and
                          all(C.same(a, b) for a, b in zip(real[k:k + len(g)], g))), None)
                if j is None:
                    break
                k += len(groups.pop(j))
            if k < len(real) or groups:
                diffs.append('rev wire is not a sequence of the model\'s acknowledgement frame groups: at frame %d of '
                             '%d impl %r; model groups not seen %r' % (k, len(real), real[k:k + 1], groups[:2]))
        elif len(real) != len(model) or not all(C.same(a, b) for a, b in zip(real, model)):
            k = next((i for i, (a, b) in enumerate(zip(real, model)) if not C.same(a, b)), min(len(real), len(model)))
            diffs.append('%s wire differs from the model at frame %d of %d/%d: impl %r model %r'
                         % (name, k, len(real), len(model), real[k:k + 1], model[k:k + 1]))
    # deliveries predicted by the model from its own frames
    d = mv['fwd_del']
    inv = [[e[2], e[3], e[4]] for e in obs['log'] if e[0] == 'h']
    if 'exc' in d:
        diffs.append('model receiver raises %s on the event frames' % d['exc'])
    else:
        if d.get('pending'):
            diffs.append('model receiver left a packet parked')
        pred = []
        for x in d['deliveries']:
            if x['kind'] != 'event':
                pred.append(['?', x['kind'], []])
                continue
            ev = C.w2j(x['ev'])
            pred.append([C.w2s(x['ns']), ev, [C.w2j(a) for a in x['args']]])
        if len(pred) != len(inv) or not all(p[:2] == i[:2] and C.same(p[2], i[2]) for p, i in zip(pred, inv)):
            diffs.append('handler invocations differ from the model: impl %r model %r' % (inv[:3], pred[:3]))
    d = mv['rev_del']
    if 'exc' in d:
        diffs.append('model receiver raises %s on the ack frames' % d['exc'])
    else:
        acked = [(m, s) for m, s in zip(msgs, obs['sent']) if s['id'] is not None]
        pred = [[C.w2s(x['ns']), None if x['id'] is None else int(x['id']), [C.w2j(a) for a in x['args']]]
                for x in d['deliveries'] if x['kind'] == 'ack']
        if len(pred) != len(acked) or len(pred) != len(d['deliveries']):
            diffs.append('model predicts %d acknowledgements for %d expected' % (len(pred), len(acked)))
        else:
            cbs = {e[2]: e[3] for e in obs['log'] if e[0] == 'cb'}
            ci = 0
            for (m, s), p in zip(acked, pred):
                if p[0] != m['ns'] or p[1] != s['id']:
                    diffs.append('model ack addressed to %r, expected %r' % (p[:2], (m['ns'], s['id'])))
                if s['tok'] is not None:
                    if s['tok'] not in cbs or not C.same(cbs[s['tok']], p[2]):
                        diffs.append('callback %s: impl %r model %r' % (s['tok'], cbs.get(s['tok']), p[2]))
                else:
                    want = mv['calls'][ci]
                    ci += 1
                    got = s['res'][1] if s['res'][0] == 'ok' else s['res']
                    if m.get('gives_up'):
                        continue        # gave up before the acknowledgement came (judged by the oracle)
                    if not C.same(got, want):
                        diffs.append('call() result: impl %r model %r' % (got, want))
    return diffs


# ------------------------------------------------------------------ driver

MANAGERS = ['default', 'pubsub', 'pubsub2']
MANAGER_TEXT = {
    'default': 'Manager/AsyncManager (in memory, the default)',
    'pubsub': 'real PubSubManager/AsyncPubSubManager subclass over an in-memory channel, one host; the listener '
              'is served (the real _thread()) whenever the link is pumped',
    'pubsub2': 'the same, two hosts: emit/send/call issued on host hA, the client connected to host hB (payload '
               'and acknowledgement arguments cross the channel pickled)'}


def cfg_name(cfg):
    mgr = cfg.get('manager', 'default')
    return '%s.%s.%s%s' % (cfg['mode'], cfg['serializer'], cfg['framing'], '' if mgr == 'default' else '+' + mgr)


def count_concurrent(ctx, cfg, burst, obs, stats):
    info = obs['concurrent']
    n = len(burst['msgs'])
    stats['concurrent_bursts'] += 1
    stats['concurrent_msgs'] += n
    stats['concurrent_tasks'] += info['tasks']
    stats['executor_jobs'] += info['executor_jobs']
    ctx.count('concurrent.bursts')
    ctx.count('concurrent.receiver.%s' % ('AsyncServer.async_handlers=%s' % cfg['async_handlers']
                                          if burst['side'] == 'client' else 'AsyncClient'), n)
    ctx.count('concurrent.gap_pattern.%s' % ('back_to_back' if not any(burst['gaps']) else 'loop_turns_between'))
    kinds = obs['kinds']
    for k in kinds:
        ctx.count('concurrent.handler.%s' % k)
    for a, b in zip(kinds, kinds[1:]):
        ctx.count('concurrent.adjacent.%s_then_%s' % (a, b))
    if len(set(kinds)) > 1:
        ctx.count('concurrent.bursts_with_mixed_handlers')
        stats['concurrent_mixed'] += 1
    if any(len(f) and not isinstance(f, str) for f in obs['fwd']) and cfg['serializer'] != 'msgpack':
        ctx.count('concurrent.bursts_with_binary_attachments')


def run_case(ctx, drv, cfg, nss, bursts, stats):
    """One session; returns nothing, reports through ctx."""
    ses = Session(cfg, nss, ctx.rng)
    try:
        for bi, burst in enumerate(bursts):
            obs = ses.run(burst)
            stats['bursts'] += 1
            stats['msgs'] += len(burst['msgs'])
            ctx.count('cfg.' + cfg_name(cfg), len(burst['msgs']))
            ctx.count('async_handlers.%s' % cfg['async_handlers'], len(burst['msgs']))
            if cfg['async_handlers']:
                ctx.count('settle.%s' % cfg.get('settle', 'frame'), len(burst['msgs']))
            ctx.count('dir.%s' % burst['side'], len(burst['msgs']))
            mgr = cfg.get('manager', 'default')
            ctx.count('manager.%s.%s_to_peer' % (mgr, burst['side']), len(burst['msgs']))
            if burst['side'] == 'server':
                for m in burst['msgs']:
                    ctx.count('manager.%s.server_to_client.%s.data_%s' % (mgr, m['kind'], shape(m['data'])))
                    if m['cb']:
                        ctx.count('manager.%s.server_to_client.acknowledged.ret_%s' % (mgr, shape(m['ret'])))
            ctx.count('burst_len.%d' % len(burst['msgs']))
            if burst.get('deliver') == 'tasks':
                count_concurrent(ctx, cfg, burst, obs, stats)
            for m in burst['msgs']:
                ctx.count('kind.' + m['kind'])
                if m.get('gives_up'):
                    ctx.count('overlap.calls_that_give_up_while_later_messages_to_the_same_peer_wait_for_their_ack')
                if m.get('while_waiting') and m['cb']:
                    ctx.count('overlap.callbacks_registered_while_a_call_that_gives_up_waits')
                ctx.count('ack.%s' % bool(m['cb']))
                ctx.count('data.' + shape(m['data']))
                ctx.count('ret.' + shape(m['ret']))
                if m['ns'] != '/':
                    ctx.count('ns.non_default')
                if m.get('same_data'):
                    ctx.count('reuse.same_payload_object')
                if m.get('same_ret'):
                    ctx.count('reuse.same_returned_object')
                for v in (m['data'], m['ret'] if m['cb'] else None):
                    if nontrivial(v):
                        stats['nontrivial'].add(repr(v))
            stats['frames'] += len(obs['fwd']) + len(obs['rev'])
            rp = {'config': cfg, 'namespaces': nss, 'burst_index': bi,
                  'bursts': C.jsonable(bursts[:bi + 1])}
            fails = oracle(burst, obs)
            if fails:
                rp1 = dict(rp, failures=fails[:6], observed=C.jsonable({'log': obs['log'][:12],
                           'sent': obs['sent'], 'errors': obs['errors']}))
                rp1 = shrink(ctx, cfg, nss, burst, rp1)
                ctx.violation('oracle', '%s %s->peer: %s' % (cfg_name(cfg), burst['side'], fails[0]), rp1)
                return                      # the session's state is no longer meaningful
            mv = model_view(drv, cfg, burst, obs)
            diffs = correspond(cfg, burst, obs, mv)
            if diffs:
                ctx.violation('correspondence', '%s %s->peer: %s' % (cfg_name(cfg), burst['side'], diffs[0]),
                              dict(rp, differences=diffs[:6]), no_input=True)
                return
            stats['validated'] += 1
            if len(stats['samples']) < 4 and any(nontrivial(m['data']) and m['cb'] for m in burst['msgs']):
                m = next(m for m in burst['msgs'] if nontrivial(m['data']) and m['cb'])
                stats['samples'].append({'config': cfg_name(cfg), 'direction': burst['side'] + '->peer',
                                         'kind': m['kind'], 'event': m['ev'], 'namespace': m['ns'],
                                         'data': repr(m['data'])[:300], 'returned': repr(m['ret'])[:200],
                                         'frames_on_wire': len(obs['fwd']) + len(obs['rev'])})
    finally:
        b64 = ses.w.b64_packets if hasattr(ses.w, 'b64_packets') else 0
        stats['b64_binary_packets'] += b64
        stats['listener_messages'] += ses.w.listener_messages
        ses.close()


def shrink(ctx, cfg, nss, burst, rp):
    """a single message of the burst, alone in a fresh session, if that still fails"""
    cands = [(i, [m]) for i, m in enumerate(burst['msgs'])]
    cands += [(i, burst['msgs'][i - 1:i + 1]) for i in range(1, len(burst['msgs']))]
    for i, ms in cands:
        one = dict(burst, msgs=ms)
        try:
            ses = Session(cfg, nss, ctx.rng)
        except C.Infra:
            return rp
        try:
            obs = ses.run(one)
            fails = oracle(one, obs)
        except Exception:   # noqa
            fails = []
        finally:
            ses.close()
        if fails:
            return {'config': cfg, 'namespaces': nss, 'burst_index': 0, 'bursts': C.jsonable([one]),
                    'failures': fails[:6], 'shrunk_from_message': i,
                    'observed': C.jsonable({'log': obs['log'][:8], 'sent': obs['sent'], 'errors': obs['errors']})}
    return rp


def boundary_note(ctx):
    """the reserved key (C02.reserved_key_not_transparent), on the real code; informational"""
    cfg = {'mode': 'threading', 'serializer': 'default', 'framing': 'raw', 'async_handlers': False}
    ses = Session(cfg, ['/'], ctx.rng)
    try:
        b = {'side': 'client', 'msgs': [{'kind': 'emit', 'ev': 'e', 'data': ({'_placeholder': True, 'num': 0}, b'\t'),
                                         'ns': '/', 'cb': False, 'ret': None, 'coro': False}]}
        obs = ses.run(b)
        got = [e[4] for e in obs['log'] if e[0] == 'h']
        ctx.notes.append('domain boundary (informational): emit("e", ({"_placeholder": True, "num": 0}, b"\\t")) '
                         'reaches the handler as %r (the key is reserved by the protocol; proved as '
                         'C02.reserved_key_not_transparent)' % (got,))
        if got != [[b'\t', b'\t']]:
            ctx.notes.append('NOTE: the boundary witness proved in Lean no longer reproduces on the implementation')
    finally:
        ses.close()


def run(ctx):
    C.proof_step(ctx, [
        'json.dumps/json.loads: the text frames on the wire are compared with the Lean printer J.dumps, the '
        'model decodes its frames with the Lean reader J.loads (C02.*_json need no JSON hypothesis; '
        'C02.event_e2e/ack_e2e/order assume loads∘dumps only at the value printed)',
        'msgpack (C extension): hypothesis hser of C02.msgpack_* — deser (ser d) = d at the dictionary sent; '
        'exercised on every msgpack burst (the dictionary on the wire is compared with Args.toDict)',
        'python-engineio packet/payload framing (Packet.encode/decode, Payload.encode/decode, base64): a FIFO '
        'transport that returns the MESSAGE payloads it was given; exercised, not modelled',
        'str.isdigit() on non-ASCII characters: supplied per burst as a table'])
    if ctx.thorough:
        ok, out = C.leanchecker(['Sio.Props.C02'])
        ctx.notes.append('leanchecker Sio.Props.C02: %s' % ('ok' if ok else 'FAILED'))
        if not ok:
            ctx.violation('proof', 'leanchecker rejected Sio.Props.C02: ' + out, {'theorem_or_build': out},
                          no_input=True)
    rng = ctx.rng
    stats = {'bursts': 0, 'msgs': 0, 'validated': 0, 'frames': 0, 'nontrivial': set(), 'samples': [],
             'b64_binary_packets': 0, 'concurrent_bursts': 0, 'concurrent_msgs': 0, 'concurrent_tasks': 0,
             'executor_jobs': 0, 'concurrent_mixed': 0, 'listener_messages': 0}
    drv = C.Driver('codec')
    try:
        boundary_note(ctx)
        # corpus first: minimised past disagreements (found by mutating a scratch copy of the code)
        import glob
        import os
        for path in sorted(glob.glob(os.path.join(C.ROOT, 'corpus', 'C02', '*.json'))):
            rp = json.load(open(path))
            run_case(ctx, drv, rp['config'], rp['namespaces'], C.unjsonable(rp['bursts']), stats)
            ctx.count('corpus')
        sessions = ctx.scale(30, 400)
        nbursts = ctx.scale(5, 8)
        mq_sessions = ctx.scale(6, 80)
        for mode, ser, framing in CONFIGS:
            for ah in (False, True):
                cfg = {'mode': mode, 'serializer': ser, 'framing': framing, 'async_handlers': ah,
                       'settle': 'batch' if ah else 'frame'}
                # the corners of the tuple/None/one rule, in every configuration
                nss = ['/', rng.choice(NS_POOL)]
                run_case(ctx, drv, cfg, nss, corner_bursts(cfg, nss), stats)
                if mode == 'asyncio':
                    # plain-function and coroutine handlers side by side, delivered concurrently
                    mb = mixed_handler_bursts(cfg, nss)
                    for i in range(0, len(mb), 12):
                        run_case(ctx, drv, cfg, nss, mb[i:i + 12], stats)
                for k in range(sessions):
                    if ah:
                        cfg = dict(cfg, settle='batch' if k % 2 == 0 else 'frame')
                    nss = gen_namespaces(rng)
                    bursts = [gen_burst(rng, cfg, nss) for _ in range(nbursts)]
                    run_case(ctx, drv, cfg, nss, bursts, stats)
                # the same server behind a message queue: the client manager in use must not change what the
                # application's payload looks like on arrival (same bursts, same expected frames)
                for mgr in MANAGERS[1:]:
                    cfg = dict(cfg, manager=mgr, settle='batch' if ah else 'frame')
                    nss = ['/', rng.choice(NS_POOL)]
                    run_case(ctx, drv, cfg, nss, corner_bursts(cfg, nss), stats)
                    if mode == 'asyncio' and mgr == 'pubsub':
                        mb = mixed_handler_bursts(cfg, nss)
                        run_case(ctx, drv, cfg, nss, mb[len(mb) // 2:][:12], stats)     # server -> client half
                    for k in range(mq_sessions if mgr == 'pubsub' else max(2, mq_sessions // 2)):
                        if ah:
                            cfg = dict(cfg, settle='batch' if k % 2 == 0 else 'frame')
                        nss = gen_namespaces(rng)
                        bursts = [gen_burst(rng, cfg, nss, p_server=0.8) for _ in range(nbursts)]
                        run_case(ctx, drv, cfg, nss, bursts, stats)
    finally:
        drv.close()
    ctx.coverage.update({
        'evaluations': stats['msgs'], 'bursts': stats['bursts'],
        'distinct_nontrivial': len(stats['nontrivial']),
        'rule': 'one evaluation = one emit/send/call issued on a real Client/AsyncClient or Server/AsyncServer and '
                'followed to the peer\'s handler, back to the callback / call() result, judged by the oracle and '
                'against the model; in sequential bursts a call() may give up waiting (scripted wait primitive) while the '
                'messages after it are sent with callbacks to the same peer: their acknowledgements must still arrive. '
                'non-trivial = distinct payload (sent or returned) with a byte string under a '
                'dict under a list, or a tuple of >= 2',
        'samples': stats['samples'], 'traces_validated_against_impl': stats['validated'],
        'frames_on_wire_compared_with_model': stats['frames'],
        'base64_framed_binary_packets': stats['b64_binary_packets'],
        'concurrent_bursts': stats['concurrent_bursts'],
        'concurrent_bursts_with_plain_and_coroutine_handlers': stats['concurrent_mixed'],
        'concurrent_messages': stats['concurrent_msgs'],
        'concurrent_library_tasks_run_to_completion': stats['concurrent_tasks'],
        'executor_jobs_submitted_by_the_library': stats['executor_jobs'],
        'configurations_exercised': sorted(k[4:] for k in ctx.counters if k.startswith('cfg.')),
        'client_managers': {
            mgr: {'what': MANAGER_TEXT[mgr],
                  'server_to_client_messages': ctx.counters.get('manager.%s.server_to_peer' % mgr, 0),
                  'client_to_server_messages': ctx.counters.get('manager.%s.client_to_peer' % mgr, 0),
                  'server_to_client_tuple_payloads': sum(
                      v for k, v in ctx.counters.items()
                      if k.startswith('manager.%s.server_to_client.' % mgr) and '.data_tuple' in k),
                  'server_to_client_acknowledged': sum(
                      v for k, v in ctx.counters.items()
                      if k.startswith('manager.%s.server_to_client.acknowledged.' % mgr))}
            for mgr in MANAGERS},
        'pubsub_channel_messages_consumed_by_the_real_listeners': stats['listener_messages'],
    })
    for mgr in MANAGERS:
        for fam in ('threading', 'asyncio'):
            if not any(k.startswith('cfg.%s.' % fam) and (k.endswith('+' + mgr) or (mgr == 'default' and '+' not in k))
                       for k in ctx.counters):
                ctx.violation('proof', 'client manager %r not exercised on the %s family' % (mgr, fam),
                              {'missing': [mgr, fam]}, no_input=True)
        if not ctx.counters.get('manager.%s.server_to_peer' % mgr):
            ctx.violation('proof', 'no server->client message ran with client manager %r' % mgr,
                          {'missing': mgr}, no_input=True)
    missing = [cfg_name({'mode': m, 'serializer': s, 'framing': f}) for m, s, f in CONFIGS
               if ('cfg.' + cfg_name({'mode': m, 'serializer': s, 'framing': f})) not in ctx.counters]
    if missing:
        ctx.violation('proof', 'configurations not exercised: %r' % missing, {'missing': missing}, no_input=True)
    ctx.assumptions += [
        'event names: any string except connect, disconnect, connect_error, __disconnect_final (reserved) and "*" '
        '(the catch-all registration key)',
        'payloads: string keys other than "_placeholder", ints within 64 bits, finite floats, no lone surrogates, '
        'tuples only at top level',
        'one sender at a time (concurrent emitters are excluded by the property); handlers run inline, or (server '
        'async_handlers=True, needed for Server.call) are started in spawn order after every delivered frame / '
        'after the whole flush (frames arriving back to back) and joined',
        'concurrent bursts (asyncio): engine.io\'s dispatch is the real one (AsyncClient._receive_packet: a task per '
        'message; AsyncSocket.receive awaited per packet; socket.io\'s start_background_task = ensure_future); the '
        'loop is asyncio\'s FIFO loop; the loop\'s default executor is the harness\'s and serves a job only when the '
        'loop has been idle for 24 turns (a slow pool thread); work handed to a private thread or pool, or delayed '
        'by wall-clock time, is reported as unfinished rather than waited for',
        'acknowledgement ids count from 1 per namespace (client) / per sid (server): used to predict the frames',
        'pub/sub client managers: the backend is the in-memory channel of harness/world_pubsub.py (pickled messages, '
        'delivered in publication order, each host served by the real _thread() when the link is pumped); a single '
        'pub/sub host consumes two acknowledgement ids per emit with callback (its own and the relaying one, which '
        'travels): used to predict the frames; real backends (redis, kafka, ...) are not exercised',
    ]
    C.fold_proof_failures(ctx)


def replay(ctx, r):
    rp = r.get('replay', r)
    cfg, nss = rp['config'], rp['namespaces']
    bursts = C.unjsonable(rp['bursts'])
    drv = C.Driver('codec')
    ses = Session(cfg, nss, ctx.rng)
    rc = 0
    try:
        for b in bursts:
            obs = ses.run(b)
            fails = oracle(b, obs)
            print('--- burst %s->peer (%d messages) on %s' % (b['side'], len(b['msgs']), cfg_name(cfg)))
            for m, s in zip(b['msgs'], obs['sent']):
                print('  sent   %s(%r, %r, namespace=%r%s) -> %r; handler returns %r%s'
                      % (m['kind'], m['ev'], m['data'], m['ns'], ', callback' if m['cb'] else '', s['res'], m['ret'],
                         ' [its wait expires before the link moves]' if m.get('gives_up') else
                         ' [sent while that call() waits]' if m.get('while_waiting') else ''))
            if b.get('deliver') == 'tasks':
                print('  delivered concurrently (engine.io dispatch: a task per message / per handler), loop turns '
                      'between packets %r, waiting executor jobs served %s; receiving handlers: %r; %r'
                      % (b.get('gaps'), 'last first' if b.get('exec_lifo') else 'first first', obs['kinds'],
                         obs['concurrent']))
            for e in obs['log']:
                print('  impl  ', e)
            print('  wire  >', obs['fwd'])
            print('  wire  <', obs['rev'])
            mv = model_view(drv, cfg, b, obs)
            print('  model >', mv['fwd'])
            print('  model <', mv['rev'])
            print('  model deliveries', json.dumps(mv['fwd_del'])[:2000])
            diffs = [] if fails else correspond(cfg, b, obs, mv)
            print('  oracle:', fails or 'holds', '| correspondence:', diffs or 'agrees')
            if fails or diffs:
                rc = 1
                break
    finally:
        ses.close()
        drv.close()
    return rc
