"""C15 — the pub/sub listener survives anything that arrives on the channel (K6).

Two REAL servers `hA` (under test) and `hB` on the in-memory channel of `world_pubsub`.  A case is
  * a set-up history (clients on both hosts, rooms, emits with callbacks from `hA` whose
    acknowledgements will come back over the channel), run with every host draining;
  * a *stream* built while `hA` is not listening: valid messages published by `hB` through its
    real API (emit / enter_room / leave_room / close_room / disconnect / client ACKs that are
    relayed as `callback` messages), `hA`'s own publications (echoes), and garbage written into
    the channel directly: random bytes, pickles and JSON of non-dicts, dicts with missing /
    mistyped / surplus fields, unknown methods, forged echoes, callbacks for other hosts or unknown
    ids, and places where the `_listen()` iterator raises;
  * scripted faults: application callbacks raising (an `Exception`, or a `BaseException`), the
    disconnect handler raising, `server.disconnect` itself raising;
  * then the REAL `hA.manager._thread()` consumes the stream synchronously.
Compared with the Lean model (`Sio.PubSub.listen` over the same stream, every garbage entry
classified by this file exactly as the decoding fallbacks and the field accesses meet it): packets
per client, callbacks and disconnect handlers, what was published, every contained exception
(inner `try` / outer `try`) in order, how `_thread` ended, the room table and the callback table.
Oracle (model-free): the same stream without its inert garbage, on the real code, has the same
observable effect — every valid message after a piece of garbage is fully applied; `hA` never
applies what it published itself; a `callback` for another host completes nothing.
Application code that is ACTIVE inside the listener (`active_part`, oracle only — the model has no application
code that calls back into the server): the callbacks of hA's cross-server `emit(..., callback=cb)` (their acknowledgement
comes back as a `callback` message) and the disconnect handlers of hA's clients (a published `disconnect`) call the
server's own API — emit with and without callback, enter/leave/close_room, disconnect of another local or of a remote
client, rooms, save_session — and some raise afterwards.  The real `_thread()` takes the channel one entry at a time:
threaded manager on a listener thread of its own, the whole case under a wall-clock watchdog that does nothing but
turn a listener that never returns into a report (with the stacks of the case's threads); asyncio manager: the loop is
run until nothing is runnable and a listener task still pending then is the report.  Judged by the statement (every
entry processed, the last emit of the stream delivered, every callback / handler run once, the application's calls
returned normally, were published, reached the client that stays) and against a second run of the same case in which
the same calls are made from outside the listener right after it finished the entry.
Redis backends (both tiers, more in the thorough one), with a fake `redis` package:
  * `RedisManager` / `AsyncRedisManager._listen()` driven directly over connection plans: the retry loop's sleeps
    (1, 2, 4, ... capped at 60, reset by a successful reconnect) and that nothing is dropped (`redis_part`, compared
    with the model's `retry`);
  * end to end (`redis_e2e_part`): the real managers under the real `_thread()` on a real server with local clients,
    against a scripted broker whose subscription state lives on the PubSub object, with garbage of every containment
    level (the outer recovery that abandons `_listen()` and calls it again included), foreign traffic, dropped and
    refused connections; asyncio: abandoned async generators are finalised when the loop gets to it, as in
    production.  Oracle: every valid message of the script has its full effect, the listener is still listening.
"""
import collections
import copy
import glob
import hashlib
import importlib
import json
import os
import pickle
import sys
import threading
import time
import traceback
import types

from .. import common as C
from .. import world as W
from .. import world_pubsub as WP
from . import c07

LEVEL = 'proof'

HA, HB = 'hA', 'hB'
NS = '/'
BIG = 10 ** 6


# ---------------------------------------------------------------- garbage: construction

def build_value(spec, names):
    """a JSON-able description -> the Python value (session names replaced by real ids)"""
    if isinstance(spec, dict):
        if set(spec) == {'$sid'}:
            return names.sid(spec['$sid'])
        if set(spec) == {'$tuple'}:
            return tuple(build_value(x, names) for x in spec['$tuple'])
        if set(spec) == {'$bytes'}:
            return bytes.fromhex(spec['$bytes'])
        return {k: build_value(v, names) for k, v in spec.items()}
    if isinstance(spec, list):
        return [build_value(x, names) for x in spec]
    return spec


BASE_EXCS = ['SystemExit', 'KeyboardInterrupt', 'GeneratorExit', 'CancelledError']


def _raise_base(name):
    """what unpickling an `evil` entry calls"""
    import asyncio
    raise {'SystemExit': SystemExit(1), 'KeyboardInterrupt': KeyboardInterrupt(), 'GeneratorExit': GeneratorExit(),
           'CancelledError': asyncio.CancelledError()}[name]


class _Evil:
    def __init__(self, name):
        self.name = name

    def __reduce__(self):
        return (_raise_base, (self.name,))


def build_raw(g, names):
    """garbage entry -> what is put into the channel"""
    t = g['t']
    if t == 'bytes':
        return bytes.fromhex(g['hex'])
    if t == 'evil':
        if g['exc'] == 'sys.exit':
            class _Exit:
                def __reduce__(self):
                    return (sys.exit, (1,))
            return pickle.dumps(_Exit())
        return pickle.dumps(_Evil(g['exc']))
    v = build_value(g['v'], names)
    if t == 'value':
        return v            # a channel entry that is neither bytes nor text nor a message: handed to `_thread` as is
    if t == 'pickle':
        return pickle.dumps(v)
    if t == 'json':
        return json.dumps(v).encode()
    if t == 'jsonstr':
        return json.dumps(v)
    if t == 'str':
        return v
    if t == 'dict':
        return v
    raise ValueError(t)


# ---------------------------------------------------------------- garbage: classification

class Unmodelled(Exception):
    pass


def fld(d, key, names, expect=str):
    if key not in d:
        return 'absent'
    v = d[key]
    if v is None:
        return 'none'
    if isinstance(v, expect) and not isinstance(v, bool):
        if not v:
            return 'none'              # falsy value of the expected type behaves like None here
        return {'ok': C.s2w(names.back(v))}
    if isinstance(v, (list, dict)):
        if not v:
            raise Unmodelled('falsy container')
        return 'unhashable'
    if not v:
        return 'none'
    return 'other'


def room_name(v, names):
    if isinstance(v, bool):
        raise Unmodelled('bool room')
    if isinstance(v, int):
        return '#%d' % v
    if isinstance(v, str):
        return names.back(v)
    raise Unmodelled('room element')


def room_fld(d, names):
    v = d.get('room')
    if v is None:
        return None
    if isinstance(v, (str, int)) and not isinstance(v, bool):
        return {'str': C.s2w(room_name(v, names))}
    if isinstance(v, list):
        return {'list': [C.s2w(room_name(x, names)) for x in v]}
    if isinstance(v, dict) and v and 0 not in v:
        return 'dict'
    raise Unmodelled('room')


def skip_fld(d, names):
    v = d.get('skip_sid')
    if v is None:
        return None
    if isinstance(v, str):
        return {'one': C.s2w(names.back(v))}
    if isinstance(v, list):
        if all(isinstance(x, str) for x in v):
            return {'many': [C.s2w(names.back(x)) for x in v]}
        raise Unmodelled('skip list')
    return None                        # wrapped into a one-element list that matches nobody


def cb_fld(d, names):
    v = d.get('callback')
    if v is None:
        return None
    if isinstance(v, (int, float)):
        return 'noLen'
    if isinstance(v, (list, tuple, str)):
        if len(v) != 3:
            return 'wrongLen'
        if isinstance(v, (list, tuple)) and isinstance(v[0], str) and isinstance(v[1], str) \
                and isinstance(v[2], int) and not isinstance(v[2], bool) and v[2] >= 0:
            return {'tok': [C.s2w(names.back(v[0])), C.s2w(v[1]), v[2]]}
    raise Unmodelled('callback token')


def classify_dict(d, names):
    """a dict that has 'method' -> the model's DMsg"""
    if not all(isinstance(k, str) for k in d):
        raise Unmodelled('non-string key')
    m = d['method']
    h = d.get('host_id')
    out = {'method': C.s2w(m) if isinstance(m, str) else None,
           'host_id': C.s2w(h) if isinstance(h, str) else None}
    if 'event' in d:
        try:
            out['event'] = {'some': C.j2w(d['event'])}
        except (TypeError, C.Unrepresentable):
            raise Unmodelled('event')
    else:
        out['event'] = {'none': True}
    if 'data' in d:
        try:
            out['data'] = {'some': C.data2w(d['data'])}
        except (TypeError, C.Unrepresentable):
            raise Unmodelled('data')
    else:
        out['data'] = {'none': True}
    out['ns'] = fld(d, 'namespace', names)
    out['room'] = room_fld(d, names)
    out['skip'] = skip_fld(d, names)
    out['cb'] = cb_fld(d, names)
    out['sid'] = fld(d, 'sid', names)
    if 'id' not in d:
        out['id'] = 'absent'
    elif isinstance(d['id'], int) and not isinstance(d['id'], bool) and d['id'] >= 0:
        out['id'] = {'ok': d['id']}
    elif isinstance(d['id'], (list, dict)):
        raise Unmodelled('unhashable id')
    else:
        out['id'] = 'other'
    if 'args' not in d:
        out['args'] = 'absent'
    elif isinstance(d['args'], (list, tuple)):
        try:
            out['args'] = {'ok': [C.j2w(a) for a in d['args']]}
        except (TypeError, C.Unrepresentable):
            raise Unmodelled('args')
    elif d['args'] is None or (isinstance(d['args'], (int, float)) and not isinstance(d['args'], bool)):
        out['args'] = 'nonIterable'
    else:
        raise Unmodelled('args')
    return out


_FAILED = object()


def classify_value(v, names):
    """a decoded value -> the model's `Decoded`"""
    if v is _FAILED or v is None:
        return 'none'
    if isinstance(v, dict):
        if not v:
            return 'falsy'
        if 'method' in v:
            return {'dict': classify_dict(v, names)}
        return 'dictNoMethod'
    if not v:
        return 'falsy'
    if isinstance(v, (str, list, tuple, set, frozenset, bytes)):
        if isinstance(v, bytes):
            raise Unmodelled('bytes value')
        return {'seq': 'method' in v}
    if isinstance(v, (int, float)):
        return 'scalar'
    raise Unmodelled(type(v).__name__)


def classify_raw(raw, names):
    """what the decoding fallbacks of `_thread` make of a channel entry, computed here"""
    if raw is WP.RAISE:
        return 'listenRaises'
    if isinstance(raw, dict):
        return {'dict': classify_value(raw, names)}
    if isinstance(raw, bytes):
        try:
            p = pickle.loads(raw)
        except BaseException:   # noqa  (the bare `except:` of the decode step: SystemExit & co. included)
            p = _FAILED
        try:
            j = json.loads(raw)
        except Exception:   # noqa
            j = _FAILED
        return {'bytes': [classify_value(p, names), classify_value(j, names)]}
    try:
        j = json.loads(raw)
    except Exception:   # noqa
        j = _FAILED
    return {'text': classify_value(j, names)}


# ---------------------------------------------------------------- generator

VALID_TEMPLATES = ['emit', 'callback', 'disconnect', 'enter_room', 'leave_room', 'close_room']
WRONG = [None, 7, 'zz', ['a'], {'k': 1}, 3.5]


def template(rng, method, ctx):
    """a well-formed dict of the given method about hA's world (session names as {'$sid': name})"""
    a_sid = rng.choice(ctx['a_sids'])
    room = rng.choice(['r1', 'r2'])
    if method == 'emit':
        return {'method': 'emit', 'event': 'g%d' % ctx['n'](), 'data': rng.choice([None, 5, 'x', {'$tuple': [1, 'y']}]),
                'namespace': NS, 'room': rng.choice([None, room, {'$sid': a_sid}, [room, 'r2']]),
                'skip_sid': rng.choice([None, {'$sid': a_sid}, [{'$sid': a_sid}]]),
                'callback': None, 'host_id': 'hX'}
    if method == 'callback':
        key, cid = rng.choice(ctx['user_cbs']) if ctx['user_cbs'] and rng.random() < 0.8 else (a_sid, 40)
        return {'method': 'callback', 'host_id': HA, 'sid': {'$sid': key}, 'namespace': NS, 'id': cid,
                'args': {'$tuple': ['forged', ctx['n']()]}}
    if method == 'disconnect':
        return {'method': 'disconnect', 'sid': {'$sid': a_sid}, 'namespace': NS, 'host_id': 'hX'}
    if method in ('enter_room', 'leave_room'):
        return {'method': method, 'sid': {'$sid': a_sid}, 'room': room, 'namespace': NS, 'host_id': 'hX'}
    return {'method': 'close_room', 'room': room, 'namespace': NS, 'host_id': 'hX'}


# raw channel entries that are not bytes / text / dict messages (JSON-able specs, see build_value)
VALUE_ENTRIES = [None, None, None, 0, '', {'$bytes': ''}, [], {}, False, 0.0, {'$tuple': []}]


def value_label(v):
    return 'None' if v is None else repr(build_value(v, None))


REQUIRED = {'emit': ['event', 'data', 'namespace'], 'callback': ['sid', 'id', 'args', 'host_id'],
            'disconnect': ['sid'], 'enter_room': ['sid', 'namespace'], 'leave_room': ['sid', 'namespace'],
            'close_room': ['namespace']}


def gen_garbage(rng, ctx):
    """-> (entry, inert?)  inert = by the statement of C15 this entry must leave no trace"""
    x = rng.random()
    if x < 0.07:
        n = rng.randint(1, 12)
        return {'t': 'bytes', 'hex': bytes(rng.randrange(128, 256) for _ in range(n)).hex()}, True
    if x < 0.10:
        # bytes whose unpickling raises a BaseException that is not an Exception
        return {'t': 'evil', 'exc': rng.choice(BASE_EXCS + ['sys.exit'])}, True
    if x < 0.22:
        v = rng.choice([42, 0, 3.5, True, None, 'method', 'xmethody', 'plain', ['method', 1], [1, 2], [],
                        {'$tuple': ['method']}, {'$tuple': [1]}, {}, {'a': 1},
                        # tuples of other lengths (only a pickle can carry them): a logging call that formats the
                        # value with `%` breaks on exactly these
                        {'$tuple': ['method', 'emit']}, {'$tuple': ['method', 1, 2]}, {'$tuple': [1, 2]},
                        {'$tuple': []}])
        return {'t': rng.choice(['pickle', 'pickle', 'json', 'jsonstr']) if not isinstance(v, dict) or '$tuple' not in v
                else 'pickle', 'v': v}, True
    if x < 0.26:
        return {'t': 'str', 'v': rng.choice(['hello', '', '{', 'null', '7'])}, True
    if x < 0.30:
        return {'raise': True}, True
    if x < 0.35:
        # `_listen()` yields a value of the wrong type: None, other falsy values that are not messages, odd objects
        # (undecodable or falsy for `_thread`: skipped, the listener goes on)
        return {'t': 'value', 'v': rng.choice(VALUE_ENTRIES)}, True
    method = rng.choice(VALID_TEMPLATES)
    d = template(rng, method, ctx)
    how = rng.choice(['pickle', 'pickle', 'pickle', 'dict', 'json'])
    y = rng.random()
    inert = False
    if y < 0.22:
        # a required field is missing
        f = rng.choice(REQUIRED[method])
        d.pop(f, None)
        inert = not (method == 'disconnect' and f == 'namespace')
        if method == 'callback' and f == 'host_id':
            inert = True
    elif y < 0.50:
        # a field has the wrong type
        f = rng.choice([k for k in d if k not in ('method',)])
        w = rng.choice(WRONG)
        d[f] = w
        inert = None        # decided by the model-free rule below
    elif y < 0.57:
        d['method'] = rng.choice(['nope', 'EMIT', '', 7, None, ['emit']])
        inert = True
    elif y < 0.64:
        # an external producer that does not say who it is: no `host_id` at all
        d.pop('host_id', None)
        inert = True if method == 'callback' else None
    elif y < 0.72:
        d['host_id'] = HA      # a forged echo
        inert = method != 'callback'
        if method == 'callback':
            inert = None
    elif y < 0.82 and method == 'callback':
        d['host_id'] = rng.choice([HB, 'hX', None, 7])      # for another host
        inert = True
    elif y < 0.90:
        d['surplus'] = [1, 2]
        d['x-extra'] = {'deep': {'$tuple': [1]}}
        inert = None
    else:
        inert = None
    if how == 'json':
        # JSON cannot carry tuples
        d = json.loads(json.dumps(build_json_safe(d)))
    return {'t': {'pickle': 'pickle', 'dict': 'dict', 'json': 'json'}[how], 'v': d}, inert


def build_json_safe(v):
    if isinstance(v, dict):
        if set(v) == {'$tuple'}:
            return [build_json_safe(x) for x in v['$tuple']]
        return {k: build_json_safe(x) for k, x in v.items()}
    if isinstance(v, list):
        return [build_json_safe(x) for x in v]
    return v


def gen_case(rng):
    n_a = rng.choice([1, 2, 2, 3])
    setup = []
    names_a = ['s%d' % i for i in range(n_a)]
    for i, nm in enumerate(names_a):
        setup.append({'op': 'connect', 'h': HA, 't': 'ta%d' % i, 'ns': NS, 'name': nm})
    setup.append({'op': 'connect', 'h': HB, 't': 'tb0', 'ns': NS, 'name': 'b0'})
    setup.append({'op': 'connect', 'h': HB, 't': 'tb1', 'ns': NS, 'name': 'b1'})
    idx = [0]

    def nxt():
        idx[0] += 1
        return idx[0]
    for nm in names_a:
        if rng.random() < 0.7:
            setup.append({'op': 'enter', 'via': rng.choice([HA, HB]), 'ns': NS, 'sid': nm,
                          'room': {'r': rng.choice(['r1', 'r2'])}})
    # emits with callbacks, interleaved: hA -> clients of hB (acknowledgements travel the channel),
    # hB -> clients of hA (hA holds relay entries), hA -> its own clients (user and relay entries
    # under one key): the per-host ack ids collide
    target_a = rng.choice(names_a)
    plan = [(HA, rng.choice(['b0', 'b1'])) for _ in range(rng.randint(1, 3))]
    plan += [(HB, target_a if rng.random() < 0.7 else rng.choice(names_a)) for _ in range(rng.randint(0, 2))]
    plan += [(HA, target_a if rng.random() < 0.7 else rng.choice(names_a)) for _ in range(rng.randint(0, 2))]
    if rng.random() < 0.3:
        plan.append((HB, rng.choice(['b0', 'b1'])))
    rng.shuffle(plan)
    for via, to in plan:
        i = nxt()
        setup.append({'op': 'emit', 'via': via, 'ns': NS, 'to': {'s': to}, 'skip': None, 'cb': i, 'idx': i,
                      'data': rng.choice(['int', 'none'])})
    tab = CbTable({'setup': setup})
    user_cbs = tab.slots_list()
    ctx = {'a_sids': names_a, 'user_cbs': user_cbs, 'n': nxt}
    stream = []
    faults = {}
    asked = collections.Counter({k: len(v) for k, v in tab.asked.items()})
    acked = collections.Counter()
    a_order = {}
    for nm in names_a:
        order = list(range(asked[nm]))
        rng.shuffle(order)                       # acknowledgements out of issue order ...
        if order and rng.random() < 0.5:
            order.append(rng.choice(order))      # ... and a duplicate
        a_order[nm] = order
    n_items = rng.randint(4, 22)
    alive_a = list(names_a)
    while len(stream) < n_items:
        x = rng.random()
        if x < 0.42:
            g, inert = gen_garbage(rng, ctx)
            stream.append({'k': 'raise'} if 'raise' in g else {'k': 'raw', 'g': g, 'inert': inert})
        elif x < 0.60:
            i = nxt()
            to = rng.choice([None, {'r': 'r1'}, {'r': 'r2'}, {'s': rng.choice(names_a)},
                             {'list': [{'r': 'r1'}, {'s': rng.choice(names_a)}]}])
            skip = rng.choice([None, None, {'one': rng.choice(names_a)}])
            stream.append({'k': 'op', 'op': {'op': 'emit', 'via': rng.choice([HB, HB, HB, HA, None]), 'ns': NS,
                                             'to': to, 'skip': skip, 'cb': None, 'idx': i,
                                             'data': rng.choice(c07.DATA_KINDS)}})
        elif x < 0.72:
            stream.append({'k': 'op', 'op': {'op': rng.choice(['enter', 'enter', 'leave']), 'via': HB, 'ns': NS,
                                             'sid': rng.choice(names_a), 'room': {'r': rng.choice(['r1', 'r2'])}}})
        elif x < 0.77:
            stream.append({'k': 'op', 'op': {'op': 'close', 'via': rng.choice([HB, HA]), 'ns': NS,
                                             'room': {'r': rng.choice(['r1', 'r2'])}}})
        elif x < 0.83 and len(alive_a) > 1:
            sid = rng.choice(alive_a)
            alive_a.remove(sid)
            stream.append({'k': 'op', 'op': {'op': 'disconnect', 'via': HB, 'ns': NS, 'sid': sid}})
            y = rng.random()
            if y < 0.25:
                faults[str(len(stream) - 1)] = 'app'
            elif y < 0.4:
                faults[str(len(stream) - 1)] = 'srv'
        elif x < 0.90 and any(a_order[nm] for nm in names_a):
            nm = rng.choice([n for n in names_a if a_order[n]])
            n = a_order[nm].pop(0)
            stream.append({'k': 'op', 'op': {'op': 'ack', 'ns': NS, 'sid': nm, 'n': n,
                                             'args': rng.choice([[], [n], ['a', n]])}})
        else:
            cands = [b for b in ('b0', 'b1') if acked[b] < asked[b]]
            if not cands:
                continue
            b = rng.choice(cands)
            stream.append({'k': 'op', 'op': {'op': 'ack', 'ns': NS, 'sid': b, 'n': acked[b],
                                             'args': rng.choice([[], [1], ['ok', 2]])}})
            acked[b] += 1
            y = rng.random()
            if y < 0.25:
                faults[str(len(stream) - 1)] = 'app'
            elif y < 0.30:
                faults[str(len(stream) - 1)] = 'fatal'
            elif y < 0.45:
                faults[str(len(stream) - 1)] = 'cancel'      # asyncio: a coroutine callback that is cancelled
    return {'setup': setup, 'stream': stream, 'faults': faults}


# ---------------------------------------------------------------- executing a case on the real servers

class RealRun:
    """runs set-up and stream on the real servers; records the channel position of every item"""

    def __init__(self, family, case, drop_inert=False, inert_flags=None):
        self.family = family
        self.case = case
        self.pw = WP.PubSubWorld(family, 2, namespaces=[NS], host_ids=[HA, HB])
        self.names = c07.Names()
        self.asked = collections.defaultdict(list)
        self.tid_of = {}
        self.tids = []
        self.drop_inert = drop_inert
        self.inert_flags = inert_flags or {}
        self.pos_of_item = {}          # stream index -> channel index (if it put something there)
        self.fault_at = {}             # channel index -> fault
        self.cur_entry = None

    # -- application code, scripted
    def _fault_now(self):
        m = self.pw.mgr[0]
        return self.fault_at.get(m.cursor - 1) if self.listening else None

    def mk_cb(self, tok):
        def cb(*a):
            self.pw.app.append(('cb', tok, list(a)))
            f = self._fault_now()
            if f == 'app':
                raise W.HandlerError('callback')
            if f == 'fatal':
                raise WP.Fatal()
            if f == 'cancel' and self.family == 'asyncio':
                return self._cancelled()
        return cb

    async def _cancelled(self):
        """an application coroutine callback that ends in CancelledError (it awaits a cancelled future)"""
        fut = self.pw.hosts[0].loop.create_future()
        fut.cancel()
        await fut

    def do_op(self, op):
        pw, names = self.pw, self.names
        k = op['op']
        if k == 'connect':
            if op['t'] not in self.tids:
                self.tids.append(op['t'])
            sid, _rest = pw.connect(op['h'], op['t'], op['ns'])
            names.bind(op['name'], sid)
            self.tid_of[op['name']] = op['t']
        elif k == 'enter':
            pw.api(op['via'], 'enter_room', names.sid(op['sid']), names.room(op['room']), namespace=op['ns'])
        elif k == 'leave':
            pw.api(op['via'], 'leave_room', names.sid(op['sid']), names.room(op['room']), namespace=op['ns'])
        elif k == 'close':
            pw.api(op['via'], 'close_room', names.room(op['room']), namespace=op['ns'])
        elif k == 'disconnect':
            pw.api(op['via'], 'disconnect', names.sid(op['sid']), namespace=op['ns'])
        elif k == 'emit':
            ev, data = c07.payload(op)
            target, skip = c07.api_args(names, op)
            cb = self.mk_cb(op['cb']) if op['cb'] is not None else None
            if op['via'] is None:
                pw.wo_emit(ev, data, namespace=op['ns'], room=target, skip_sid=skip)
            else:
                pw.api(op['via'], 'emit', ev, data, to=target, skip_sid=skip, namespace=op['ns'], callback=cb)
        elif k == 'ack':
            t = self.tid_of[op['sid']]
            if op['n'] < len(self.asked[op['sid']]):
                for fr in c07.ack_frame(op['ns'], self.asked[op['sid']][op['n']], op['args']):
                    pw.recv(t, fr)
        self.collect()

    def collect(self):
        """drain what the clients received; remember the ack ids"""
        out = {}
        for t in self.tids:
            fr = c07.canon_frames(self.pw.sent(t))
            if fr:
                out[t] = fr
            for f in fr:
                if f[0] == 'event' and f[3] is not None:
                    nm = next(n for n, tt in self.tid_of.items() if tt == t)
                    self.asked[nm].append(f[3])
        return out

    def run(self):
        """-> observation of the listener run"""
        pw = self.pw
        self.listening = False
        try:
            for op in self.case['setup']:
                self.do_op(op)
                for h in (HA, HB):
                    pw.deliver(h, BIG)
                self.collect()
            pw.app.clear()
            pw.log.clear()
            start = len(pw.chan.msgs)
            for i, item in enumerate(self.case['stream']):
                if self.drop_inert and self.inert_flags.get(i):
                    continue
                before = len(pw.chan.msgs)
                if item['k'] == 'op':
                    self.do_op(item['op'])
                elif item['k'] == 'raise':
                    pw.chan.msgs.append(WP.RAISE)
                else:
                    pw.chan.msgs.append(build_raw(item['g'], self.names))
                if len(pw.chan.msgs) > before:
                    self.pos_of_item[i] = before
                    f = self.case['faults'].get(str(i))
                    if f:
                        self.fault_at[before] = f
            built_app = list(pw.app)
            pw.app.clear()
            pw.log.clear()
            self.collect()
            # scripted failures of the server side
            w = pw.hosts[0]
            orig_disc = w.sio.disconnect

            def disc(sid, namespace=None, ignore_queue=False):
                if self._fault_now() == 'srv':
                    raise W.HandlerError('server.disconnect')
                return orig_disc(sid, namespace=namespace, ignore_queue=ignore_queue)

            async def adisc(sid, namespace=None, ignore_queue=False):
                if self._fault_now() == 'srv':
                    raise W.HandlerError('server.disconnect')
                return await orig_disc(sid, namespace=namespace, ignore_queue=ignore_queue)
            w.sio.disconnect = adisc if self.family == 'asyncio' else disc
            pw.disc_fault = lambda hid, sid: (W.HandlerError('disconnect handler')
                                              if hid == HA and self._fault_now() == 'app' else None)
            self.listening = True
            n_pub = len(pw.chan.published)
            ended = pw.deliver(HA, BIG)
            self.listening = False
            frames = self.collect()
            names = self.names
            app = []
            for a in pw.app:
                if a[0] == 'cb':
                    app.append(('cb', a[1], a[2]))
                else:
                    app.append(('disc', names.back(a[2])))
            log = []
            for host, lvl, msg, exc in pw.log:
                if host != HA:
                    continue
                if lvl == 'exception' and 'Handler error' in msg:
                    log.append(('handler', 'Exception' if exc == 'HandlerError' else exc))
                elif lvl == 'exception':
                    log.append(('restarted',))
            m = pw.mgr[0]
            def rn(r):
                if r is None:
                    return ''
                if isinstance(r, int) and not isinstance(r, bool):
                    return repr('#%d' % r)
                return repr(names.back(r))
            rooms = sorted((ns, rn(r), names.back(s))
                           for ns, rs in m.rooms.items() for r, members in rs.items() for s in members)
            cbs = sorted((names.back(k), i) for k, dct in m.callbacks.items() for i in dct)
            pubs = [c07.canon_pub(names, d) for h, d in pw.chan.published[n_pub:] if h == HA]
            return {'frames': {t: v for t, v in frames.items() if t.startswith('ta')}, 'app': app, 'log': log,
                    'ended': ended[0] if ended[0] == 'ok' else ended[1], 'rooms': rooms, 'cbs': cbs, 'pub': pubs,
                    'consumed': m.cursor - start, 'built_app': built_app}
        finally:
            pw.close()


# ---------------------------------------------------------------- the model

def run_model(drv, case, real):
    """feeds the set-up and the stream to the model; garbage is classified with the session names
    of the real run (`real.names`) — the classification never looks at what the listener did."""
    drv.ask({'op': 'reset', 'hosts': [C.s2w(HA), C.s2w(HB)], 'wo': C.s2w('wo')})
    for op in case['setup']:
        drv.ask({'op': 'c', 'do': c07.op_to_wire(op)})
        drv.ask({'op': 'c', 'do': {'op': 'drain'}})
    entries = []
    built = []
    for i, item in enumerate(case['stream']):
        fault = case['faults'].get(str(i), 'none')
        if fault == 'cancel':
            fault = 'none'          # swallowed by `trigger_callback`: the callback ran, nothing is logged
        if item['k'] == 'op':
            r = drv.ask({'op': 'c', 'do': c07.op_to_wire(item['op'])})
            for o in r['out']:
                if o['k'] == 'callback':
                    built.append(('cb', int(o['tok']), [C.w2j(a) for a in o['args']]))
            n_after = int(r['chan'])
            for j in range(n_after - len(r['pub']), n_after):
                entries.append({'chan': j, 'fault': fault})
        elif item['k'] == 'raise':
            entries.append({'raw': 'listenRaises'})
        else:
            raw = build_raw(item['g'], real.names)
            try:
                entries.append({'raw': classify_raw(raw, real.names), 'fault': fault})
            except Unmodelled:
                return None
    r = drv.ask({'op': 'listen', 'h': C.s2w(HA), 'entries': entries})
    obs = c07.outs_to_obs(r['out'], with_host=False)
    log = []
    for o in r['out']:
        if o['k'] == 'handler_error':
            log.append(('handler', o['exc']))
        elif o['k'] == 'restarted':
            log.append(('restarted',))
    rooms = drv.ask({'op': 'rooms', 'h': C.s2w(HA)})['rooms']
    rooms = sorted((C.w2s(e[0]), repr(C.w2s(e[1])) if e[1] is not None else '', C.w2s(e[2])) for e in rooms)
    return {'frames': obs['frames'], 'app': [(a[0], a[1]) if a[0] == 'disc' else a for a in obs['app']],
            'log': log, 'alive': bool(r['alive']), 'rooms': rooms,
            'pub': [c07.pub_from_wire(p) for p in r['pub']], 'drv': drv, 'built_app': built}


def model_has_cb(drv, key, i):
    return drv.ask({'op': 'cb', 'h': C.s2w(HA), 'key': C.s2w(key), 'id': i})['present']


# ---------------------------------------------------------------- judging

def jl(x):
    return json.loads(json.dumps(C.jsonable(x)))


def inert_by_statement(case, i, item):
    """which stream items must, by the statement of C15, leave no trace (model-free)"""
    if item['k'] == 'raise':
        return True
    if item['k'] != 'raw':
        return False
    if item['inert'] is not None:
        return item['inert']
    g = item['g']
    if g['t'] in ('bytes', 'str', 'jsonstr', 'evil', 'value'):
        return True
    v = g['v']
    if not isinstance(v, dict) or 'method' not in v or '$tuple' in v:
        return True
    return False


class CbTable:
    """The statement's view of who must be called back (model-free): the callback slots of host hA
    — a user callback sits where `emit(..., callback=cb)` put it, a relay entry stands for an event
    that a client of hA was asked to acknowledge and names the host that must be called back — and,
    for clients of hB, what their acknowledgements mean for hA."""

    def __init__(self, case):
        self.ctr = collections.Counter()
        self.slots = {}
        self.asked = collections.defaultdict(list)      # client -> what its n-th acknowledgement stands for
        a_clients = {op['name'] for op in case['setup'] if op['op'] == 'connect' and op['h'] == HA}
        for op in case['setup']:
            if op['op'] != 'emit' or op['cb'] is None:
                continue
            key = op['to']['s']
            if op['via'] == HA:
                self.ctr[key] += 1
                u = (key, self.ctr[key])
                self.slots[u] = ('user', op['cb'])
                if key in a_clients:
                    self.ctr[key] += 1
                    self.slots[(key, self.ctr[key])] = ('relay', HA, u)
                    self.asked[key].append(('slot', (key, self.ctr[key])))
                else:
                    self.asked[key].append(('msg', u))
            else:
                if key in a_clients:
                    self.ctr[key] += 1
                    self.slots[(key, self.ctr[key])] = ('relay', HB, None)
                    self.asked[key].append(('slot', (key, self.ctr[key])))
                else:
                    self.asked[key].append(('hB', op['cb']))
        self.a_clients = a_clients
        self.hb_done = set()

    def trigger(self, slot, args, out):
        """`trigger_callback` on hA; args None = cannot be unpacked"""
        e = self.slots.pop(slot, None)
        if e is None or args is None:
            return
        if e[0] == 'user':
            out.append(('cb', e[1], list(args)))
        elif e[1] == HA:
            self.trigger(e[2], args, out)
        # a relay for another host: the acknowledgement is published, nothing is completed here

    def ack(self, sid, n, args, out):
        """a client acknowledges the n-th event that asked it to (at the moment the item is built)"""
        if n >= len(self.asked[sid]):
            return
        e = self.asked[sid][n]
        if e[0] == 'slot':
            self.trigger(e[1], args, out)
        elif e[0] == 'hB' and (sid, n) not in self.hb_done:
            self.hb_done.add((sid, n))
            out.append(('cb', e[1], list(args)))

    def slots_list(self):
        return sorted(self.slots)


def expected_callbacks(case):
    """-> (callbacks that must run while the stream is built, callbacks the listener of hA must run)"""
    tab = CbTable(case)
    built = []
    for it in case['stream']:
        if it['k'] == 'op' and it['op']['op'] == 'ack':
            op = it['op']
            if op['sid'] in tab.a_clients or (op['n'] < len(tab.asked[op['sid']])
                                              and tab.asked[op['sid']][op['n']][0] == 'hB'):
                tab.ack(op['sid'], op['n'], op['args'], built)
    out = []
    sent = set()
    for i, it in enumerate(case['stream']):
        fault = case['faults'].get(str(i))
        n0 = len(out)
        if it['k'] == 'op' and it['op']['op'] == 'ack' and it['op']['sid'] not in tab.a_clients:
            op = it['op']
            if op['n'] < len(tab.asked[op['sid']]) and tab.asked[op['sid']][op['n']][0] == 'msg' \
                    and (op['sid'], op['n']) not in sent:
                sent.add((op['sid'], op['n']))
                tab.trigger(tab.asked[op['sid']][op['n']][1], op['args'], out)
        elif it['k'] == 'op' and it['op']['op'] == 'disconnect' and fault != 'srv':
            key = it['op']['sid']
            for slot in [sl for sl in tab.slots if sl[0] == key]:
                del tab.slots[slot]
        elif it['k'] == 'raw' and it['g']['t'] in ('pickle', 'dict', 'json') and isinstance(it['g'].get('v'), dict):
            v = it['g']['v']
            if v.get('method') == 'callback' and v.get('host_id') == HA and isinstance(v.get('sid'), dict) \
                    and '$sid' in v['sid'] and isinstance(v.get('id'), int) and not isinstance(v.get('id'), bool) \
                    and 'args' in v:
                a = v.get('args')
                if isinstance(a, dict) and '$tuple' in a:
                    a = a['$tuple']
                if isinstance(a, (str, dict)):
                    a = list(a)                 # `callback(*args)` unpacks characters / keys
                if isinstance(a, list):
                    tab.trigger((v['sid']['$sid'], v['id']), a, out)
                elif a is None or isinstance(a, (int, float)):
                    tab.trigger((v['sid']['$sid'], v['id']), None, out)
            elif v.get('method') == 'disconnect' and isinstance(v.get('sid'), dict) and '$sid' in v['sid'] \
                    and v.get('host_id') != HA and v.get('namespace', NS) in (NS, None) and 'method' in v:
                key = v['sid']['$sid']
                for slot in [sl for sl in tab.slots if sl[0] == key]:
                    del tab.slots[slot]
        if fault == 'fatal' and len(out) > n0:
            break
    return built, out


def compare_runs(with_g, without_g):
    bad = []
    for key in ('frames', 'app', 'rooms', 'cbs', 'pub', 'ended'):
        if jl(with_g[key]) != jl(without_g[key]):
            bad.append('%s: with the garbage %r, without it %r' % (key, with_g[key], without_g[key]))
    return bad


LAST_OBS = {}
PARITY_KEYS = ('frames', 'app', 'built_app', 'log', 'rooms', 'cbs', 'pub', 'ended', 'consumed')


def parity_failures(a, b):
    """the same case on PubSubManager (a) and AsyncPubSubManager (b)"""
    return ['%s: PubSubManager %r, AsyncPubSubManager %r' % (k, a[k], b[k]) for k in PARITY_KEYS
            if jl(a[k]) != jl(b[k])]


def parity(ctx, n=None):
    """C14: the same generated streams (garbage, faults, valid traffic) through the threaded and the
    asyncio listener; any direct difference is reported as an oracle violation."""
    rng = ctx.rng
    n = n or ctx.scale(300, 4000)
    programs = disagreements = 0
    for _ in range(n):
        case = gen_case(rng)
        a = RealRun('threading', case).run()
        b = RealRun('asyncio', case).run()
        programs += 1
        bad = parity_failures(a, b)
        if bad:
            disagreements += 1
            if disagreements <= 3:
                ctx.violation('oracle', 'pub/sub listener, threaded vs asyncio: %s' % bad[0],
                              dict(case, failures=bad[:6], threading=jl(a), asyncio=jl(b)))
    return {'programs': programs, 'disagreements': disagreements}


def judge(ctx, drv, family, case):
    """-> (ok, stats)"""
    real = RealRun(family, case)
    obs = real.run()
    LAST_OBS[family] = obs
    stats = collections.Counter()
    bad_oracle = []
    # 1. survival: without BaseException faults the listener consumes everything and returns normally
    has_fatal = any(f == 'fatal' for f in case['faults'].values())
    if not has_fatal and obs['ended'] != 'ok':
        bad_oracle.append('the listener ended with %r' % (obs['ended'],))
    total = sum(1 for i, it in enumerate(case['stream']) if i in real.pos_of_item)
    if not has_fatal and obs['consumed'] < total:
        bad_oracle.append('the listener consumed %d of %d entries' % (obs['consumed'], total))
    # 2. the same stream without the inert garbage has the same effect
    flags = {i: inert_by_statement(case, i, it) for i, it in enumerate(case['stream'])}
    n_inert = sum(1 for v in flags.values() if v)
    stats['inert_items'] = n_inert
    if n_inert and not has_fatal:
        other = RealRun(family, case, drop_inert=True, inert_flags=flags).run()
        bad_oracle += compare_runs(obs, other)
    # 3. own publications never come back
    own = {}
    for i, it in enumerate(case['stream']):
        if it['k'] == 'op' and it['op']['op'] == 'emit' and it['op']['via'] == HA:
            own[c07.payload(it['op'])[0]] = True
    for t, fr in obs['frames'].items():
        for f in fr:
            if f[0] == 'event' and f[2] and isinstance(f[2][0], str) and f[2][0] in own:
                bad_oracle.append('hA re-applied its own emit %r' % (f[2][0],))
    # 4. callbacks: an acknowledgement addressed to hA completes the callback it names, once; one
    #    addressed to anybody else completes nothing
    want_built, want_cb = expected_callbacks(case)
    got_cb = [a for a in obs['app'] if a[0] == 'cb']
    if jl(got_cb) != jl(want_cb):
        bad_oracle.append('callbacks invoked by the listener %r, required %r' % (got_cb, want_cb))
    got_built = [a for a in obs['built_app'] if a[0] == 'cb']
    if jl(got_built) != jl(want_built):
        bad_oracle.append('client acknowledgements while the stream was built invoked %r, required %r' % (
            got_built, want_built))
    if bad_oracle:
        ctx.violation('oracle', '%s: %s' % (family, bad_oracle[0]),
                      dict(case, family=family, failures=bad_oracle[:6], observed=jl(obs)))
        return False, stats
    model = run_model(drv, case, real)
    if model is None:
        stats['unmodelled'] += 1
        return True, stats
    stats['modelled'] += 1
    bad = []
    for key in ('frames', 'app', 'log', 'rooms', 'pub'):
        if jl(obs[key]) != jl(model[key]):
            bad.append('%s: implementation %r, model %r' % (key, obs[key], model[key]))
    if jl([a for a in obs['built_app'] if a[0] == 'cb']) != jl(model['built_app']):
        bad.append('callbacks while the stream was built: implementation %r, model %r' % (
            obs['built_app'], model['built_app']))
    if (obs['ended'] == 'ok') != model['alive']:
        bad.append('ended: implementation %r, model alive=%r' % (obs['ended'], model['alive']))
    for key, i in obs['cbs']:
        if not model_has_cb(drv, key, i):
            bad.append('callbacks[%s][%d] is outstanding on the implementation, not in the model' % (key, i))
    for key, i in [(k, j) for k in {k for k, _ in obs['cbs']} | {'s0', 'b0', 'b1'} for j in range(1, 6)]:
        if model_has_cb(drv, key, i) and (key, i) not in [tuple(x) for x in obs['cbs']]:
            bad.append('callbacks[%s][%d] is outstanding in the model, not on the implementation' % (key, i))
    for o in obs['log']:
        stats['log.' + o[0]] += 1
    if bad:
        ctx.violation('correspondence', '%s: %s (oracle found no failing input)' % (family, bad[0]),
                      dict(case, family=family, failures=bad[:6], observed=jl(obs)), no_input=True)
        return False, stats
    return True, stats


# ---------------------------------------------------------------- application code that is active inside the listener

ACT_LIMITS = (20.0, 45.0)     # wall-clock watchdog: ONLY turns a listener that never returns into a report
KEEP = 'a0'                   # a client of hA that nothing in a case ever disconnects


def gen_script(rng, nxt, keepers, victims, depth, self_sid=None):
    """what an application callback / disconnect handler does with the server's own API.  Clients are named by sid
    only when nothing ever disconnects them (`keepers`, clients of hB): while a client's disconnect handler runs the
    client is half gone (rooms still there, `is_connected` false), and what is done to it by name then is not the
    subject here.  Rooms and broadcasts may well contain it."""
    acts = []
    subs = {}
    for _ in range(rng.choice([1, 1, 2, 2, 3])):
        x = rng.random()
        if x < 0.50:
            to = rng.choice([None, None, {'r': 'r1'}, {'r': 'r2'}, {'s': rng.choice(keepers)}, {'s': rng.choice(keepers)},
                             {'s': rng.choice(['b0', 'b1'])}, {'list': [{'r': 'r1'}, {'s': KEEP}]}])
            cb = None
            if depth == 0 and to is not None and 's' in to and to['s'] in ('b0', 'b1') and rng.random() < 0.6:
                cb = nxt()
                sub, _s = gen_script(rng, nxt, keepers, victims, 1)
                subs['cb%d' % cb] = sub
            skip = {'one': rng.choice(keepers)} if rng.random() < 0.15 else None
            i = cb if cb is not None else nxt()
            acts.append({'a': 'emit', 'ns': NS, 'to': to, 'skip': skip, 'cb': cb, 'idx': i,
                         'data': rng.choice(c07.DATA_KINDS)})
        elif x < 0.64:
            acts.append({'a': rng.choice(['enter', 'enter', 'leave']), 'ns': NS, 'sid': rng.choice(keepers + ['b0']),
                         'room': {'r': rng.choice(['r1', 'r2'])}})
        elif x < 0.74:
            acts.append({'a': 'close', 'ns': NS, 'room': {'r': rng.choice(['r1', 'r2'])}})
        elif x < 0.86:
            cands = [v for v in victims if v != self_sid] + ['b1']
            acts.append({'a': 'disconnect', 'ns': NS, 'sid': rng.choice(cands)})
        elif x < 0.93:
            acts.append({'a': 'rooms', 'ns': NS, 'sid': rng.choice(keepers)})
        else:
            acts.append({'a': 'session', 'ns': NS, 'sid': rng.choice(keepers), 'v': nxt()})
    return {'acts': acts, 'raise': rng.random() < 0.2}, subs


def gen_active(rng):
    n_a = rng.choice([2, 3, 3, 4])
    a_names = ['a%d' % i for i in range(n_a)]
    n_keep = 1 if n_a == 2 else rng.choice([1, 2])
    keepers, victims = a_names[:n_keep], a_names[n_keep:]
    idx = [0]

    def nxt():
        idx[0] += 1
        return idx[0]
    setup = [{'op': 'connect', 'h': HA, 't': 't' + nm, 'ns': NS, 'name': nm} for nm in a_names]
    setup += [{'op': 'connect', 'h': HB, 't': 'tb%d' % i, 'ns': NS, 'name': 'b%d' % i} for i in range(2)]
    for nm in a_names + ['b0', 'b1']:
        for r in ('r1', 'r2'):
            if rng.random() < 0.45:
                setup.append({'op': 'enter', 'via': rng.choice([HA, HB]), 'ns': NS, 'sid': nm, 'room': {'r': r}})
    scripts = {}
    asked = collections.Counter()
    tokens = []
    for _ in range(rng.randint(1, 3)):
        tok = nxt()
        b = rng.choice(['b0', 'b1'])
        setup.append({'op': 'emit', 'via': HA, 'ns': NS, 'to': {'s': b}, 'skip': None, 'cb': tok, 'idx': tok,
                      'data': rng.choice(['int', 'none'])})
        tokens.append((b, asked[b], tok))
        asked[b] += 1
        s, subs = gen_script(rng, nxt, keepers, victims, 0)
        scripts['cb%d' % tok] = s
        scripts.update(subs)
    for v in victims:
        if rng.random() < 0.8:
            s, subs = gen_script(rng, nxt, keepers, victims, 0, self_sid=v)
            scripts['disc:' + v] = s
            scripts.update(subs)
    stream = []
    rng.shuffle(tokens)
    todo_acks = list(tokens)
    todo_disc = [v for v in victims if rng.random() < 0.8]
    for _ in range(rng.randint(3, 9)):
        x = rng.random()
        if x < 0.35 and todo_acks:
            b, n, tok = todo_acks.pop(0)
            stream.append({'op': 'ack', 'ns': NS, 'sid': b, 'n': n, 'args': rng.choice([[], [tok], ['ok', tok]])})
        elif x < 0.55 and todo_disc:
            stream.append({'op': 'disconnect', 'via': HB, 'ns': NS, 'sid': todo_disc.pop(0)})
        elif x < 0.80:
            i = nxt()
            to = rng.choice([None, None, {'r': 'r1'}, {'r': 'r2'}, {'s': rng.choice(a_names)}])
            stream.append({'op': 'emit', 'via': HB, 'ns': NS, 'to': to, 'skip': None, 'cb': None, 'idx': i,
                           'data': rng.choice(c07.DATA_KINDS)})
        elif x < 0.93:
            stream.append({'op': rng.choice(['enter', 'leave']), 'via': HB, 'ns': NS, 'sid': rng.choice(a_names),
                           'room': {'r': rng.choice(['r1', 'r2'])}})
        else:
            stream.append({'op': 'close', 'via': HB, 'ns': NS, 'room': {'r': rng.choice(['r1', 'r2'])}})
    for b, n, tok in todo_acks:
        stream.insert(rng.randint(0, len(stream)),
                      {'op': 'ack', 'ns': NS, 'sid': b, 'n': n, 'args': rng.choice([[], [tok]])})
    # per client the acknowledgements are sent in the order the events were received (the n-th ask exists by then)
    for v in todo_disc:
        stream.insert(rng.randint(0, len(stream)), {'op': 'disconnect', 'via': HB, 'ns': NS, 'sid': v})
    last = nxt()
    stream.append({'op': 'emit', 'via': HB, 'ns': NS, 'to': None, 'skip': None, 'cb': None, 'idx': last, 'data': 'int'})
    return {'active': True, 'setup': setup, 'scripts': scripts, 'stream': stream, 'sentinel': 'e%d' % last,
            'keepers': keepers, 'victims': victims}


class Blocked(Exception):
    """asyncio: the loop ran dry and the listener had not finished the message"""

    def __init__(self, k, msg, where):
        Exception.__init__(self, k, msg, where)
        self.k, self.msg, self.where = k, msg, where


class ActiveRun:
    """One case on two real servers.  `inside=True`: the application's callbacks and disconnect handlers do their
    work (calls of the server's own API) where the library invokes them — for those reached from hA's listener,
    inside `_thread()`.  `inside=False` (the reference): code reached from the listener only notes that it was
    invoked (and raises if scripted to); the same API calls are then made by the harness from the top level as soon as
    the listener has finished that message.  hA's listener is given one channel entry at a time."""

    def __init__(self, family, case, inside, progress):
        self.family = family
        self.is_async = family == 'asyncio'
        self.case = case
        self.inside = inside
        self.progress = progress
        self.pw = WP.PubSubWorld(family, 2, namespaces=[NS], host_ids=[HA, HB])
        self.names = c07.Names()
        self.tid_of = {}
        self.tids = []
        self.asked = collections.defaultdict(list)      # client -> ack ids it was asked for, in order
        self.acked = collections.Counter()
        self.frames = collections.defaultdict(list)
        self.app = []
        self.due = []
        self.listening = False
        self.steps = []
        w = self.pw.hosts[0]
        w.sio.on('disconnect', self._disc_handler(), namespace=NS)

    # -- the application
    def _call_of(self, act):
        names = self.names
        a = act['a']
        if a == 'emit':
            ev, data = c07.payload(act)
            target, skip = c07.api_args(names, act)
            cb = self.mk_cb(act['cb']) if act['cb'] is not None else None
            return 'emit', (ev, data), dict(to=target, skip_sid=skip, namespace=act['ns'], callback=cb)
        if a in ('enter', 'leave'):
            return a + '_room', (names.sid(act['sid']), names.room(act['room'])), dict(namespace=act['ns'])
        if a == 'close':
            return 'close_room', (names.room(act['room']),), dict(namespace=act['ns'])
        if a == 'disconnect':
            return 'disconnect', (names.sid(act['sid']),), dict(namespace=act['ns'])
        if a == 'rooms':
            return 'rooms', (names.sid(act['sid']),), dict(namespace=act['ns'])
        if a == 'session':
            return 'save_session', (names.sid(act['sid']), {'v': act['v']}), dict(namespace=act['ns'])
        raise ValueError(a)

    def _note(self, key, i, act, r):
        if r[0] == 'ok' and act['a'] == 'rooms':
            r = ('ok', sorted(self.names.back(x) for x in r[1]))
        elif r[0] == 'ok':
            r = ('ok', None if r[1] is None else repr(r[1]))
        self.app.append(('act', key, i, act['a'], list(r)))

    def script_sync(self, key):
        sio = self.pw.hosts[0].sio
        for i, act in enumerate(self.case['scripts'].get(key, {}).get('acts', [])):
            name, a, k = self._call_of(act)
            try:
                r = ('ok', getattr(sio, name)(*a, **k))
            except Exception as ex:   # noqa
                r = ('exc', type(ex).__name__)
            self._note(key, i, act, r)

    async def script_async(self, key):
        import inspect
        sio = self.pw.hosts[0].sio
        for i, act in enumerate(self.case['scripts'].get(key, {}).get('acts', [])):
            name, a, k = self._call_of(act)
            try:
                v = getattr(sio, name)(*a, **k)
                if inspect.isawaitable(v):
                    v = await v
                r = ('ok', v)
            except Exception as ex:   # noqa
                r = ('exc', type(ex).__name__)
            self._note(key, i, act, r)

    def _defer(self):
        return self.listening and not self.inside

    def _app_code(self, key, record):
        """-> the function the application registers (a coroutine function on the asyncio server)"""
        raises = bool(self.case['scripts'].get(key, {}).get('raise'))
        if self.is_async:
            async def acode(*a):
                self.app.append(record(*a))
                if self._defer():
                    self.due.append(key)
                else:
                    await self.script_async(key)
                if raises:
                    raise W.HandlerError(key)
            return acode

        def code(*a):
            self.app.append(record(*a))
            if self._defer():
                self.due.append(key)
            else:
                self.script_sync(key)
            if raises:
                raise W.HandlerError(key)
        return code

    def mk_cb(self, tok):
        return self._app_code('cb%d' % tok, lambda *a: ('cb', tok, list(a)))

    def _disc_handler(self):
        # one handler for all clients: the script is chosen by the client's name
        run = self

        if self.is_async:
            async def on_disconnect(sid, reason=None):
                nm = run.names.back(sid)
                await run._app_code('disc:' + nm, lambda *a: ('disc', nm))()
            return on_disconnect

        def on_disconnect(sid, reason=None):
            nm = run.names.back(sid)
            run._app_code('disc:' + nm, lambda *a: ('disc', nm))()
        return on_disconnect

    def run_due(self):
        """reference mode: what the code reached from the listener would have done, from the top level"""
        w = self.pw.hosts[0]
        while self.due:
            key = self.due.pop(0)
            if self.is_async:
                w.loop.run_until_complete(self.script_async(key))
            else:
                self.script_sync(key)

    # -- driving
    def do_op(self, op):
        pw, names = self.pw, self.names
        k = op['op']
        if k == 'connect':
            self.tids.append(op['t'])
            sid, _rest = pw.connect(op['h'], op['t'], op['ns'])
            names.bind(op['name'], sid)
            self.tid_of[op['name']] = op['t']
        elif k == 'enter':
            pw.api(op['via'], 'enter_room', names.sid(op['sid']), names.room(op['room']), namespace=op['ns'])
        elif k == 'leave':
            pw.api(op['via'], 'leave_room', names.sid(op['sid']), names.room(op['room']), namespace=op['ns'])
        elif k == 'close':
            pw.api(op['via'], 'close_room', names.room(op['room']), namespace=op['ns'])
        elif k == 'disconnect':
            pw.api(op['via'], 'disconnect', names.sid(op['sid']), namespace=op['ns'])
        elif k == 'emit':
            ev, data = c07.payload(op)
            target, skip = c07.api_args(names, op)
            cb = self.mk_cb(op['cb']) if op['cb'] is not None else None
            pw.api(op['via'], 'emit', ev, data, to=target, skip_sid=skip, namespace=op['ns'], callback=cb)
        elif k == 'ack':
            self.ack(op['sid'], op['n'], op['args'])
        self.collect()

    def ack(self, nm, n, args):
        if n < len(self.asked[nm]):
            for fr in c07.ack_frame(NS, self.asked[nm][n], args):
                self.pw.recv(self.tid_of[nm], fr)

    def collect(self):
        for t in self.tids:
            fr = c07.canon_frames(self.pw.sent(t))
            nm = t[1:]
            for f in fr:
                if f[0] == 'event' and f[3] is not None:
                    self.asked[nm].append(f[3])
            self.frames[t] += fr

    def msg_text(self, pos):
        raw = self.pw.chan.msgs[pos]
        try:
            return json.dumps(C.jsonable(c07.canon_pub(self.names, pickle.loads(raw))), sort_keys=True)
        except Exception:   # noqa
            return repr(raw)[:120]

    def listen_all(self):
        """hA's listener takes the channel entry by entry, until it has seen everything"""
        pw = self.pw
        m = pw.mgr[0]
        while m.cursor < len(pw.chan.msgs):
            k = m.cursor - self.start      # counted from the first entry of the stream
            self.progress[:3] = ['listener of hA, message %d' % k, k, self.msg_text(m.cursor)]
            self.listening = True
            try:
                if self.is_async:
                    ended = pw.deliver(HA, 1, quiescent=True)
                else:
                    # as in production the listener is a thread of its own: what it holds when it returns is
                    # held against every other thread (the one that makes the harness's and the reference's calls)
                    box = {}
                    t = threading.Thread(target=lambda: box.update(r=pw.deliver(HA, 1)), daemon=True,
                                         name='c15-listener-of-hA')
                    self.progress.append(t)
                    t.start()
                    t.join()            # (the watchdog of `watched` is what ends a wait that never ends)
                    self.progress.pop()
                    ended = box['r']
            finally:
                self.listening = False
            if ended[0] == 'pending':
                raise Blocked(k, self.msg_text(m.cursor - 1), ended[1])
            self.steps.append([k, ended[0] if ended[0] == 'ok' else ended[1]])
            self.progress[:3] = ['application code deferred from message %d, at the top level' % k, k, '']
            self.run_due()
            self.collect()

    def run(self):
        pw = self.pw
        try:
            self.progress[:3] = ['set-up', -1, '']
            for op in self.case['setup']:
                self.do_op(op)
                for h in (HA, HB):
                    pw.deliver(h, BIG)
                self.collect()
            pw.log.clear()
            self.progress[:3] = ['hB publishes the stream', -1, '']
            start = self.start = len(pw.chan.msgs)
            for op in self.case['stream']:
                self.do_op(op)
            self.listen_all()
            # what hA's application published reaches hB and its clients; they acknowledge what asks for it;
            # the acknowledgements come back over the channel
            self.progress[:3] = ['hB drains the channel', -1, '']
            pw.deliver(HB, BIG)
            self.collect()
            for nm in ('b0', 'b1'):
                n0 = self.acked[nm] = sum(1 for op in self.case['stream'] if op['op'] == 'ack' and op['sid'] == nm)
                for n in range(n0, len(self.asked[nm])):
                    self.ack(nm, n, [n])
            self.listen_all()
            pw.deliver(HB, BIG)
            self.collect()
            names = self.names
            m = pw.mgr[0]

            def rn(r):
                return '' if r is None else repr(names.back(r))
            frames = {}
            for t, fr in self.frames.items():
                if ('disc', NS) in fr:          # a disconnected client observes nothing more
                    fr = fr[:fr.index(('disc', NS)) + 1]
                frames[t] = fr
            log = []
            for host, lvl, msg, exc in pw.log:
                if lvl == 'exception':
                    log.append((host, 'handler' if 'Handler error' in msg else 'restarted', exc))
            return {
                'frames': frames, 'app': self.app, 'log': log, 'steps': self.steps,
                'rooms': sorted((ns, rn(r), names.back(s)) for ns, rs in m.rooms.items() for r, mem in rs.items()
                                for s in mem),
                'rooms_hB': sorted((ns, rn(r), names.back(s)) for ns, rs in pw.mgr[1].rooms.items()
                                   for r, mem in rs.items() for s in mem),
                'cbs': sorted((names.back(k), i) for k, dct in m.callbacks.items() for i in dct),
                'pub': [[h, c07.canon_pub(names, d)] for h, d in pw.chan.published[start:]],
                'unread': len(pw.chan.msgs) - m.cursor,
                'connected': sorted(nm for nm in self.tid_of if nm.startswith('a')
                                    and m.is_connected(names.sid(nm), NS)),
            }
        finally:
            try:
                pw.close()
            except BaseException:   # noqa
                pass


def watched(fn, limits=ACT_LIMITS):
    """runs `fn(progress)` on a worker thread.  -> ('ok', value) | ('raised', exception, traceback text) |
    ('hang', progress, stack of the thread).  The wall clock is a watchdog and nothing else: a run that has not come
    back after limits[0] seconds (a case takes milliseconds) is started again from scratch and given limits[1]
    seconds before the hang is believed."""
    out = None
    for limit in limits:
        box = {}
        progress = ['not started', -1, '']

        def body(box=box, progress=progress):
            try:
                box['v'] = fn(progress)
            except BaseException as ex:   # noqa
                box['exc'] = ex
                box['tb'] = traceback.format_exc()
        t = threading.Thread(target=body, daemon=True, name='c15-case (harness calls, client traffic)')
        t.start()
        t.join(limit)
        if not t.is_alive():
            if 'exc' in box:
                return ('raised', box['exc'], box['tb'])
            return ('ok', box['v'])
        stack = ''
        for th in [x for x in progress[3:] if isinstance(x, threading.Thread)] + [t]:
            fr = sys._current_frames().get(th.ident)
            stack += 'thread %s:\n%s' % (th.name, ''.join(traceback.format_stack(fr)) if fr is not None
                                         else '(no frame)\n')
        out = ('hang', list(progress[:3]), stack, limit)
    return out


ACT_KEYS = ('frames', 'app', 'log', 'steps', 'rooms', 'rooms_hB', 'cbs', 'pub', 'unread', 'connected')


def active_statement_failures(case, obs):
    """what C15 requires of the run in which the application code ran inside the listener, stated on that run alone"""
    bad = []
    for k, how in obs['steps']:
        if how != 'ok':
            bad.append('the listener ended with %s at message %d' % (how, k))
    if obs['unread']:
        bad.append('%d channel entries were never processed' % obs['unread'])
    for host, kind, exc in obs['log']:
        if kind == 'restarted':
            bad.append('%s: an exception (%s) escaped the per-message containment' % (host, exc))
    # the message that follows everything else has its full effect
    for nm in obs['connected']:
        n = sum(1 for f in obs['frames'].get('t' + nm, []) if f[0] == 'event' and f[2] and f[2][0] == case['sentinel'])
        if n != 1:
            bad.append('client %s of hA received the last emit of the stream (%s) %d times' % (nm, case['sentinel'], n))
    if KEEP not in obs['connected']:
        bad.append('client %s, which nothing disconnects, is not connected at the end' % KEEP)
    # every acknowledgement that came over the channel completed its callback, once; every disconnect request too
    ran = collections.Counter((a[0], a[1]) for a in obs['app'] if a[0] in ('cb', 'disc'))
    for op in case['setup']:
        if op['op'] == 'emit' and op.get('cb') is not None and ran[('cb', op['cb'])] != 1:
            bad.append('the callback of emit #%d ran %d times (its acknowledgement came over the channel once)'
                       % (op['cb'], ran[('cb', op['cb'])]))
    for op in case['stream']:
        if op['op'] == 'disconnect' and ran[('disc', op['sid'])] != 1:
            bad.append('the disconnect handler ran %d times for %s' % (ran[('disc', op['sid'])], op['sid']))
    n_raise = sum(1 for a in obs['app'] if a[0] in ('cb', 'disc')
                  and case['scripts'].get('cb%d' % a[1] if a[0] == 'cb' else 'disc:' + a[1], {}).get('raise'))
    n_logged = sum(1 for host, kind, exc in obs['log'] if kind == 'handler' and host == HA)
    # (a raising handler of a disconnect the application itself asked for raises into that application code)
    if n_logged > n_raise:
        bad.append('%d errors logged by the listener, the application code raised %d times' % (n_logged, n_raise))
    # the application's own calls have their normal effect
    acts = {}
    for key, sc in case['scripts'].items():
        for i, act in enumerate(sc['acts']):
            acts[(key, i)] = act
    # (a client of hB that the application disconnects may be gone before it can acknowledge)
    b1_leaves = any(act['a'] == 'disconnect' and act['sid'] == 'b1' for act in acts.values())
    for a in obs['app']:
        if a[0] != 'act':
            continue
        act = acts[(a[1], a[2])]
        res = a[4]
        if act['a'] == 'disconnect' and res == ['exc', 'HandlerError'] \
                and case['scripts'].get('disc:' + act['sid'], {}).get('raise'):
            continue            # the disconnect handler of that client is scripted to raise: it raises into its caller
        if act['a'] != 'session' and res[0] != 'ok':
            bad.append('%s called from the application code %s raised %s' % (act['a'], a[1], res[1]))
            continue
        if act['a'] == 'emit':
            ev = 'e%d' % act['idx']
            n_pub = sum(1 for h, p in obs['pub'] if h == HA and p.get('method') == 'emit' and p.get('event') == ev)
            if n_pub != 1:
                bad.append('emit(%s) called from the application code %s was published %d times' % (ev, a[1], n_pub))
            to = act['to']
            skip = c07.skip_list(act['skip'])
            if (to is None or to == {'s': KEEP} or 'list' in to) and KEEP not in skip:
                n = sum(1 for f in obs['frames'].get('t' + KEEP, []) if f[0] == 'event' and f[2] and f[2][0] == ev)
                if n != 1:
                    bad.append('emit(%s, to=%r) called from the application code %s reached client %s %d times'
                               % (ev, to, a[1], KEEP, n))
            if to is not None and to.get('s') in ('b0', 'b1') and act['cb'] is not None \
                    and not (to['s'] == 'b1' and b1_leaves) and ran[('cb', act['cb'])] != 1:
                bad.append('the callback of emit(%s) issued from the application code %s ran %d times'
                           % (ev, a[1], ran[('cb', act['cb'])]))
    return bad


def judge_active(ctx, family, case, limits=ACT_LIMITS, verbose=False):
    """-> (list of failures, observation or None, stats)"""
    stats = collections.Counter()
    how = watched(lambda progress: ActiveRun(family, case, True, progress).run(), limits)
    if how[0] == 'hang':
        _h, progress, stack, limit = how
        what = ('the listener did not finish processing message %d (%s): it is blocked' % (progress[1], progress[2])
                if progress[1] >= 0 and progress[0].startswith('listener') else
                'the run is blocked at: %s' % progress[0])
        return [what, 'no progress for %.0f s in a run that takes milliseconds (started twice); the blocked '
                      'thread is at:\n%s' % (limit, stack)], None, stats
    if how[0] == 'raised':
        if isinstance(how[1], Blocked):
            ex = how[1]
            return ['the listener did not finish processing message %d (%s): it is blocked'
                    % (ex.k, ex.msg), 'the event loop has nothing left to run and the listener task is still '
                    'pending:\n%s' % ex.where], None, stats
        raise C.Infra('C15 active case failed in the harness (%s):\n%s' % (family, how[2]))
    obs = how[1]
    bad = active_statement_failures(case, obs)
    ref = watched(lambda progress: ActiveRun(family, case, False, progress).run(), limits)
    if ref[0] == 'ok':
        for key in ACT_KEYS:
            if jl(obs[key]) != jl(ref[1][key]):
                bad.append('%s: with the application code running inside the listener %r; with the same calls made '
                           'right after the listener finished the message %r' % (key, obs[key], ref[1][key]))
    elif ref[0] == 'hang':
        stats['blocked'] += 1
        bad.insert(0, 'the reference run (application calls made from outside the listener) is blocked at: %s\n%s'
                   % (ref[1][0], ref[2]))
    elif isinstance(ref[1], Blocked):
        bad.append('the reference run: the listener did not finish processing message %d (%s)\n%s'
                   % (ref[1].k, ref[1].msg, ref[1].where))
    else:
        raise C.Infra('C15 active case (reference run) failed in the harness (%s):\n%s' % (family, ref[2]))
    for a in obs['app']:
        if a[0] == 'act':
            stats['application_calls_made_inside_the_listener_or_below_it.' + a[3]] += 1
        else:
            stats['application_code_run.' + ('callback' if a[0] == 'cb' else 'disconnect_handler')] += 1
    stats['channel_entries_processed_one_by_one'] += len(obs['steps'])
    return bad, obs, stats


def active_part(ctx):
    rng = ctx.rng
    n = ctx.scale(220, 2000)
    cov = collections.Counter()
    failures = 0
    sample = None
    for _ in range(n):
        case = gen_active(rng)
        if sample is None and len(case['stream']) <= 5:
            sample = case
        stop = False
        for family in ('threading', 'asyncio'):
            bad, obs, stats = judge_active(ctx, family, case)
            cov['runs.' + family] += 1
            for k, v in stats.items():
                if k != 'blocked':
                    cov[k + '.' + family] += v
            if obs is not None and any(a[0] in ('cb', 'disc') for a in obs['app']):
                cov['runs_in_which_application_code_ran.' + family] += 1
            if bad:
                failures += 1
                ctx.violation('oracle', 'application code active inside the listener (%s): %s' % (family, bad[0]),
                              dict(case, family=family, failures=bad[:6], observed=jl(obs) if obs else None))
                if obs is None or stats.get('blocked'):
                    stop = True            # a blocked listener costs the watchdog's full limit each time
        for key, sc in case['scripts'].items():
            ctx.count('active.script.' + key.split(':')[0].rstrip('0123456789'))
            if sc['raise']:
                ctx.count('active.script.raises_at_the_end')
        if stop or failures >= 3:
            break
    ctx.coverage['application_code_active_in_the_listener'] = dict(
        cov, sample=sample,
        rule='one run = a case (clients on two hosts, rooms, emits with callbacks from hA to clients of hB; hB then '
             'publishes acknowledgements, disconnect requests for clients of hA, emits and room changes) whose '
             'application callbacks and disconnect handlers on hA call the server\'s own API (emit with and without '
             'callback, enter/leave/close_room, disconnect of another local or a remote client, rooms, save_session; '
             'some raise afterwards); hA\'s real _thread() processes the channel one entry at a time, on a worker '
             'thread under a watchdog (threaded) / until the event loop is idle (asyncio); judged by: every entry is '
             'processed and the listener returns, the last emit of the stream reaches every connected client, every '
             'callback / disconnect handler runs once, each API call made from that code returns normally, is '
             'published once and reaches the client that nothing disconnects; and everything observable equals a '
             'second run in which the same calls are made from outside the listener right after the entry')


# ---------------------------------------------------------------- Redis retry loops (thorough tier)

class StopScript(BaseException):
    pass


def install_fake_redis(plan, sleeps):
    """A `redis` / `redis.asyncio` package whose connections behave per `plan` (list of passes of the
    retry loop).  Faithful where it matters: subscription state belongs to the PubSub OBJECT (a new
    connection's PubSub is unsubscribed until `subscribe()` has really run), in the asyncio flavour
    `subscribe()` is a coroutine function (calling it without `await` subscribes nothing), and
    `listen()` on an unsubscribed PubSub ends at once without yielding (redis-py: `while
    self.subscribed`).  A pass of the plan is consumed only by what really happens."""
    class RedisError(Exception):
        pass
    state = {'i': 0, 'yielded': 0, 'reconnects': 0, 'publishes': [], 'idle': 0, 'made': 0}

    def cur():
        if state['i'] >= len(plan):
            raise StopScript()
        return plan[state['i']]

    class PubSub:
        def __init__(self):
            self.subscribed = False
            self.initial = state['made'] == 0       # the one created by the constructor
            state['made'] += 1

        def _subscribe(self, channel):
            if self.initial and not self.subscribed:
                self.subscribed = True               # `_listen()` subscribes the first connection
                return
            p = cur()
            if p == 'connectFails':
                state['i'] += 1
                raise RedisError('subscribe')
            self.subscribed = True
            state['reconnects'] += 1

        def subscribe(self, channel):
            return self._subscribe(channel)

        def unsubscribe(self, channel):
            self.subscribed = False

        def _listen(self):
            if not self.subscribed:
                # nothing to listen to: the generator ends; the script is not consumed
                state['idle'] += 1
                if state['idle'] > 25:
                    raise StopScript()
                return
            p = cur()
            if p == 'connectFails':
                # the plan expects a reconnection attempt here, the code listens on a live PubSub:
                # nothing arrives on it any more
                state['idle'] += 1
                if state['idle'] > 25:
                    raise StopScript()
                return
            state['idle'] = 0
            kind, n = ('listenFails', p['listenFails']) if 'listenFails' in p else ('listenEnds', p['listenEnds'])
            state['i'] += 1
            for k in range(n):
                state['yielded'] += 1
                yield {'channel': b'socketio', 'type': 'message', 'data': pickle.dumps({'n': k})}
            if kind == 'listenFails':
                self.subscribed = False
                raise RedisError('listen')

        def listen(self):
            return self._listen()

    class APubSub(PubSub):
        async def subscribe(self, channel):
            return self._subscribe(channel)

        async def unsubscribe(self, channel):
            self.subscribed = False

        async def listen(self):
            for m in self._listen():
                yield m

    class Redis:
        apub = False

        @classmethod
        def from_url(cls, url, **kw):
            return cls()

        def pubsub(self, ignore_subscribe_messages=True):
            return APubSub() if self.apub else PubSub()

        def publish(self, channel, data):
            state['publishes'].append(channel)

    class ARedis(Redis):
        apub = True

        async def publish(self, channel, data):
            state['publishes'].append(channel)

    redis = types.ModuleType('redis')
    exc = types.ModuleType('redis.exceptions')
    exc.RedisError = RedisError
    aio = types.ModuleType('redis.asyncio')
    aio.Redis = ARedis
    redis.exceptions = exc
    redis.asyncio = aio
    redis.Redis = Redis
    sys.modules['redis'] = redis
    sys.modules['redis.exceptions'] = exc
    sys.modules['redis.asyncio'] = aio
    return state


def uninstall_fake_redis():
    for k in ('redis', 'redis.exceptions', 'redis.asyncio'):
        sys.modules.pop(k, None)


def run_redis(plan, is_async):
    import asyncio
    import warnings
    sleeps = []
    handed = [0]            # messages that `_listen()` handed to the listener loop
    state = install_fake_redis(plan, sleeps)
    warnings.simplefilter('ignore', RuntimeWarning)       # "coroutine ... was never awaited"
    try:
        if is_async:
            mod = importlib.reload(importlib.import_module('socketio.async_redis_manager'))

            class _Aio:
                def __getattr__(self, name):
                    return getattr(asyncio, name)

                async def sleep(self, t):
                    sleeps.append(t)
            mod.asyncio = _Aio()
            m = mod.AsyncRedisManager('redis://')

            async def drive():
                try:
                    async for _ in m._listen():
                        handed[0] += 1
                except StopScript:
                    pass
            loop = asyncio.new_event_loop()
            try:
                loop.run_until_complete(drive())
            finally:
                loop.close()
        else:
            mod = importlib.reload(importlib.import_module('socketio.redis_manager'))

            class _Time:
                def sleep(self, t):
                    sleeps.append(t)
            mod.time = _Time()
            m = mod.RedisManager('redis://')
            try:
                for _ in m._listen():
                    handed[0] += 1
            except StopScript:
                pass
        return {'sleeps': sleeps, 'yielded': handed[0], 'reconnects': state['reconnects']}
    finally:
        uninstall_fake_redis()
        for name in ('socketio.redis_manager', 'socketio.async_redis_manager'):
            try:
                importlib.reload(importlib.import_module(name))
            except Exception:   # noqa
                pass


def gen_plan(rng):
    plan = [rng.choice([{'listenFails': rng.randint(0, 3)}, {'listenEnds': rng.randint(0, 2)}])]
    connect = 'listenFails' in plan[0]
    for _ in range(rng.randint(1, 14)):
        if connect and rng.random() < 0.6:
            plan.append('connectFails')
        else:
            p = rng.choice([{'listenFails': rng.randint(0, 3)}, {'listenFails': 0}, {'listenEnds': rng.randint(0, 2)}])
            plan.append(p)
            if 'listenFails' in p:
                connect = True
    return plan


def redis_part(ctx, drv):
    rng = ctx.rng
    n = ctx.scale(40, 400)
    plans = [[{'listenFails': 2}] + ['connectFails'] * 9 + [{'listenFails': 1}, 'connectFails']]
    plans += [gen_plan(rng) for _ in range(n)]
    for plan in plans:
        want = drv.ask({'op': 'retry', 'passes': plan})
        want = {'sleeps': [int(x) for x in want['sleeps']], 'yielded': int(want['yielded']),
                'reconnects': int(want['reconnects'])}
        for is_async in (False, True):
            got = run_redis(plan, is_async)
            ctx.count('redis.plans')
            # oracle: capped doubling, reset by a successful reconnect, nothing dropped
            exp, cur = [], 1
            yielded = 0
            connect = False
            for p in plan:
                if p == 'connectFails':
                    exp.append(cur)
                    cur = min(cur * 2, 60)
                else:
                    if connect:
                        cur = 1
                    n_msgs = p.get('listenFails', p.get('listenEnds'))
                    yielded += n_msgs
                    if 'listenFails' in p:
                        exp.append(cur)
                        cur = min(cur * 2, 60)
                        connect = True
            if got['yielded'] != yielded:
                ctx.violation('oracle', 'redis backend (%s): %d message(s) were published over connections that '
                              'were (re-)established, %d reached the listener: what follows a connection failure '
                              'is not processed' % ('asyncio' if is_async else 'threading', yielded, got['yielded']),
                              {'plan': plan, 'async': is_async, 'observed': got})
                return
            if got['sleeps'] != exp:
                ctx.violation('oracle', 'redis retry loop (%s): sleeps %r (required %r)' % (
                    'asyncio' if is_async else 'threading', got['sleeps'], exp),
                    {'plan': plan, 'async': is_async, 'observed': got})
                return
            if got != want:
                ctx.violation('correspondence', 'redis retry loop: implementation %r, model %r' % (got, want),
                              {'plan': plan, 'async': is_async}, no_input=True)
                return


# ---------------------------------------------------------------- Redis listeners end to end (both tiers)
#
# The REAL `RedisManager` / `AsyncRedisManager` (their `_listen`, `_redis_listen_with_retries`, `_redis_connect`)
# under the REAL `_thread()` of their base class, attached to a real server with local clients, against a
# scripted Redis: a broker whose subscription state lives on each PubSub OBJECT (subscribe / unsubscribe
# really decide what `listen()` yields), connections that drop and refuse, and the channel traffic of a
# script — valid messages of another server, garbage of every containment level (undecodable, inert values,
# dicts failing inside the per-message `try`, values failing OUTSIDE it so that `_thread` abandons its
# `_listen()` iterator and calls `_listen()` again), traffic that `_listen` has to filter out.
# Time is scripted: the broker hands out the next entry of the script only when the listener is waiting for
# traffic and nothing else is runnable — threaded flavour: inside `listen()`; asyncio flavour: `listen()`
# awaits a harness-owned future, the harness runs the loop until nothing is ready (this is when CPython's
# asyncgen finalizer hook gets to `aclose()` an abandoned async generator: production keeps running, nothing
# calls `shutdown_asyncgens()`), collects garbage, runs the loop again, and only then lets the next entry
# arrive.  Oracle (the statement of C15, no model): every valid message of the script has its full effect on
# the local clients, in order, nothing else has any, and the listener is still listening at the end.

E2E_NS = '/'
E2E_CHANNEL = 'socketio'
_BROKER = [None]


class E2ERedisError(Exception):
    pass


class Broker:
    def __init__(self, script, is_async, net_suspends=False):
        self.script = script
        self.i = 0
        self.is_async = is_async
        self.net_suspends = net_suspends     # asyncio: subscribe/unsubscribe wait for the server's confirmation
        self.loop = None
        self.pubsubs = []
        self.waiters = []
        self.refuse = 0
        self.sleeps = []
        self.calls = 0                       # runaway guard: calls into the fake that consume no script
        self.stats = collections.Counter()
        self.wire = None                     # script entry -> what arrives on a subscribed connection

    def spin_guard(self):
        self.calls += 1
        if self.calls > 3000:
            raise StopScript('runaway: the manager keeps calling into redis without ever waiting for traffic')

    def advance(self):
        """the next entry of the script happens; -> False when the script is over"""
        if self.i >= len(self.script):
            return False
        ev = self.script[self.i]
        self.i += 1
        self.calls = 0
        live = [ps for ps in self.pubsubs if ps.subscribed]
        if ev['e'] == 'drop':
            self.refuse += ev.get('refuse', 0)
            for ps in live:
                ps.queue.append(E2ERedisError('connection lost'))
        else:
            msg = self.wire(ev)
            for ps in live:
                ps.queue.append(dict(msg))
            if not live:
                self.stats['entries_that_met_no_subscription'] += 1
        for fut in self.waiters:
            if not fut.done():
                fut.set_result(None)
        self.waiters = []
        return True

    def tick_sync(self):
        if not self.advance():
            raise StopScript('script over')

    async def tick(self):
        fut = self.loop.create_future()
        self.waiters.append(fut)
        await fut


class _E2EPubSub:
    def __init__(self, broker):
        self.b = broker
        self.subscribed = False
        self.queue = []
        self.listens = 0
        broker.pubsubs.append(self)
        broker.stats['connections'] += 1

    def _sub(self, channel):
        b = self.b
        b.spin_guard()
        if b.refuse > 0:
            b.refuse -= 1
            b.stats['subscribe_refused'] += 1
            raise E2ERedisError('subscribe refused')
        if channel == E2E_CHANNEL:
            self.subscribed = True
        b.stats['subscribe'] += 1

    def _unsub(self, channel):
        self.b.spin_guard()
        if channel in (None, E2E_CHANNEL):
            self.subscribed = False
        self.b.stats['unsubscribe'] += 1

    def _pop(self):
        item = self.queue.pop(0)
        if isinstance(item, Exception):
            self.subscribed = False
            self.queue = []
            raise item
        return item

    def subscribe(self, channel):
        self._sub(channel)

    def unsubscribe(self, channel=None):
        self._unsub(channel)

    def listen(self):
        # redis-py: `while self.subscribed: ...` — ends at once on a PubSub that is not subscribed; here one
        # entry of the script passes first (it is lost for this PubSub), so that a deaf listener cannot spin
        self.b.spin_guard()
        if not self.subscribed:
            self.b.tick_sync()
            return
        while self.subscribed:
            if self.queue:
                yield self._pop()
            else:
                self.b.tick_sync()


class _E2EAPubSub(_E2EPubSub):
    async def _net(self):
        if self.b.net_suspends:
            import asyncio
            await asyncio.sleep(0)

    async def subscribe(self, channel):
        self._sub(channel)          # the command is on the wire in call order; then the confirmation is awaited
        await self._net()

    async def unsubscribe(self, channel=None):
        self._unsub(channel)
        await self._net()

    async def listen(self):
        b = self.b
        b.spin_guard()
        b.stats['listen_calls'] += 1
        mine = b.stats['listen_calls']
        try:
            if not self.subscribed:
                await b.tick()
                return
            while self.subscribed:
                if self.queue:
                    yield self._pop()
                else:
                    await b.tick()
        except GeneratorExit:
            if b.stats['listen_calls'] > mine:
                b.stats['listen_generators_finalised_after_a_newer_one_started'] += 1
            raise


def install_e2e_redis():
    class Redis:
        ps_class = _E2EPubSub

        @classmethod
        def from_url(cls, url, **kw):
            _BROKER[0].spin_guard()
            return cls()

        def pubsub(self, ignore_subscribe_messages=True):
            return self.ps_class(_BROKER[0])

        def _publish(self, channel, data):
            b = _BROKER[0]
            b.stats['published_by_the_manager'] += 1
            n = 0
            for ps in b.pubsubs:
                if ps.subscribed and channel == E2E_CHANNEL:        # Redis echoes to the publisher's subscription
                    ps.queue.append({'type': 'message', 'pattern': None, 'channel': channel.encode(), 'data': data})
                    n += 1
            return n

        def publish(self, channel, data):
            return self._publish(channel, data)

    class ARedis(Redis):
        ps_class = _E2EAPubSub

        async def publish(self, channel, data):
            return self._publish(channel, data)

    redis = types.ModuleType('redis')
    exc = types.ModuleType('redis.exceptions')
    exc.RedisError = E2ERedisError
    aio = types.ModuleType('redis.asyncio')
    aio.Redis = ARedis
    redis.exceptions = exc
    redis.asyncio = aio
    redis.Redis = Redis
    sys.modules['redis'] = redis
    sys.modules['redis.exceptions'] = exc
    sys.modules['redis.asyncio'] = aio
    mods = {}
    for is_async, name in ((False, 'socketio.redis_manager'), (True, 'socketio.async_redis_manager')):
        mods[is_async] = importlib.reload(importlib.import_module(name))
    return mods


def uninstall_e2e_redis():
    uninstall_fake_redis()
    for name in ('socketio.redis_manager', 'socketio.async_redis_manager'):
        try:
            importlib.reload(importlib.import_module(name))
        except Exception:   # noqa
            pass


E2E_OUTER = [  # decoded value is truthy and `'method' in data` / `data['method']` raises: OUTSIDE the per-message try
    {'t': 'pickle', 'v': 5}, {'t': 'pickle', 'v': 42}, {'t': 'pickle', 'v': 3.5}, {'t': 'pickle', 'v': True},
    {'t': 'json', 'v': True}, {'t': 'json', 'v': 7}, {'t': 'pickle', 'v': 'method'},
    {'t': 'pickle', 'v': 'this is not a method'}, {'t': 'json', 'v': 'xmethody'}, {'t': 'pickle', 'v': ['method', 1]},
    {'t': 'json', 'v': ['method']}, {'t': 'pickle', 'v': {'$tuple': ['method']}},
    {'t': 'pickle', 'v': {'$tuple': ['method', 'emit']}}, {'t': 'pickle', 'v': {'$tuple': ['x', 'method', 3]}}]
E2E_INERT = [  # undecodable, falsy, or a container without 'method'
    {'t': 'bytes', 'hex': 'ff00fe'}, {'t': 'bytes', 'hex': '80'}, {'t': 'pickle', 'v': 0}, {'t': 'pickle', 'v': None},
    {'t': 'pickle', 'v': []}, {'t': 'pickle', 'v': {}}, {'t': 'pickle', 'v': {'a': 1}}, {'t': 'pickle', 'v': 'plain'},
    {'t': 'json', 'v': [1, 2]}, {'t': 'json', 'v': None}, {'t': 'evil', 'exc': 'SystemExit'},
    {'t': 'evil', 'exc': 'CancelledError'}] + [
    # the message's 'data' is not bytes at all (the broker client hands on whatever it decoded): None and other
    # falsy values of the wrong type
    {'t': 'value', 'v': v} for v in [None, None, 0, '', {'$bytes': ''}, [], {}, False]]
E2E_INNER = [  # dicts with a 'method' that fail (or do nothing) inside the per-message try
    {'t': 'pickle', 'v': {'method': 'nope', 'host_id': 'hX'}},
    {'t': 'pickle', 'v': {'method': 'emit', 'host_id': 'hX'}},
    {'t': 'pickle', 'v': {'method': 'emit', 'event': 'ghost', 'data': {'$tuple': [1]}, 'namespace': 7, 'room': [[]],
                          'host_id': 'hX'}},
    {'t': 'json', 'v': {'method': 'enter_room', 'host_id': 'hX'}},
    {'t': 'pickle', 'v': {'method': 'callback', 'host_id': 'hX', 'sid': 'nobody', 'namespace': '/', 'id': 1,
                          'args': []}},
    {'t': 'pickle', 'v': {'method': 'emit', 'event': 'ghost', 'data': 'echo', 'namespace': '/', 'room': None,
                          'skip_sid': None, 'callback': None, 'host_id': {'$self': 1}}}]


def gen_e2e_case(rng, force=None):
    """force: None | 'outer' | 'drop' — the kind of fault the case certainly contains, followed by valid traffic"""
    n_c = rng.choice([1, 2, 2, 3])
    clients = ['c%d' % i for i in range(n_c)]
    rooms = {c: rng.choice([None, 'r1', 'r2']) for c in clients}
    script = []
    idx = [0]
    alive = list(clients)

    def valid():
        idx[0] += 1
        x = rng.random()
        how = rng.choice(['pickle', 'pickle', 'pickle', 'json'])
        if x < 0.62 or not alive:
            room = rng.choice([None, None, {'r': 'r1'}, {'r': 'r2'}, {'s': rng.choice(clients)}])
            return {'e': 'emit', 'ev': 'v%d' % idx[0], 'data': rng.choice([None, 5, 'x']), 'room': room,
                    'skip': rng.choice([None, None, rng.choice(clients)]), 'how': how}
        if x < 0.80:
            return {'e': rng.choice(['enter', 'enter', 'leave']), 'sid': rng.choice(clients),
                    'room': rng.choice(['r1', 'r2']), 'how': how}
        if x < 0.88:
            return {'e': 'close', 'room': rng.choice(['r1', 'r2']), 'how': how}
        if len(alive) > 1:
            c = rng.choice(alive)
            alive.remove(c)
            return {'e': 'disconnect', 'sid': c, 'how': how}
        return {'e': 'emit', 'ev': 'v%d' % idx[0], 'data': 'x', 'room': None, 'skip': None, 'how': how}

    def fault(kind=None):
        x = rng.random()
        if kind == 'outer' or (kind is None and x < 0.30):
            return {'e': 'raw', 'class': 'outer', 'g': rng.choice(E2E_OUTER)}
        if kind == 'drop' or (kind is None and x < 0.50):
            return {'e': 'drop', 'refuse': rng.choice([0, 0, 1, 2, 3, 7])}
        if x < 0.65:
            return {'e': 'raw', 'class': 'inert', 'g': rng.choice(E2E_INERT)}
        if x < 0.82:
            return {'e': 'raw', 'class': 'inner', 'g': rng.choice(E2E_INNER)}
        # traffic `_listen` must not hand on: another channel, not a 'message', no 'data'
        return {'e': 'other', 'why': rng.choice(['channel', 'type', 'nodata'])}

    if rng.random() < 0.15:
        script.append({'e': 'drop', 'refuse': rng.choice([0, 1])} if rng.random() < 0.5 else fault('outer'))
    for _ in range(rng.randint(1, 3)):
        script.append(valid())
    if force:
        script.append(fault(force))
        if rng.random() < 0.4:
            script.append(fault(rng.choice(['outer', 'drop'])))      # recovery upon recovery
        script.append(valid())
    for _ in range(rng.randint(2, 10)):
        script.append(valid() if rng.random() < 0.5 else fault())
    for _ in range(rng.randint(1, 2)):
        script.append(valid())
    return {'clients': clients, 'rooms': rooms, 'script': script, 'net_suspends': rng.random() < 0.5}


def e2e_expected(case):
    """the statement: what every client must have been sent, in order, if every valid message has its effect"""
    member = {r: set() for r in ('r1', 'r2')}
    for c, r in case['rooms'].items():
        if r:
            member[r].add(c)
    alive = list(case['clients'])
    out = {c: [] for c in case['clients']}
    for ev in case['script']:
        k = ev['e']
        if k == 'emit':
            room = ev['room']
            if room is None:
                to = list(alive)
            elif 'r' in room:
                to = [c for c in alive if c in member[room['r']]]
            else:
                to = [c for c in alive if c == room['s']]
            frame = '2' + json.dumps([ev['ev']] + ([] if ev['data'] is None else [ev['data']]), separators=(',', ':'))
            for c in to:
                if c != ev['skip']:
                    out[c].append(frame)
        elif k == 'enter':
            if ev['sid'] in alive:
                member[ev['room']].add(ev['sid'])
        elif k == 'leave':
            member[ev['room']].discard(ev['sid'])
        elif k == 'close':
            member[ev['room']] = set()
        elif k == 'disconnect':
            if ev['sid'] in alive:
                alive.remove(ev['sid'])
                out[ev['sid']].append('1')
                for m in member.values():
                    m.discard(ev['sid'])
    return out


def run_e2e(mods, case, is_async):
    """-> observation: frames per client, how the listener ended, what the fake saw"""
    import asyncio
    import gc
    import warnings
    warnings.simplefilter('ignore', RuntimeWarning)
    family = 'asyncio' if is_async else 'threading'
    b = Broker(case['script'], is_async, bool(case.get('net_suspends')))
    _BROKER[0] = b
    mod = mods[is_async]
    log = []
    if is_async:
        class _Aio:
            def __getattr__(self, name):
                return getattr(asyncio, name)

            async def sleep(self, t):
                b.spin_guard()
                b.sleeps.append(t)
        mod.asyncio = _Aio()
        m = mod.AsyncRedisManager('redis://', channel=E2E_CHANNEL)
    else:
        class _Time:
            def sleep(self, t):
                b.spin_guard()
                b.sleeps.append(t)
        mod.time = _Time()
        m = mod.RedisManager('redis://', channel=E2E_CHANNEL)
    w = W.ServerWorld(family, manager=m, namespaces=[E2E_NS], logger=WP._Log(log, 'h'))
    try:
        b.loop = w.loop
        m.initialize()
        w.sio.manager_initialized = True
        w.background.clear()
        sids = {}
        for i, c in enumerate(case['clients']):
            w.open('t%d' % i)
            w.recv('t%d' % i, '0')
            fr = [f for f in w.sent('t%d' % i) if isinstance(f, str) and f.startswith('0')]
            sids[c] = json.loads(fr[0][1:])['sid']
            if case['rooms'].get(c):
                w.api('enter_room', sids[c], case['rooms'][c])

        class _N:
            def sid(self, name):
                return sids.get(name, name)
        names = _N()

        def payload(d, how):
            return pickle.dumps(d) if how == 'pickle' else json.dumps(d).encode()

        def wire(ev):
            k = ev['e']
            msg = {'type': 'message', 'pattern': None, 'channel': E2E_CHANNEL.encode()}
            if k == 'raw':
                g = ev['g']
                if g['t'] in ('pickle', 'json') and isinstance(g['v'], dict) and g['v'].get('host_id') == {'$self': 1}:
                    msg['data'] = payload(dict(g['v'], host_id=m.host_id), g['t'])
                else:
                    raw = build_raw(g, names)
                    msg['data'] = raw
                return msg
            if k == 'other':
                ghost = pickle.dumps({'method': 'emit', 'event': 'ghost', 'data': ev['why'], 'namespace': E2E_NS,
                                      'room': None, 'skip_sid': None, 'callback': None, 'host_id': 'hX'})
                if ev['why'] == 'channel':
                    msg.update(channel=b'another-channel', data=ghost)
                elif ev['why'] == 'type':
                    msg.update(type='subscribe', data=ghost)
                return msg
            if k == 'emit':
                room = ev['room']
                d = {'method': 'emit', 'event': ev['ev'], 'data': ev['data'], 'namespace': E2E_NS,
                     'room': None if room is None else room['r'] if 'r' in room else sids[room['s']],
                     'skip_sid': None if ev['skip'] is None else sids[ev['skip']], 'callback': None, 'host_id': 'hX'}
            elif k in ('enter', 'leave'):
                d = {'method': k + '_room', 'sid': sids[ev['sid']], 'room': ev['room'], 'namespace': E2E_NS,
                     'host_id': 'hX'}
            elif k == 'close':
                d = {'method': 'close_room', 'room': ev['room'], 'namespace': E2E_NS, 'host_id': 'hX'}
            else:
                d = {'method': 'disconnect', 'sid': sids[ev['sid']], 'namespace': E2E_NS, 'host_id': 'hX'}
            msg['data'] = payload(d, ev['how'])
            return msg
        b.wire = wire

        if is_async:
            loop = w.loop

            def pump():
                n = 0
                while loop._ready:
                    loop.call_soon(loop.stop)
                    loop.run_forever()
                    n += 1
                    if n > 2000:
                        raise C.Infra('C15 redis e2e: the event loop does not quiesce')
            task = loop.create_task(m._thread())
            ended = None
            seen = None
            while True:
                pump()
                if seen != (len(log), len(b.sleeps), len(b.pubsubs)):
                    # something was contained or retried since the last look: an iterator may have been
                    # abandoned; if it sits in a reference cycle it is finalised now at the latest
                    seen = (len(log), len(b.sleeps), len(b.pubsubs))
                    gc.collect(1)       # (the young generations: the cost must not grow with the heap of the run)
                    pump()
                if task.done():
                    break
                if not b.waiters:
                    ended = 'stuck: the loop is idle and the listener is not waiting for traffic'
                    break
                if not b.advance():
                    ended = 'alive'
                    break
            if task.done():
                ex = None if task.cancelled() else task.exception()
                ended = 'returned' if ex is None and not task.cancelled() else \
                    'alive' if isinstance(ex, StopScript) and 'script over' in str(ex) else \
                    'ended with %s' % (type(ex).__name__ if ex is not None else 'CancelledError')
                if isinstance(ex, StopScript) and 'runaway' in str(ex):
                    ended = str(ex)
            else:
                task.cancel()
                pump()
            loop.run_until_complete(loop.shutdown_asyncgens())      # tidying up after the verdict
        else:
            try:
                m._thread()
                ended = 'returned'
            except StopScript as ex:
                ended = 'alive' if 'script over' in str(ex) else str(ex)
            except BaseException as ex:   # noqa
                ended = 'ended with %s' % type(ex).__name__
        frames = {}
        for i, c in enumerate(case['clients']):
            frames[c] = [f if isinstance(f, str) else repr(f) for f in w.sent('t%d' % i)]
        restarts = sum(1 for _h, lvl, msg, _e in log if lvl == 'exception' and 'Unexpected Error' in msg)
        handler_errors = sum(1 for _h, lvl, msg, _e in log if lvl == 'exception' and 'Handler error' in msg)
        return {'frames': frames, 'ended': ended, 'sleeps': list(b.sleeps), 'consumed': b.i,
                'outer_recoveries': restarts, 'handler_errors': handler_errors, 'stats': dict(b.stats)}
    finally:
        _BROKER[0] = None
        w.close()


def judge_e2e(case, obs):
    """-> list of failures of the statement"""
    bad = []
    want = e2e_expected(case)
    if obs['ended'] != 'alive':
        bad.append('the listener is not listening any more at the end of the script: %s' % obs['ended'])
    for c in case['clients']:
        got = obs['frames'].get(c, [])
        if got != want[c]:
            k = next((j for j, (x, y) in enumerate(zip(got, want[c])) if x != y), min(len(got), len(want[c])))
            # which script entry is the first whose effect is missing / wrong
            bad.append('client %s was sent %d packet(s), the valid messages of the script require %d; first '
                       'difference at packet %d: got %r, required %r' % (
                           c, len(got), len(want[c]), k, got[k] if k < len(got) else None,
                           want[c][k] if k < len(want[c]) else None))
    if any(s not in (1, 2, 4, 8, 16, 32, 60) for s in obs['sleeps']):
        bad.append('retry sleeps %r are not of the form 1, 2, 4, ... capped at 60' % (obs['sleeps'],))
    return bad


E2E_FIXED = [
    # the demonstrations every run contains: an outer-recovery value, then traffic; a lost connection with refused
    # reconnections, then traffic; both; recovery as the very first thing on the channel
    {'clients': ['c0'], 'rooms': {'c0': None}, 'net_suspends': False, 'script': [
        {'e': 'emit', 'ev': 'v1', 'data': 'x', 'room': None, 'skip': None, 'how': 'pickle'},
        {'e': 'raw', 'class': 'outer', 'g': {'t': 'pickle', 'v': 5}},
        {'e': 'emit', 'ev': 'v2', 'data': 'x', 'room': None, 'skip': None, 'how': 'pickle'},
        {'e': 'raw', 'class': 'outer', 'g': {'t': 'pickle', 'v': 'this is not a method'}},
        {'e': 'emit', 'ev': 'v3', 'data': 5, 'room': None, 'skip': None, 'how': 'json'}]},
    {'clients': ['c0', 'c1'], 'rooms': {'c0': 'r1', 'c1': None}, 'net_suspends': True, 'script': [
        {'e': 'emit', 'ev': 'v1', 'data': None, 'room': {'r': 'r1'}, 'skip': None, 'how': 'pickle'},
        {'e': 'drop', 'refuse': 3},
        {'e': 'enter', 'sid': 'c1', 'room': 'r1', 'how': 'pickle'},
        {'e': 'raw', 'class': 'outer', 'g': {'t': 'json', 'v': True}},
        {'e': 'emit', 'ev': 'v2', 'data': 'x', 'room': {'r': 'r1'}, 'skip': 'c0', 'how': 'pickle'},
        {'e': 'drop', 'refuse': 0},
        {'e': 'other', 'why': 'channel'},
        {'e': 'disconnect', 'sid': 'c0', 'how': 'json'},
        {'e': 'emit', 'ev': 'v3', 'data': 5, 'room': None, 'skip': None, 'how': 'pickle'}]},
    {'clients': ['c0'], 'rooms': {'c0': None}, 'net_suspends': True, 'script': [
        {'e': 'raw', 'class': 'outer', 'g': {'t': 'pickle', 'v': ['method', 1]}},
        {'e': 'raw', 'class': 'outer', 'g': {'t': 'pickle', 'v': True}},
        {'e': 'emit', 'ev': 'v1', 'data': 'x', 'room': None, 'skip': None, 'how': 'pickle'}]},
    # messages whose 'data' is None / a falsy value of the wrong type, each followed by traffic
    {'clients': ['c0', 'c1'], 'rooms': {'c0': 'r1', 'c1': None}, 'net_suspends': False, 'script': [
        {'e': 'emit', 'ev': 'v1', 'data': 'x', 'room': None, 'skip': None, 'how': 'pickle'},
        {'e': 'raw', 'class': 'inert', 'g': {'t': 'value', 'v': None}},
        {'e': 'emit', 'ev': 'v2', 'data': 'x', 'room': {'r': 'r1'}, 'skip': None, 'how': 'pickle'},
        {'e': 'raw', 'class': 'inert', 'g': {'t': 'value', 'v': 0}},
        {'e': 'raw', 'class': 'inert', 'g': {'t': 'value', 'v': ''}},
        {'e': 'enter', 'sid': 'c1', 'room': 'r1', 'how': 'json'},
        {'e': 'raw', 'class': 'inert', 'g': {'t': 'value', 'v': {'$bytes': ''}}},
        {'e': 'raw', 'class': 'inert', 'g': {'t': 'value', 'v': []}},
        {'e': 'raw', 'class': 'inert', 'g': {'t': 'value', 'v': {}}},
        {'e': 'raw', 'class': 'inert', 'g': {'t': 'value', 'v': False}},
        {'e': 'emit', 'ev': 'v3', 'data': 5, 'room': {'r': 'r1'}, 'skip': None, 'how': 'pickle'}]},
]


def redis_e2e_part(ctx):
    rng = ctx.rng
    n = ctx.scale(297, 6000)
    cases = [copy.deepcopy(c) for c in E2E_FIXED]
    for i in range(n):
        cases.append(gen_e2e_case(rng, force=[None, 'outer', 'drop'][i % 3]))
    mods = install_e2e_redis()
    failures = 0
    cov = collections.Counter()
    try:
        for case in cases:
            for is_async in (False, True):
                fam = 'asyncio' if is_async else 'threading'
                obs = run_e2e(mods, case, is_async)
                ctx.count('redis_e2e.cases.' + fam)
                cov['listener_runs'] += 1
                cov['script_entries'] += len(case['script'])
                cov['outer_recoveries(_listen() abandoned and called again).' + fam] += obs['outer_recoveries']
                cov['reconnections.' + fam] += len(obs['sleeps'])
                for k in ('subscribe_refused', 'listen_generators_finalised_after_a_newer_one_started',
                          'entries_that_met_no_subscription', 'published_by_the_manager'):
                    if obs['stats'].get(k):
                        cov[k + '.' + fam] += obs['stats'][k]
                seen_fault = False
                for ev in case['script']:
                    if ev['e'] in ('raw', 'drop', 'other'):
                        ctx.count('redis_e2e.entry.' + (ev['e'] if ev['e'] != 'raw' else 'garbage.' + ev['class']))
                        if ev['e'] == 'raw' and ev['g']['t'] == 'value':
                            ctx.count('redis_e2e.entry.garbage.value_entry.' + value_label(ev['g']['v']))
                        seen_fault = seen_fault or ev['e'] == 'drop' or ev.get('class') == 'outer'
                    else:
                        ctx.count('redis_e2e.entry.valid.' + ev['e'])
                        if seen_fault:
                            cov['valid_messages_after_a_recovery_or_reconnection'] += 1
                bad = judge_e2e(case, obs)
                if bad:
                    failures += 1
                    ctx.violation('oracle', 'redis backend end to end (%s): %s' % (fam, bad[0]),
                                  {'redis_case': case, 'async': is_async, 'failures': bad[:6],
                                   'observed': {k: obs[k] for k in ('frames', 'ended', 'sleeps', 'consumed',
                                                                     'outer_recoveries', 'stats')},
                                   'required_frames': e2e_expected(case)})
            if failures >= 3:
                break
    finally:
        uninstall_e2e_redis()
    ctx.coverage['redis_end_to_end'] = dict(
        cov, rule='one listener run = the real RedisManager / AsyncRedisManager under the real _thread() on a real '
                  'server with 1-3 local clients, consuming a scripted channel (valid messages of another server, '
                  'garbage of each containment level, foreign traffic, dropped connections with refused '
                  'reconnections); judged by: every valid message has its full effect on the clients, in order, '
                  'nothing else has any, the listener is still listening')


# ---------------------------------------------------------------- entry points

def run(ctx):
    C.proof_step(ctx, [
        'which Python operation raises which exception class on which kind of value (the field classes of '
        '`Sio.PubSub.DMsg`): modelled, exercised by the correspondence',
        'pickle.loads / json.loads: their results are inputs of the model (computed by the harness itself)',
    ])
    if ctx.thorough:
        ok, out = C.leanchecker(['Sio.Props.C15'])
        ctx.notes.append('leanchecker Sio.Props.C15: %s' % ('ok' if ok else 'FAILED'))
        if not ok:
            ctx.violation('proof', 'leanchecker rejected Sio.Props.C15: ' + out, {'theorem_or_build': out},
                          no_input=True)
    rng = ctx.rng
    n_cases = ctx.scale(1200, 15000)
    deadline = ctx.t0 + ctx.scale(50, 480)
    drv = C.Driver('pubsub')
    evals = validated = failures = 0
    nontriv = set()
    samples = []
    try:
        cases = []
        for path in sorted(glob.glob(os.path.join(C.ROOT, 'corpus', 'C15', '*.json'))):
            r = json.load(open(path))
            r = r.get('replay', r)
            cases.append(({k: r[k] for k in ('setup', 'stream', 'faults')}, 'corpus'))
        for _ in range(n_cases):
            cases.append((gen_case(rng), 'generated'))
        for case, origin in cases:
            if time.time() > deadline or failures >= 3:
                ctx.notes.append('stopped after %d cases (time budget or 3 failing cases)' % evals)
                break
            evals += 1
            ctx.count('case.' + origin)
            for it in case['stream']:
                ctx.count('item.' + (it['k'] if it['k'] != 'op' else 'valid.' + it['op']['op']))
                if it['k'] == 'raw':
                    ctx.count('garbage.' + it['g']['t'])
                    if it['g']['t'] == 'value':
                        ctx.count('garbage.value_entry.' + value_label(it['g']['v']))
            for f in case['faults'].values():
                ctx.count('fault.' + f)
            good = True
            LAST_OBS.clear()
            for family in ('threading', 'asyncio'):
                ok, stats = judge(ctx, drv, family, case)
                validated += 1
                good = good and ok
                if family == 'threading':
                    for k, v in stats.items():
                        ctx.count(k, v)
            if 'threading' in LAST_OBS and 'asyncio' in LAST_OBS:
                pbad = parity_failures(LAST_OBS['threading'], LAST_OBS['asyncio'])
                if pbad:
                    good = False
                    ctx.violation('oracle', 'threaded vs asyncio listener: %s' % pbad[0],
                                  dict(case, failures=pbad[:6], threading=jl(LAST_OBS['threading']),
                                       asyncio=jl(LAST_OBS['asyncio'])))
            if not good:
                failures += 1
            n_g = sum(1 for it in case['stream'] if it['k'] != 'op')
            n_v_after = 0
            seen_g = False
            for it in case['stream']:
                if it['k'] != 'op':
                    seen_g = True
                elif seen_g:
                    n_v_after += 1
            if n_g >= 2 and n_v_after >= 2:
                nontriv.add(hashlib.sha1(json.dumps(case, sort_keys=True).encode()).hexdigest())
                if len(samples) < 2 and len(case['stream']) <= 8:
                    samples.append(case)
        active_part(ctx)
        redis_part(ctx, drv)
        redis_e2e_part(ctx)
    finally:
        drv.close()
    ctx.coverage.update({
        'evaluations': evals, 'distinct_nontrivial': len(nontriv),
        'rule': 'one evaluation = one case (set-up history, a stream of 4-22 items mixing valid messages of another '
                'host, own echoes and garbage, scripted faults) consumed by the real PubSubManager._thread() and by '
                'AsyncPubSubManager._thread(), by the Lean model, and a second time without the inert garbage. '
                'non-trivial = distinct case with >= 2 garbage items and >= 2 valid messages after the first of them',
        'samples': samples, 'traces_validated_against_impl': validated,
    })
    ctx.assumptions += [
        'application code active inside the listener: oracle only (no model); scripts name by sid only clients that '
        'nothing disconnects (what is done BY NAME to a client whose disconnect handler is running is not compared: it is '
        'half gone then) and what a client receives after its DISCONNECT packet is ignored; callbacks are coroutine '
        'functions on the asyncio server; the wall clock is used as a watchdog only (%.0f s, the case is started again '
        'and given %.0f s before a hang is believed)' % ACT_LIMITS,
        'garbage is drawn from the classes the model distinguishes (DMsg field classes); values outside them '
        '(falsy containers as namespaces, tuples as room names for room operations, unhashable ack ids, objects '
        'whose unpickling runs code) are not generated',
        'BaseExceptions that are not Exceptions, by containment level: (decode step) SystemExit via '
        '`__reduce__ -> sys.exit`, SystemExit, KeyboardInterrupt, GeneratorExit, asyncio.CancelledError raised by '
        'unpickling: caught by the bare `except:` -> the entry is undecodable -> skipped, the listener goes on '
        '(exercised for both managers); (application callback, asyncio) a coroutine callback ending in '
        'CancelledError: swallowed by AsyncManager.trigger_callback, the listener goes on; (handler level) a '
        'BaseException raised by an application callback (`Fatal`) is by design the exit: `_thread` ends, later '
        'entries stay unconsumed (compared with the model, `alive = false`)',
        'the Redis retry loops run against a fake `redis` package (the real one is not installed); more plans '
        'in the thorough tier',
        'redis end to end: the fake follows redis-py where it matters here — subscription state per PubSub object, '
        'SUBSCRIBE/UNSUBSCRIBE take effect in call order, `listen()` ends on an unsubscribed PubSub (after one entry '
        'of the script has passed it by), a dropped connection raises RedisError from `listen()`, PUBLISH is echoed '
        'to the publisher\'s own subscription; traffic arrives only when the listener waits for it and (asyncio) the '
        'loop is otherwise idle; messages published while the manager is between connections are not scripted',
    ]


def replay_active(ctx, r):
    case = {k: r[k] for k in ('active', 'setup', 'scripts', 'stream', 'sentinel', 'keepers', 'victims')}
    fams = [r['family']] if r.get('family') else ['threading', 'asyncio']
    rc = 0
    print('set-up:')
    for op in case['setup']:
        print('    %s' % json.dumps(op))
    print('application code on hA (what each callback / disconnect handler does when it is invoked):')
    for key, sc in sorted(case['scripts'].items()):
        print('    %s%s' % (key, '   [raises HandlerError afterwards]' if sc['raise'] else ''))
        for act in sc['acts']:
            print('        %s' % json.dumps(act))
    print('published by hB while hA is not listening; then hA\'s _thread() takes the channel entry by entry:')
    for i, op in enumerate(case['stream']):
        print('%3d %s' % (i, json.dumps(op)))
    for family in fams:
        print('--- %s' % family)
        bad, obs, _stats = judge_active(ctx, family, case)
        if obs is not None:
            print('messages processed (index from the start of the stream, how _thread() returned): %r' % (obs['steps'],))
            print('application code run: %r' % (obs['app'],))
            print('frames: %r' % (obs['frames'],))
            print('log: %r   unread: %r   connected: %r' % (obs['log'], obs['unread'], obs['connected']))
        print('oracle: %s' % ('FAILS:\n  ' + '\n  '.join(bad) if bad else 'holds'))
        if bad:
            rc = 1
    return rc


def replay(ctx, r):
    r = r.get('replay', r)
    if 'redis_case' in r:
        mods = install_e2e_redis()
        try:
            obs = run_e2e(mods, r['redis_case'], r.get('async', False))
        finally:
            uninstall_e2e_redis()
        case = r['redis_case']
        print('--- redis backend end to end (%s); clients %r, rooms %r, confirmations awaited: %r'
              % ('asyncio' if r.get('async') else 'threading', case['clients'], case['rooms'],
                 case.get('net_suspends')))
        for i, ev in enumerate(case['script']):
            print('%3d %s' % (i, json.dumps(ev)))
        print('impl    ', {k: obs[k] for k in ('frames', 'ended', 'sleeps', 'consumed', 'outer_recoveries', 'stats')})
        print('required', e2e_expected(case))
        bad = judge_e2e(case, obs)
        print('oracle: %s' % ('FAILS: ' + '; '.join(bad) if bad else 'holds'))
        return 1 if bad else 0
    if 'plan' in r:
        print(run_redis(r['plan'], r.get('async', False)))
        return 0
    if r.get('active'):
        return replay_active(ctx, r)
    case = {k: r[k] for k in ('setup', 'stream', 'faults')}
    fams = [r['family']] if r.get('family') else ['threading', 'asyncio']
    drv = C.Driver('pubsub')
    rc = 0
    try:
        for family in fams:
            real = RealRun(family, case)
            obs = real.run()
            model = run_model(drv, case, real)
            print('--- %s' % family)
            for i, it in enumerate(case['stream']):
                print('%3d %s %s' % (i, json.dumps(it), case['faults'].get(str(i), '')))
            print('impl ', {k: obs[k] for k in ('frames', 'app', 'log', 'ended', 'rooms', 'cbs', 'pub')})
            if model:
                print('model', {k: model[k] for k in ('frames', 'app', 'log', 'alive', 'rooms', 'pub')})
            flags = {i: inert_by_statement(case, i, it) for i, it in enumerate(case['stream'])}
            other = RealRun(family, case, drop_inert=True, inert_flags=flags).run()
            bad = compare_runs(obs, other)
            print('oracle: %s' % ('FAILS: ' + '; '.join(bad) if bad else 'holds'))
            if bad:
                rc = 1
    finally:
        drv.close()
    return rc
