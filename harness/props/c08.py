"""C08 — client state mirrors the server; disconnect reported once per namespace (K7)."""
from .. import common as C
from .. import client_cases as K

LEVEL = 'proof'

RULE = ('histories generated from the spec-side view of the connection (connect with 1-3 namespaces, auth value or '
        'callable, wait True/False; CONNECT / CONNECT_ERROR / DISCONNECT per namespace in any order, inside and after '
        'the connect call; emit/send/call on connected and unconnected namespaces; disconnect(); loss of the transport '
        'or engine.io CLOSE at any point incl. mid binary packet and with callbacks outstanding; reconnect), executed '
        'on Client and AsyncClient with function, catch-all and class-based handlers, compared op by op with the Lean '
        'model and judged by the clause oracles. non-trivial = distinct history (operation skeleton) in which >= 2 '
        'namespaces were connected at once, the connection ended and a later connect() succeeded again')


def nontrivial(case, orc):
    s = orc.stats
    ends = sum(v for k, v in s.items() if k.startswith('end.') and k.count('.') == 1)
    multi = any(op['op'] == 'connect' and len(op['nss']) >= 2 and op.get('window') in ('all', 'later')
                for op in case['ops'])
    ok_connects = s.get('connect.wait.ok', 0) + s.get('connect.nowait', 0)
    return multi and ends >= 1 and ok_connects >= 2


def run(ctx):
    C.proof_step(ctx, ['python-engineio client contract (DESIGN §4) as the environment of the client model',
                       'json.loads on server frames enters the model as a finite table from the real json.loads'])
    K.run_check(ctx, 'c08', ('C08',), RULE, nontrivial)
    if ctx.thorough:
        ok, out = C.leanchecker(['Sio.Props.C08'])
        ctx.notes.append('leanchecker Sio.Props.C08: %s' % ('ok' if ok else 'FAILED'))
        if not ok:
            ctx.violation('proof', 'leanchecker rejected Sio.Props.C08: ' + out, {'theorem_or_build': out},
                          no_input=True)


def replay(ctx, r):
    return K.replay_case(ctx, r)
