"""C09 — client events and acknowledgements: one handler, one ACK, callback once (K7 + K2)."""
from .. import common as C
from .. import client_cases as K

LEVEL = 'proof'

RULE = ('histories of EVENT / BINARY_EVENT / ACK / BINARY_ACK from the server on several namespaces (ids None, 0, any) '
        'interleaved with emit/send/call with and without callbacks; ACK ids correct, duplicated, unknown, 0, '
        'outstanding on a different namespace; sync and coroutine handlers and callbacks; function, catch-all and '
        'class-based handlers; Client and AsyncClient; compared op by op with the Lean model and judged by the clause '
        'oracles. non-trivial = distinct history with >= 1 event carrying an id, >= 1 matched and >= 1 unmatched ACK')


def nontrivial(case, orc):
    s = orc.stats
    return s.get('srv.event.id', 0) >= 1 and s.get('srv.ack.matched', 0) >= 1 and s.get('srv.ack.unmatched', 0) >= 1


def run(ctx):
    C.proof_step(ctx, ['python-engineio client contract (DESIGN §4) as the environment of the client model',
                       'json.loads on server frames enters the model as a finite table from the real json.loads'])
    K.run_check(ctx, 'c09', ('C09',), RULE, nontrivial)
    if ctx.thorough:
        ok, out = C.leanchecker(['Sio.Props.C09'])
        ctx.notes.append('leanchecker Sio.Props.C09: %s' % ('ok' if ok else 'FAILED'))
        if not ok:
            ctx.violation('proof', 'leanchecker rejected Sio.Props.C09: ' + out, {'theorem_or_build': out},
                          no_input=True)


def replay(ctx, r):
    return K.replay_case(ctx, r)
