"""C05, a message of the same transport delivered while the handler of a binary event is still running.

With `async_handlers=False` the handler runs inside the delivery; a second delivery thread (threaded server: another
POST of the polling client) or, on asyncio, a coroutine handler that awaits, lets the transport's NEXT message be
processed meanwhile.  The schedule explored: the next message is processed completely inside the handler of an event
that arrived with binary attachments (the handler hands it to the real transport object).  Oracle = the statement: each
event invokes its handler exactly once with its own arguments — the inner message is an event of its own, never an
attachment of the finished one.
"""
from engineio import packet as eio_packet

from .. import world as W


def gen_case(rng):
    return {'mode': rng.choice(['threading', 'asyncio']), 'natt': rng.randint(1, 3),
            'inner': rng.choice(['text', 'binary']), 'ack': rng.random() < 0.5}


def run_case(case):
    w = W.ServerWorld(case['mode'], async_handlers=False)
    bad = []
    calls = []
    try:
        inner_frames = ['2["inner","x"]'] if case['inner'] == 'text' else \
            ['51-["inner",{"_placeholder":true,"num":0}]', b'\x09']
        want_inner = ('x',) if case['inner'] == 'text' else (b'\x09',)

        def deliver():
            pk = [eio_packet.Packet(eio_packet.MESSAGE, f) for f in inner_frames]
            if case['mode'] == 'asyncio':
                return [w.socks['T'].receive(p) for p in pk]
            for p in pk:
                w.socks['T'].receive(p)
            return []

        if case['mode'] == 'asyncio':
            async def outer(sid, *args):
                calls.append(('outer', args))
                if sum(1 for c in calls if c[0] == 'outer') == 1:
                    for co in deliver():
                        await co
                return 'done'
        else:
            def outer(sid, *args):
                calls.append(('outer', args))
                if sum(1 for c in calls if c[0] == 'outer') == 1:
                    deliver()
                return 'done'

        def inner(sid, *args):
            calls.append(('inner', args))
        w.sio.on('outer', outer)
        w.sio.on('inner', inner)
        w.open('T')
        w.recv('T', '0')
        w.settle()
        w.sent('T')
        n = case['natt']
        ph = ','.join('{"_placeholder":true,"num":%d}' % i for i in range(n))
        w.recv('T', '5%d-%s["outer",%s]' % (n, '7' if case['ack'] else '', ph))
        for i in range(n):
            w.recv('T', bytes([i + 1]))
        w.settle()
        want_outer = tuple(bytes([i + 1]) for i in range(n))
        if calls.count(('outer', want_outer)) != 1 or sum(1 for c in calls if c[0] == 'outer') != 1:
            bad.append('binary event with %d attachments: handler invocations %r, expected once with %r'
                       % (n, [c for c in calls if c[0] == 'outer'], want_outer))
        if [c for c in calls if c[0] == 'inner'] != [('inner', want_inner)]:
            bad.append('the next message of the transport, processed while the handler of the binary event was running: '
                       'handler invocations %r, expected once with %r' % ([c for c in calls if c[0] == 'inner'], want_inner))
        if case['ack']:
            acks = [f for f in w.sent('T') if isinstance(f, str) and f.startswith('37')]
            if acks != ['37["done"]']:
                bad.append('acknowledgement of the binary event: %r, expected one 37["done"]' % (acks,))
        if w.escaped:
            bad.append('escaped: %r' % (w.escaped,))
    finally:
        w.close()
    return bad


def run(ctx):
    n = ctx.scale(60, 1200)
    done = 0
    for _ in range(n):
        case = gen_case(ctx.rng)
        bad = run_case(case)
        done += 1
        ctx.count('overlap.%s.%s' % (case['mode'], case['inner']))
        if bad:
            ctx.violation('oracle', 'C05 overlapping deliveries: ' + bad[0], {'overlap': case, 'failures': bad})
            break
    ctx.coverage['overlapping_delivery_cases'] = done
    ctx.assumptions.append(
        'overlapping deliveries of one transport: only the schedule in which the next message is processed completely '
        'inside the running handler of a completed binary event (async_handlers=False) is explored')
