"""C19 — SimpleClient / AsyncSimpleClient: events are received once each, in arrival order (K9).

Real classes under a deterministic scheduler (harness/simple_world.py); every schedule is also run
through the Lean model (`sd_simple`, Sio/Model/Simple.lean) and compared token by token; the property
itself is evaluated by `WorldBase._judge/judge_blocked` on what the implementation observably did.

receive() is called with timeout None, 5, 0, a negative and a tiny positive value (tokens Sr St Sz Sn Sp, see
simple_world.RECV_TIMEOUT); the model knows "no timeout" and "a timeout", an expiry being a scheduled choice:
a timeout that is already over when the call is made is the choice "expire as soon as the consumer parks".

Schedules: (1) every maximal interleaving of the bounded configurations of `families` (stateless
depth-first search: each schedule executed once on a fresh real object, sub-trees farmed out to a
process pool), (2) random token strings beyond those bounds, including tokens that cannot move
anything, (3) the witness of the recorded finding and the schedules of the repaired one.

Recorded finding (KNOWN_FINDINGS.txt, signatures `KNOWN_SIGS`): inside its region the model follows
the code as it is, the oracle reports it through ctx.known(), and the correspondence is not
enforced for schedules that enter the region (so a later repair silences the line, nothing else).
The former second finding (`disconnected-before-drain`: DisconnectedError while an arrived event is
unreturned) is repaired in the library and modelled as repaired (pc r2b, C19.disconnected_after_drain):
it is a plain violation of the oracle and of the correspondence again.
A schedule on which a thread never parks nor finishes (busy loop) is cut after RUNAWAY tokens /
by the watchdog of the asyncio world and reported; the first one stops the enumeration (ABORT).
"""
import json
import multiprocessing
import os
import time

from .. import common as C

LEVEL = 'proof'

KNOWN_SIGS = ('recv-at-connection-wait-ignores-buffer',)


def W():
    from .. import simple_world
    return simple_world


# ------------------------------------------------------------------------------------ configurations

def cfg(name, variant, arrivals, ops, prefix=('Kc', 'Kc'), conn=(), tmo=0, fails=0, float_start=False):
    if variant == 'asyncio':
        # one token per handler in the asyncio variant
        out = []
        for t in prefix:
            if not (out and out[-1] == t and t in ('Kc', 'Kf')):
                out.append(t)
            else:
                out.append(None)
        prefix = tuple(t for t in out if t)
    return dict(name=name, variant=variant, arrivals=arrivals, ops=tuple(ops), prefix=tuple(prefix),
                conn=tuple(conn), tmo=tmo, fails=fails, float_start=float_start)


class Run:
    """one schedule on the real class"""

    def __init__(self, c, sample_fail=None):
        self.c = c
        w = W()
        self.w = (w.ThreadWorld if c['variant'] == 'threads' else w.AsyncWorld)(sample_fail)
        self.tokens = []
        self.trace = []
        self.arr_left = c['arrivals']
        self.op_i = 0
        self.conn_i = 0
        self.conn_cur = None
        self.tmo_left = c['tmo']
        self.fails_left = c['fails']
        for t in c['prefix']:
            self.do(t, counted=False)

    def do(self, t, counted=True):
        w = self.w
        if counted:
            if t == 'P' and not w.producer_mid():
                self.arr_left -= 1
            elif t in ('Kc', 'Kd', 'Kf') and not w.conn_mid():
                self.conn_i += 1
                self.conn_cur = t
            elif t[0] == 'S':
                self.op_i += 1
                self.fails_left = self.c['fails']
            elif t == 'T':
                self.tmo_left -= 1
            elif t == 'Cf':
                self.fails_left -= 1
        w.do(t)
        self.tokens.append(t)
        self.trace.append(w.obs())

    def enabled(self):
        c, w = self.c, self.w
        en = []
        cs = w.consumer_status()
        if cs == 'idle':
            if self.op_i < len(c['ops']):
                en.append(c['ops'][self.op_i])
                if not c['float_start']:
                    return en           # the start step touches nothing shared: issued at once
        elif cs == 'ready':
            if w.at_client_call() and self.fails_left > 0:
                en.append('Cf')
            else:
                en.append('C')
        elif self.tmo_left > 0 and c['ops'][self.op_i - 1] in ('St', 'Sp'):
            # a parked receive(timeout) can time out — by the statement, not by what the object under test
            # happens to have passed to wait() (a wait that lost its timeout must show up as a difference)
            en.append('T')
        if w.producer_mid() or self.arr_left > 0:
            en.append('P')
        if w.conn_mid():
            en.append(self.conn_cur)
        elif self.conn_i < len(c['conn']):
            en.append(c['conn'][self.conn_i])
        return en

    def result(self):
        w = self.w
        r = {'variant': self.c['variant'], 'sched': self.tokens, 'trace': self.trace,
             'outcomes': w.outcome_list(), 'oracle': list(w.oracle), 'facts': facts(w),
             'unhandled': list(w.client.unhandled), 'end_up': w.conn_up()}
        r.update(model_schedule(w))
        w.close()
        return r


ABORT = multiprocessing.get_context('fork').Event()   # set by the first worker that meets a runaway schedule
RUNAWAY = 160     # no maximal schedule of the enumerated configurations is longer than ~70 tokens


def explore(c, root=(), depth_limit=None):
    """stateless depth-first enumeration of every maximal schedule of configuration c that starts
    with `root`; each is executed exactly once on a fresh real object."""
    stack = []
    while True:
        r = Run(c)
        depth = 0
        cut = False
        while True:
            en = r.enabled()
            if not en:
                break
            if depth_limit is not None and depth >= depth_limit:
                cut = True
                break
            if ABORT.is_set():
                r.w.close()
                return
            if depth > RUNAWAY or any(o['value'] == 'Spinning' for o in r.w.outcomes):
                # some thread keeps running without ever finishing or parking: report and stop this subtree
                ABORT.set()
                res = r.result()
                res['cut'] = False
                res['runaway'] = True
                res['body'] = res['sched'][len(c['prefix']):]
                yield res
                return
            if depth < len(root):
                tok = root[depth]
                if tok not in en:
                    raise C.Infra('replay of prefix diverged: %r not in %r' % (tok, en))
            else:
                i = depth - len(root)
                if i < len(stack):
                    if stack[i][0] != len(en):
                        raise C.Infra('non-deterministic enabled set at depth %d' % depth)
                    tok = en[stack[i][1]]
                else:
                    stack.append([len(en), 0])
                    tok = en[0]
            r.do(tok)
            depth += 1
        res = r.result()
        res['cut'] = cut
        res['cfg'] = '%s/%s' % (c['name'], c['variant'])
        res['body'] = res['sched'][len(c['prefix']):]
        yield res
        while stack and stack[-1][1] + 1 >= stack[-1][0]:
            stack.pop()
        if not stack:
            return
        stack[-1][1] += 1


# ------------------------------------------------------------------------------------ comparison

def model_schedule(w):
    """the model's schedule for what was executed (world.mtoks: one harness token = one model token, except a
    consumer step of a receive(timeout <= 0), which is `C T`) and, per harness token, the index of the model
    trace entry to compare with"""
    msched, mlast = [], []
    for m in w.mtoks:
        msched += m
        mlast.append(len(msched) - 1)
    return {'msched': msched, 'mlast': mlast}


def facts(w):
    return [{k: o[k] for k in ('op', 'kind', 'value', 'completed', 'returned', 'ended', 'waiting_on', 'avail_start',
                               'flag_start', 'after_reconnect')} for o in w.outcomes]


def aligned(ans, r):
    """model trace at the harness tokens: [status, nlog, producerMid, handlerMid]"""
    tr = ans['trace']
    return [[tr[i][0], tr[i][2], tr[i][3], tr[i][4]] for i in r['mlast']]


def model_view(ans, W_, r=None):
    """the model's outcomes in the implementation's terms (asyncio receive(timeout <= 0): since repair 81fda60 the
    expired connection wait falls through when the flag is set, as the model's wait does; `adjusted` stays 0)"""
    outs = []
    adjusted = 0
    ops = [f['op'] for f in r['facts']] if r is not None and r['variant'] == 'asyncio' else []
    for i, e in enumerate(ans['log']):
        o = e['o']
        if isinstance(o, dict) and 'ret' in o:
            outs.append({'ret': list(W_.arrival(o['ret']))})
        else:
            outs.append(o)
    if r is not None:
        r['adjusted'] = adjusted
    return outs


def in_known_region(ans):
    """the model says this schedule enters the region of a recorded finding"""
    if any(t[5] for t in ans['trace']):
        return True
    for e in ans['log']:
        o = e['o']
        if isinstance(o, dict) and o.get('exc') == 'TimeoutError' and e['pc'] == 'r1w' and \
                e['signalled'] > e['returned']:
            return True
    return False


class Acc:
    """what a batch of schedules adds to the evidence"""

    def __init__(self):
        self.n = 0
        self.nontrivial = 0
        self.counters = {}
        self.transitions = set()
        self.mismatch = []
        self.violations = []
        self.known = {}
        self.samples = []
        self.region_skipped = 0

    def count(self, k, n=1):
        self.counters[k] = self.counters.get(k, 0) + n

    def merge(self, o):
        self.n += o.n
        self.nontrivial += o.nontrivial
        for k, v in o.counters.items():
            self.count(k, v)
        self.transitions |= o.transitions
        self.mismatch += o.mismatch[:3]
        self.violations += o.violations[:3]
        for k, v in o.known.items():
            self.known.setdefault(k, v)
        if len(self.samples) < 6:
            self.samples += o.samples[:2]
        self.region_skipped += o.region_skipped


def judge_batch(acc, results, family):
    """model run + comparison + oracle for a list of implementation results"""
    if not results:
        return
    W_ = W()
    answers = C.batch('simple', [{'variant': r['variant'], 'sched': r['msched']} for r in results])
    for r, ans in zip(results, answers):
        acc.n += 1
        acc.count('family.' + family)
        if r.get('cfg'):
            acc.count('cfg.' + r['cfg'])
        acc.count('variant.' + r['variant'])
        sched = r['sched']
        # ---- oracle (implementation only)
        for sig, text in r['oracle']:
            rep = {'variant': r['variant'], 'sched': sched, 'what': text, 'impl_outcomes': r['outcomes']}
            if sig in KNOWN_SIGS:
                acc.known.setdefault(sig, (text, rep))
                acc.count('known.' + sig)
            else:
                acc.violations.append((text, rep))
        # ---- correspondence
        mt = aligned(ans, r)
        mo = model_view(ans, W_, r)
        if r['adjusted']:
            acc.count('asyncio_receive_timeout<=0_after_final: TimeoutError where the sync client raises '
                      'DisconnectedError', r['adjusted'])
        if r.get('runaway'):
            acc.mismatch.append(('the schedule never ends: after %d tokens a thread is still runnable (busy '
                                 'loop instead of parking?)' % len(sched),
                                 {'variant': r['variant'], 'sched': sched, 'impl_trace_tail': r['trace'][-6:],
                                  'model_trace_tail': mt[-6:]}))
        elif in_known_region(ans) or any(sig in KNOWN_SIGS for sig, _ in r['oracle']):
            acc.region_skipped += 1
        elif mt != r['trace'] or mo != r['outcomes']:
            k = next((i for i, (a, b) in enumerate(zip(mt, r['trace'])) if a != b), None)
            acc.mismatch.append(('model and implementation differ at token %s of %s' % (k, ' '.join(sched)),
                                 {'variant': r['variant'], 'sched': sched, 'first_difference_at': k,
                                  'impl_trace': r['trace'], 'model_trace': mt,
                                  'impl_outcomes': r['outcomes'], 'model_outcomes': mo}))
        # ---- measured coverage
        prev = 'idle'
        parked = False
        concurrent = False
        for tok, i, o in zip(sched, r['mlast'], r['trace']):
            t = ans['trace'][i]
            acc.transitions.add((prev, tok, t[1]))
            if tok == 'P' and prev not in ('idle',):
                concurrent = True
            prev = t[1]
            if o[0] == 'blocked':
                parked = True
            acc.count('tok.' + tok)
        if parked and concurrent:
            acc.nontrivial += 1
        for o in r['outcomes']:
            acc.count('outcome.' + ('ret' if isinstance(o, dict) and 'ret' in o else
                                    o if isinstance(o, str) else o['exc']))
        for ev in r.get('unhandled', ()):
            acc.count('connection_or_arrival_event_without_registered_handler.' + ev)
        if r.get('end_up'):
            acc.count('end_with_connection_up.consumer_' + (r['trace'][-1][0] if r['trace'] else 'idle'))
        for f in r['facts']:
            if f.get('after_reconnect'):
                # calls that ended after a loss of the transport followed by a completed reconnection
                acc.count('after_reconnection.%s.%s.%s' % (
                    r['variant'], 'receive' if f['op'] in W_.RECV_OPS else 'emit' if f['op'] == 'Se' else 'call',
                    'returned' if f['kind'] == 'ret' else f['value']))
            if f['op'] in W_.RECV_OPS:
                # receive(timeout) by timeout value x what was available when the call was made x flag x outcome
                acc.count('recv.%s timeout=%r.%s.%s.%s' % (
                    r['variant'], W_.RECV_TIMEOUT[f['op']],
                    'buffered=%d' % min(f['avail_start'], 3) + ('+' if f['avail_start'] > 3 else ''),
                    'flag-set' if f['flag_start'] else 'flag-clear',
                    'returned' if f['kind'] == 'ret' else f['value']))
                if f['op'] in W_.ZERO_OPS or f['op'] == 'Sp':
                    acc.count('recv_nonpositive_or_tiny_timeout.' +
                              ('with_events_buffered' if f['avail_start'] else 'nothing_buffered'))
        acc.count('end.' + (r['trace'][-1][0] if r['trace'] else 'idle'))
        if acc.violations:
            ABORT.set()         # the verdict is settled: stop enumerating
        if len(acc.samples) < 2 and parked and concurrent and len(r['outcomes']) >= 2:
            acc.samples.append({'variant': r['variant'], 'sched': ' '.join(sched), 'outcomes': repr(r['outcomes'])})


FAIL_CLASSES = ('BadNamespaceError', 'TimeoutError', 'SocketIOError', 'ConnectionError')


def work(task):
    """pool worker: enumerate the subtree of one prefix (or run a list of sampled schedules)"""
    kind, c, arg, family = task
    acc = Acc()
    chunk = []
    if ABORT.is_set():
        return acc
    if kind == 'tree':
        for res in explore(c, root=arg):
            chunk.append(res)
            if len(chunk) >= 1500:
                judge_batch(acc, chunk, family)
                chunk = []
    else:
        from socketio import exceptions as sx
        for i, sched in enumerate(arg):
            if ABORT.is_set():
                break
            # which SocketIOError subclass the scripted client raises must not matter
            chunk.append(run_tokens(c['variant'], sched, getattr(sx, FAIL_CLASSES[(i + len(sched)) % 4])))
            if {'exc': 'Spinning'} in chunk[-1]['outcomes']:
                ABORT.set()
    judge_batch(acc, chunk, family)
    return acc


def run_tokens(variant, sched, sample_fail=None):
    W_ = W()
    w = (W_.ThreadWorld if variant == 'threads' else W_.AsyncWorld)(sample_fail)
    trace = []
    for t in sched:
        w.do(t)
        trace.append(w.obs())
    r = {'variant': variant, 'sched': list(sched), 'trace': trace, 'outcomes': w.outcome_list(),
         'oracle': list(w.oracle), 'facts': facts(w), 'unhandled': list(w.client.unhandled), 'end_up': w.conn_up()}
    r.update(model_schedule(w))
    w.close()
    return r


# ------------------------------------------------------------------------------------ shrinking

def still_fails(drv, variant, sched, kind):
    """does this schedule still show a failure of the same kind (oracle / correspondence)?"""
    if not sched:
        return False
    res = run_tokens(variant, sched)
    if {'exc': 'Spinning'} in res['outcomes']:
        return kind == 'oracle'
    if kind == 'oracle':
        return any(sig not in KNOWN_SIGS for sig, _ in res['oracle'])
    ans = drv.ask({'variant': variant, 'sched': res['msched']})
    if in_known_region(ans) or any(sig in KNOWN_SIGS for sig, _ in res['oracle']):
        return False
    return aligned(ans, res) != res['trace'] or model_view(ans, W(), res) != res['outcomes']


def shrink(variant, sched, kind, budget=250):
    """delta debugging on the token list"""
    sched = list(sched)
    if len(sched) > RUNAWAY:
        return sched
    drv = C.Driver('simple')
    try:
        if not still_fails(drv, variant, sched, kind):
            return sched
        n = 2
        while len(sched) >= 2 and budget > 0:
            size = max(1, len(sched) // n)
            for i in range(0, len(sched), size):
                cand = sched[:i] + sched[i + size:]
                budget -= 1
                if still_fails(drv, variant, cand, kind):
                    sched = cand
                    n = max(n - 1, 2)
                    break
                if budget <= 0:
                    break
            else:
                if size == 1:
                    break
                n = min(len(sched), n * 2)
    finally:
        drv.close()
    return sched


# ------------------------------------------------------------------------------------ run

def families(ctx):
    """(family name, configuration, exhaustive?) — the bounded spaces enumerated completely"""
    th = ctx.thorough
    out = []
    for v in ('threads', 'asyncio'):
        big = th or v == 'asyncio'
        # producer / consumer hand-off, connected throughout: every interleaving up to 3 arrivals x 3 receives
        for a in range(0, 4):
            for k in range(1, 4):
                out.append(('handoff', cfg('handoff %dx%d' % (a, k), v, a, ['Sr'] * k)))
        # timeouts
        for a, ops, tmo in ([(1, ['St', 'St'], 2), (2, ['St', 'Sr'], 1), (2, ['St', 'St', 'St'], 2)] if big else
                            [(1, ['St', 'St'], 2), (2, ['St', 'Sr'], 1)]):
            out.append(('timeout', cfg('timeout %d %s' % (a, ''.join(ops)), v, a, ops, tmo=tmo)))
        # loss of connection with / without reconnection, around a receive
        conns = [('Kd', 'Kc'), ('Kd', 'Kf')] + ([('Kd', 'Kc', 'Kd', 'Kf')] if big else [])
        for conn in conns:
            for a, ops, tmo in ([(1, ['St', 'Sr'], 1), (2, ['Sr', 'St'], 1)] if big else [(1, ['St', 'Sr'], 1)]):
                if v == 'threads' and len(conn) > 2 and a > 1:
                    continue
                out.append(('connection', cfg('conn %s %d %s' % (''.join(conn), a, ''.join(ops)), v, a, ops,
                                              conn=conn, tmo=tmo)))
        out.append(('connection', cfg('never connected', v, 1, ['St', 'Sr'], prefix=(), conn=('Kc',), tmo=1)))
        # emit / call retry loops
        for op in ('Se', 'Sc'):
            out.append(('send', cfg('send %s reconnect' % op, v, 0, [op], conn=('Kd', 'Kc'), fails=1)))
            out.append(('send', cfg('send %s final' % op, v, 0, [op, op], conn=('Kd', 'Kf'), fails=1)))
            out.append(('send', cfg('send %s fresh' % op, v, 0, [op], prefix=(), conn=('Kc', 'Kd', 'Kc'), fails=2)))
        # the start step floats too (validates that issuing the call at once loses nothing)
        out.append(('floating-start', cfg('float 2x2', v, 2, ['Sr', 'St'], tmo=1, float_start=True)))
        # receive(timeout) with a timeout that is over when the call is made (0, negative) or all but (1e-9):
        # what has arrived is returned all the same, TimeoutError only from an empty buffer — with 1..3 events
        # buffered and signalled, buffered with the flag already cleared by an earlier receive (Sr/St first),
        # arriving while the call runs, nothing buffered, disconnected
        zero = [(1, ['Sz', 'Sz'], 0, ()), (2, ['Sz', 'Sn'], 0, ()), (2, ['Sr', 'Sz'], 0, ()),
                (1, ['Sp', 'Sz'], 1, ()), (0, ['Sz', 'Sn'], 0, ('Kd', 'Kf'))]
        if big:
            zero += [(3, ['Sn', 'Sz', 'Sz'], 0, ()), (2, ['Sz', 'Sp', 'Sn'], 1, ()), (2, ['St', 'Sz', 'Sn'], 1, ()),
                     (1, ['Sn', 'Sz'], 0, ('Kd', 'Kc')), (1, ['Sz', 'Sn'], 0, ('Kd', 'Kf')),
                     (1, ['Sr', 'Sz'], 0, ('Kd', 'Kf'))]
            if v == 'asyncio':
                zero.append((2, ['Sz', 'Sr', 'Sn'], 0, ('Kd', 'Kf')))
        for a, ops, tmo, conn in zero:
            out.append(('zero-timeout', cfg('zero %s%d %s' % (''.join(conn) + ' ' if conn else '', a, ''.join(ops)),
                                            v, a, ops, conn=conn, tmo=tmo)))
        if v == 'asyncio':
            # await-point interleavings are few: go further
            out.append(('handoff', cfg('handoff 5x5', v, 5, ['Sr'] * 5)))
            out.append(('handoff', cfg('handoff 4x4 timed', v, 4, ['St'] * 4, tmo=2)))
            out.append(('floating-start', cfg('float 3x3', v, 3, ['Sr', 'St', 'Sr'], tmo=1, float_start=True)))
            out.append(('zero-timeout', cfg('zero 3 SzSnSpSzSn floating', v, 3, ['Sz', 'Sn', 'Sp', 'Sz', 'Sn'],
                                            tmo=1, float_start=True)))
            out.append(('zero-timeout', cfg('zero 4 SrSzStSnSz', v, 4, ['Sr', 'Sz', 'St', 'Sn', 'Sz'], tmo=1)))
            out.append(('zero-timeout', cfg('zero KdKcKdKf 2 SzSrSn' + (' floating' if th else ''), v, 2,
                                            ['Sz', 'Sr', 'Sn'], conn=('Kd', 'Kc', 'Kd', 'Kf'), float_start=th)))
            na = 3 if th else 2
            out.append(('connection', cfg('conn KdKcKdKf %d SrStSr floating' % na, v, na, ['Sr', 'St', 'Sr'],
                                          tmo=1, conn=('Kd', 'Kc', 'Kd', 'Kf'), float_start=True)))
    return out


def sample_schedule(rng, variant):
    n = rng.randint(10, 70)
    weights = {'P': 6, 'C': 14, 'Cf': 1, 'T': 2, 'Kc': 1.2, 'Kd': 1, 'Kf': 0.5, 'Sr': 2, 'St': 2, 'Se': 0.7,
               'Sc': 0.5, 'Sz': 1, 'Sn': 0.6, 'Sp': 0.4}
    if rng.random() < 0.25:
        # an application that polls: mostly receive(timeout <= 0)
        weights.update({'Sz': 4, 'Sn': 2, 'Sp': 1, 'Sr': 0.3, 'St': 0.5})
    if rng.random() < 0.5:
        weights['Kd'] = weights['Kf'] = 0.2
    toks = list(weights)
    ws = [weights[t] for t in toks]
    sched = ['Kc', 'Kc'] if rng.random() < 0.8 else []
    sched += rng.choices(toks, ws, k=n)
    # let the run end quiescent a good part of the time
    if rng.random() < 0.6:
        sched += ['P', 'P'] + ['C'] * 8
    return sched


def run(ctx):
    C.proof_step(ctx, [
        'pre-emption granularity: one step = one access of SimpleClient to connected_event / input_event / '
        'input_buffer / connected / client.emit|call (each such access atomic, as under the GIL); '
        'Event.wait semantics of threading.Event / asyncio.Event as stated in Sio/Model/Simple.lean',
        'asyncio: CPython >= 3.12 wait_for (no suspension when the event is already set); a timer cannot '
        'overtake a wake-up that is already queued (the tie "deadline reached in the same loop iteration as '
        'the set()" is outside the model)',
        'one producer thread (arrivals are appended in the order the handler is invoked)'])
    if ctx.thorough:
        ok, out = C.leanchecker(['Sio.Props.C19', 'Sio.Lemmas.SimpleAsync', 'Sio.Lemmas.Simple', 'Sio.Model.Simple'])
        ctx.coverage['leanchecker'] = 'ok' if ok else out
        if not ok:
            ctx.violation('proof', 'leanchecker rejects the compiled proofs: ' + out[-500:],
                          {'theorem_or_build': 'leanchecker Sio.Props.C19'}, no_input=True)
    ABORT.clear()
    C.build_driver('simple')        # once, before forking (the workers inherit the fact)
    t0 = time.time()
    nproc = max(1, min(12, (os.cpu_count() or 2) - 2))
    pool = multiprocessing.get_context('fork').Pool(nproc)
    total = Acc()
    try:
        tasks = []
        fams = families(ctx)
        for family, c in fams:
            depth = 7 if c['variant'] == 'threads' else 4
            for res in explore(c, depth_limit=depth):
                tasks.append(('tree', c, tuple(res['body']), family))
        # ---- sampled schedules beyond the bounds (tokens that cannot move included on purpose)
        n_samp = ctx.scale(600, 12000)
        for v in ('threads', 'asyncio'):
            scheds = []
            for _ in range(n_samp if v == 'threads' else 2 * n_samp):
                s = sample_schedule(ctx.rng, v)
                if v == 'asyncio':
                    s = [t for i, t in enumerate(s) if not (i == 1 and t == 'Kc' and s[0] == 'Kc')]
                scheds.append(s)
            for i in range(0, len(scheds), 200):
                tasks.append(('list', {'variant': v}, scheds[i:i + 200], 'sampled'))
        # the recorded finding, always (so that a repair silences the line and nothing else changes), and the
        # schedules of the repaired one (C19.lateArrival / lateArrivalAsync: the event arrives between the
        # empty-buffer test and the end of the connection; it is returned, the next receive() raises) and of a
        # connect handler that starts between the read of `connected` and the test of the buffer
        tasks.append(('list', {'variant': 'threads'}, [
            'Kc Kc St C P P Kd C T St C C'.split(),
            'Kc Kc Sr C P P Kd Kf Kf C C C C Sr C C C C'.split(),
            'Kc Kc Kf Kf Sr C C C Kc C'.split()], 'witness'))
        tasks.append(('list', {'variant': 'asyncio'}, [
            'Kc Kd St C P T St C'.split(), 'Kc Kd Sr C P Kf C Sr C'.split()], 'witness'))
        ctx.rng.shuffle(tasks)
        for acc in pool.imap_unordered(work, tasks, chunksize=1):
            total.merge(acc)
    finally:
        pool.terminate()
        pool.join()
    for text, rep in total.violations[:3]:
        small = shrink(rep['variant'], rep['sched'], 'oracle')
        if small != rep['sched']:
            r2 = run_tokens(rep['variant'], small)
            rep = {'variant': rep['variant'], 'sched': small, 'impl_outcomes': r2['outcomes'],
                   'what': [t for sig, t in r2['oracle'] if sig not in KNOWN_SIGS], 'shrunk_from': rep['sched']}
            text = '; '.join(rep['what']) or text
        ctx.violation('oracle', text, rep)
    for text, rep in total.mismatch[:3]:
        small = shrink(rep['variant'], rep['sched'], 'correspondence')
        if small != rep['sched']:
            r2 = run_tokens(rep['variant'], small)
            ans = C.batch('simple', [{'variant': rep['variant'], 'sched': r2['msched']}])[0]
            rep = {'variant': rep['variant'], 'sched': small, 'impl_trace': r2['trace'],
                   'model_trace': aligned(ans, r2), 'model_sched': r2['msched'],
                   'impl_outcomes': r2['outcomes'], 'model_outcomes': model_view(ans, W(), r2),
                   'shrunk_from': rep['sched']}
            text = 'model and implementation differ on ' + ' '.join(small)
        ctx.violation('correspondence', text, rep, no_input=True)
    for sig, (text, rep) in total.known.items():
        ctx.known(sig, text + ' — schedule (%s): %s' % (rep['variant'], ' '.join(rep['sched'])))
    for k, v in total.counters.items():
        if not k.startswith(('cfg.', 'recv.')):
            ctx.count(k, v)
    n_tree = sum(v for k, v in total.counters.items() if k.startswith('family.') and
                 k not in ('family.sampled', 'family.witness'))
    ctx.coverage.update({
        'evaluations': total.n,
        'distinct_nontrivial': total.nontrivial,
        'rule': 'one evaluation = one schedule executed on a fresh real SimpleClient/AsyncSimpleClient and on the '
                'model, compared after every token (consumer idle/ready/parked, number of finished calls, '
                'producer/handler in mid-handler) and on the outcomes (returned lists, exception classes), '
                'and judged by the property oracle. Schedules of one run are pairwise distinct by construction '
                '(depth-first enumeration). non-trivial = receive() parked at least once AND at least one '
                'arrival step happened while a call was in progress',
        'exhaustive': True,
        'exhaustive_scope': 'every maximal interleaving of each configuration listed in `configurations` '
                            '(%d schedules, tier %s): producer/consumer hand-off for 0..3 arrivals x 1..3 receives '
                            '(threads and asyncio, both tiers); receive(timeout) with up to 2 expiries; loss of '
                            'connection with / without reconnection around receives; emit/call retry loops; '
                            'receive(timeout) with timeout 0 / negative / 1e-9 / 5 / None in every order on 0..3 '
                            '(asyncio 0..4) buffered events, flag set or already cleared, connected or not '
                            '(the thorough tier adds the larger timeout and connection configurations). The '
                            'start of a call performs no shared access and is issued as soon as the previous '
                            'call is over, except in the floating-start configuration where it floats too'
                            % (n_tree, ctx.tier),
        'configurations': {k[4:]: v for k, v in sorted(total.counters.items()) if k.startswith('cfg.')},
        'sampled_beyond_bounds': total.counters.get('family.sampled', 0),
        'receive_by_timeout_value': {
            'rule': 'finished receive() calls by variant x timeout argument x events available (arrived, signalled, '
                    'unreturned) when the call was made x input_event flag at that moment x outcome',
            'with_timeout<=0_or_1e-9_and_events_buffered':
                total.counters.get('recv_nonpositive_or_tiny_timeout.with_events_buffered', 0),
            'with_timeout<=0_or_1e-9_and_nothing_buffered':
                total.counters.get('recv_nonpositive_or_tiny_timeout.nothing_buffered', 0),
            'cells': {k[5:]: v for k, v in sorted(total.counters.items()) if k.startswith('recv.')}},
        'model_transitions_visited': len(total.transitions),
        'model_pcs_visited': sorted({t[2] for t in total.transitions}),
        'schedules_in_known_region_not_compared': total.region_skipped,
        'samples': total.samples[:4],
        'traces_validated_against_impl': total.n - total.region_skipped,
        'observations': [
            'liveness (C19.deadlock_characterised, not a violation): receive(timeout=None) parked on input_event '
            'when the connection ends for good stays parked: __disconnect_final sets connected_event only. '
            'Runs ending with the consumer parked: %d' % total.counters.get('end.blocked', 0)],
        'enumeration_wall_s': round(time.time() - t0, 1), 'workers': nproc,
    })
    # side observation, outside the text of C19 (recorded, not judged)
    from socketio import exceptions as sx
    W_ = W()
    w = W_.ThreadWorld(sx.TimeoutError)
    for t in 'Kc Kc Sc C C Cf C C C'.split():
        w.do(t)
    ctx.notes.append(
        'observation (not part of C19): socketio.exceptions.TimeoutError subclasses SocketIOError, so '
        'SimpleClient.call() swallows the TimeoutError raised by client.call() in `except SocketIOError: pass` '
        'and sends the event again; call(timeout=...) never raises TimeoutError although its docstring says '
        'so. Executed here: client.call raised TimeoutError once -> attempts=%d, outcome=%r'
        % (w.client.attempts, w.outcome_list()))
    w.close()
    ctx.notes.append(
        'observation (not a violation of C19, a difference between the two clients): AsyncSimpleClient.receive('
        'timeout<=0) on an empty buffer always raises TimeoutError — asyncio.wait_for(connected_event.wait(), 0) '
        'cancels the not-yet-started waiter even when the event is set — so an asyncio application that polls with '
        'receive(timeout=0) is never told DisconnectedError after the connection has ended for good, where '
        'SimpleClient.receive(timeout=0) raises DisconnectedError. Schedules on which this was seen: %d'
        % total.counters.get('asyncio_receive_timeout<=0_after_final: TimeoutError where the sync client raises '
                             'DisconnectedError', 0))
    ctx.assumptions += ['timeouts are scheduled, never measured: `T` makes the pending timed wait expire',
                        'a wait with timeout <= 0 and the flag clear expires at once (threading.Event.wait / '
                        'asyncio.wait_for): model tokens `C T`',
                        'the scripted client accepts or refuses (SocketIOError) an emit/call as the schedule says']


def replay(ctx, r):
    rep = r.get('replay', r)
    variant, sched = rep['variant'], rep['sched']
    res = run_tokens(variant, sched)
    ans = C.batch('simple', [{'variant': variant, 'sched': res['msched']}])[0]
    print('schedule (%s): %s' % (variant, ' '.join(sched)))
    W_ = W()
    print('                        (Sr St Sz Sn Sp = receive(timeout=%s); model schedule: %s)'
          % (', '.join(repr(W_.RECV_TIMEOUT[k]) for k in ('Sr', 'St', 'Sz', 'Sn', 'Sp')), ' '.join(res['msched'])))
    print('implementation trace   :', json.dumps(res['trace']))
    print('model trace            :', json.dumps(aligned(ans, res)))
    print('implementation outcomes:', res['outcomes'])
    print('model outcomes         :', model_view(ans, W(), res))
    print('oracle                 :', res['oracle'] or 'property holds on this schedule')
    return 1 if any(sig not in KNOWN_SIGS for sig, _ in res['oracle']) else 0


# ------------------------------------------------------------------------------------ C14: SimpleClient == AsyncSimpleClient

PARITY_RESULTS = ('ok', 'ok', 'BadNamespaceError', 'TimeoutError', 'SocketIOError')


def gen_parity_program(rng):
    """a scripted scenario at the granularity both variants share: handlers run to completion, the
    application call runs until it parks or ends.  ('send', op, [result of each client attempt…])"""
    prog = [('connect',)] if rng.random() < 0.85 else []
    for _ in range(rng.randint(6, 22)):
        r = rng.random()
        if r < 0.25:
            prog.append(('arrive',))
        elif r < 0.45:
            prog.append(('recv', rng.random() < 0.5))
        elif r < 0.62:
            k = rng.randint(0, 2)
            prog.append(('send', rng.choice(['Se', 'Sc']),
                         [rng.choice(PARITY_RESULTS[2:]) for _ in range(k)] + ['ok']))
        elif r < 0.72:
            prog.append(('timeout',))
        elif r < 0.80:
            prog.append(('disconnect',))
        elif r < 0.88:
            prog.append(('connect',))
        elif r < 0.93:
            prog.append(('final',))
        else:
            prog.append(('run',))
    prog += [('arrive',), ('run',)]
    return prog


def run_parity_program(variant, prog):
    """-> list of observations, one per action"""
    from socketio import exceptions as sx
    W_ = W()
    th = variant == 'threads'
    w = (W_.ThreadWorld if th else W_.AsyncWorld)()
    script = []
    obs = []

    def settle():
        for _ in range(300):
            if w.consumer_status() != 'ready':
                return
            if w.at_client_call():
                res = script.pop(0) if script else 'ok'
                if res == 'ok':
                    w.do('C')
                else:
                    w.client.fail_class = getattr(sx, res)
                    w.do('Cf')
            else:
                w.do('C')
        raise W_.Spinning('the call neither parks nor ends')

    try:
        for act in prog:
            k = act[0]
            try:
                if k == 'arrive':
                    w.do('P')
                    if th:
                        w.do('P')
                elif k in ('connect', 'final'):
                    t = 'Kc' if k == 'connect' else 'Kf'
                    w.do(t)
                    if th:
                        w.do(t)
                elif k == 'disconnect':
                    w.do('Kd')
                elif k == 'recv':
                    w.do('St' if act[1] else 'Sr')
                elif k == 'send':
                    if w.consumer_status() == 'idle':
                        script[:] = list(act[2])
                    w.do(act[1])
                elif k == 'timeout':
                    w.do('T')
                settle()
                spin = None
            except W_.Spinning as e:
                spin = str(e)
            obs.append({'status': 'spinning' if spin else w.consumer_status(),
                        'calls': [(o['op'], o['kind'], o['value']) for o in w.outcomes],
                        'client_got': [tuple(x) for x in w.client.sent], 'client_attempts': w.client.attempts})
            if spin:
                break
    finally:
        w.close()
    return obs


def parity(ctx, n=None):
    """C14 for the simple clients: the same scripted scenarios on SimpleClient (deterministic thread
    scheduler) and AsyncSimpleClient (controlled loop) with equivalent schedules — every handler runs to
    completion, the application call runs until it parks or ends — compared after every action on what
    the calls returned / raised, what the client was asked to emit/call and how often, parked or not."""
    n = n if n is not None else ctx.scale(150, 1500)
    fixed = [
        [('connect',), ('send', 'Sc', ['TimeoutError', 'ok'])],
        [('connect',), ('send', 'Se', ['BadNamespaceError', 'ok'])],
        [('connect',), ('send', 'Sc', ['SocketIOError', 'TimeoutError', 'ok'])],
        [('connect',), ('recv', True), ('arrive',), ('recv', True), ('timeout',), ('disconnect',), ('final',),
         ('recv', False), ('send', 'Se', ['ok'])],
        [('connect',), ('send', 'Sc', ['ok']), ('disconnect',), ('send', 'Se', ['BadNamespaceError', 'ok']),
         ('connect',), ('run',), ('disconnect',), ('send', 'Sc', ['ok']), ('final',)],
        [('recv', True), ('timeout',), ('send', 'Se', ['ok']), ('connect',), ('arrive',), ('recv', False)],
    ]
    progs = fixed + [gen_parity_program(ctx.rng) for _ in range(max(0, n - len(fixed)))]
    bad = 0
    for prog in progs:
        a = run_parity_program('threads', prog)
        b = run_parity_program('asyncio', prog)
        ctx.count('simple_parity_programs')
        if a != b:
            bad += 1
            i = next((j for j, (x, y) in enumerate(zip(a, b)) if x != y), min(len(a), len(b)))
            if bad <= 3:
                ctx.violation(
                    'oracle', 'SimpleClient and AsyncSimpleClient behave differently: after action %d %r of %r '
                              'SimpleClient -> %r, AsyncSimpleClient -> %r'
                    % (i, prog[i] if i < len(prog) else None, prog[:i + 1], a[i] if i < len(a) else None,
                       b[i] if i < len(b) else None),
                    {'kernel': 'simple', 'program': [list(p) for p in prog[:i + 1]],
                     'threaded': repr(a[:i + 1][-1:]), 'asyncio': repr(b[:i + 1][-1:])})
    return {'programs': len(progs), 'disagreements': bad}
