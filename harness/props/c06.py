"""C06 — server-initiated acknowledgements (K4)."""
import json

from .. import common as C
from .. import server_sim as S
from .. import server_gen as SG
from .. import pycodec
from .. import gen as G

LEVEL = 'proof'

PROFILE = {
    'weights': {'open': 2, 'connect': 6, 'client_disconnect': 1, 'event': 1, 'ack': 14, 'emit': 1, 'emit_cb': 12,
                'call': 4, 'api_disconnect': 1, 'enter': 0, 'leave': 0, 'close': 0, 'rooms': 0, 'lost': 2,
                'partial_binary': 0},
    'connect_outcomes': {'accept': 9, 'false': 1, 'refuse': 0, 'raise': 0},
    'burst_acks': True,
}


def accepts(style, n):
    """does the application callback's signature take n positional arguments"""
    a = (style or {}).get('arity', '*')
    if a == '*':
        return True
    if a == 'opt':
        return n <= 3
    return n == a


def oracle(cfg, trace, residue):
    return judge(cfg, trace)


def judge(cfg, trace, stats=None):
    """The statement, judged on what the real server did: every callback registered for a client (emit(callback=) or
    the internal one of call()) is invoked when THAT client connection acknowledges THAT id — once, with exactly the
    acknowledged arguments, whatever the callback raises and whatever happened to other ids (other call()s timing
    out, other callbacks failing) — and never otherwise.  Ids are followed on the wire."""
    fails = []
    stats = stats if stats is not None else {}
    conn = {}                 # (tid, ns) -> sid
    out = {}                  # (tid, ns, id) -> (token, registration number)    outstanding callbacks, from the wire
    styles = {}               # user token -> signature / ending of the application callback
    cf = S.ClientFrames()
    seq = [0, 0]              # registrations, call()s
    calldone = {}             # call token -> acknowledged arguments
    late = {}                 # (tid, ns, id) -> why it is interesting that it is still delivered

    def bump(key, n=1):
        stats[key] = stats.get(key, 0) + n

    def handle_wire(tid, q, tok):
        if q['type'] == 0 and isinstance(q['data'], dict):
            conn[(tid, q['ns'])] = q['data']['sid']
        elif q['type'] == 1:
            end_session(tid, q['ns'])
        elif q['type'] in (2, 5) and q['id'] is not None:
            key = (tid, q['ns'], q['id'])
            if key in out:
                fails.append((None, 'ack id %r reused while still outstanding for %s on %s' % (q['id'], tid, q['ns'])))
            seq[0] += 1
            out[key] = (tok, seq[0])

    def end_session(t, ns):
        conn.pop((t, ns), None)
        for k in [k for k in out if k[0] == t and k[1] == ns]:
            del out[k]
            late.pop(k, None)

    def client_packet(op, allowed):
        """processes what the client sent in `op`; `allowed` collects (tok, args) that may fire"""
        p = cf.feed(op)
        if isinstance(p, dict) and p['type'] in (3, 6) and isinstance(p['data'], list):
            key = (op['t'], p['ns'], p['id'])
            if key in out and (op['t'], p['ns']) in conn:
                tok = out.pop(key)[0]
                why = late.pop(key, None)
                if isinstance(tok, str):
                    if tok in calldone:
                        bump('acks_for_a_call_that_had_already_timed_out')
                    calldone[tok] = list(p['data'])
                else:
                    allowed.append((tok, list(p['data'])))
                    if why:
                        bump(why)
        elif isinstance(p, dict) and p['type'] == 1:
            end_session(op['t'], p['ns'])

    def process(op, im, allowed):
        """one op, top level or issued while a call() waits: the client's / application's part, then what the server
        put on the wire for it"""
        k = op['op']
        if k in ('frame', 'frameval'):
            client_packet(op, allowed)
        elif k == 'burst':
            for f in op['frames']:
                client_packet(f, allowed)
        elif k == 'lost':
            cf.drop(op['t'])
            for key in [key for key in conn if key[0] == op['t']]:
                end_session(*key)
        elif k == 'disconnect':
            for key in [key for key, v in conn.items() if v == op['sid'] and key[1] == op['ns']]:
                end_session(*key)
        if k == 'call':
            return do_call(op, im, allowed)
        tok = None
        if k == 'emit' and op.get('cb') is not None:
            tok = op['cb']
            styles[tok] = op.get('cb_style')
        for tid, q in S.sent_packets(im):
            handle_wire(tid, q, tok)

    def do_call(op, im, allowed):
        seq[1] += 1
        me = 'call%d' % seq[1]
        if not cfg['asyncHandlers']:
            if im['exc'] != 'RuntimeError':
                fails.append((None, 'call() with async_handlers=False did not raise RuntimeError'))
            return
        nested = im.get('nested') or []
        # nested[0]: what call() itself sent before it started to wait; nested[1 + i]: during[i]
        for tid, q in (S.sent_packets(nested[0]) if nested else []):
            handle_wire(tid, q, me)
        if stats is not None and len(nested) > 1 and any(o['op'] in ('emit', 'call') for o in op['during']):
            bump('calls_with_emits_or_calls_to_the_same_client_issued_while_waiting')
        for o, no in zip(op['during'], nested[1:]):
            process(o, no, allowed)
        got = calldone.get(me)
        if got is None:
            calldone[me] = None        # timed out; an acknowledgement that comes later is dropped silently
            if im['exc'] != 'TimeoutError':
                fails.append((None, 'call() without acknowledgement returned %r / raised %r' % (im['result'], im['exc'])))
            mine = [key for key, v in out.items() if v[0] == me]
            for key in mine:
                for k2, v2 in out.items():
                    if k2[:2] == key[:2] and k2 != key:
                        late[k2] = ('acks_delivered_after_an_OLDER_call_to_the_same_client_timed_out'
                                    if v2[1] > out[key][1] else
                                    'acks_delivered_after_a_YOUNGER_call_to_the_same_client_timed_out')
                        bump('callbacks_outstanding_when_another_call_to_the_same_client_timed_out')
        else:
            want = None if len(got) == 0 else (got[0] if len(got) == 1 else tuple(got))
            have = im['result']
            if im['exc'] or not C.same(_l(have), _l(want)):
                fails.append((None, 'call() returned %r (exc %r), acknowledged arguments were %r' % (have, im['exc'], got)))

    for op, im, _mo in trace:
        allowed = []
        process(op, im, allowed)
        acked = list(allowed)
        want = []
        # every callback the library called must be allowed, with exactly the acknowledged arguments, once
        for tokf, args in im['callbacks']:
            hit = [a for a in allowed if a[0] == tokf and C.same(_l(a[1]), _l(list(args)))]
            if not hit:
                fails.append((None, 'callback %r was called with %r but no matching acknowledgement from the right client '
                                    'was processed (op %s; acknowledged here: %r)' % (tokf, args, op['op'], acked)))
            else:
                allowed.remove(hit[0])
                if accepts(styles.get(tokf), len(hit[0][1])):
                    want.append(hit[0])
        for tokf, args in allowed:
            fails.append((None, 'the acknowledgement %r for callback %r was not delivered to it' % (args, tokf)))
        # the application function behind it: its body runs once per acknowledgement its signature takes, with exactly
        # the acknowledged arguments, and not at all when the signature does not take them
        for t, a in acked:
            st = styles.get(t) or {}
            bump('ack_to_callback.' + ('signature_does_not_take_the_acknowledged_arguments' if not accepts(st, len(a))
                                       else 'fits.' + {None: 'returns', 'TypeError': 'raises_TypeError_from_its_body'}.get(
                                           st.get('raises'), 'raises_another_class')))
        for tokf, args in im.get('cb_entered', []):
            hit = [a for a in want if a[0] == tokf and C.same(_l(a[1]), _l(list(args)))]
            if not hit:
                fails.append((None, 'the body of callback %r (signature %r) ran with %r; acknowledged in this step: %r'
                              % (tokf, styles.get(tokf), args, acked)))
            else:
                want.remove(hit[0])
        for tokf, args in want:
            fails.append((None, 'callback %r was called for the acknowledgement %r but its body never ran' % (tokf, args)))
    return fails


def _l(v):
    if isinstance(v, (list, tuple)):
        return [_l(x) for x in v]
    if isinstance(v, dict):
        return {k: _l(x) for k, x in v.items()}
    return v


_CTX = [None]


def nontrivial(cfg, trace):
    stats = {}
    judge(cfg, trace, stats)
    for key, v in stats.items():
        _CTX[0].count(key, v)
    cbs = sum(len(im['callbacks']) for _, im, _ in trace)
    acks = sum(1 for op, _, _ in trace if op['op'] == 'frame' and op['text'][:1] in '36')
    if cbs >= 2 and acks > cbs:
        return hash(repr([o for o, _, _ in trace]))
    return None


# ---------------------------------------------------------------- generation (on top of the K4 scenario generator)

ARITIES = {'*': 8, 'opt': 2, 0: 2, 1: 4, 2: 3, 3: 1}
ENDINGS = {None: 11, 'TypeError': 4, 'HandlerError': 2, 'ValueError': 1, 'KeyError': 1, 'AttributeError': 1}


def gen_style(rng):
    return {'arity': SG.weighted(rng, ARITIES), 'raises': SG.weighted(rng, ENDINGS)}


def _ack_ops(rng, t, ns, i):
    if rng.random() < 0.3:
        # exactly one falsy-but-meaningful value: call() must return it, not None
        args = [rng.choice([0, 0.0, False, '', [], {}])]
    else:
        args = [G.gen_value(rng, 1, 0.2) for _ in range(rng.randint(0, 3))]
    return [{'op': 'frame', 't': t, 'text': f} if isinstance(f, str) else {'op': 'frameval', 't': t, 'v': f}
            for f in pycodec.encode(3, ns, i, args)]


def hook(sc, cfg):
    rng = sc.rng
    if rng.random() < 0.6:
        cfg['asyncHandlers'] = True
    sc.last_id = {}           # (t, ns) -> last ack id the server used towards the session now connected there
    base_learn, base_emit, base_call = sc.learn, sc.g_emit, sc.g_call

    def learn(op, obs):
        base_learn(op, obs)
        for tid, frames in obs['sends'].items():
            try:
                pkts = pycodec.decode_stream(frames)
            except Exception:   # noqa
                continue
            for p in pkts:
                if p['type'] == 0:
                    sc.last_id[(tid, p['ns'])] = 0
                elif p['type'] in (2, 5) and p['id'] is not None:
                    sc.last_id[(tid, p['ns'])] = p['id']
        for key in [tuple(k) for k in op.get('_acked', [])]:
            if key in sc.outstanding:
                sc.outstanding.remove(key)
                sc.used_ack.append(key)

    def g_emit(cb=False):
        op = base_emit(cb=cb)
        if op is not None and op.get('cb') is not None:
            op['cb_style'] = gen_style(rng)
        return op

    def inner_emit(ns, sid):
        op = {'op': 'emit', 'ev': rng.choice(SG.EVENTS), 'data': SG.gen_ret(rng), 'ns': ns, 'to': {'one': sid},
              'skip': [], 'cb': sc.next_cb, 'cb_style': gen_style(rng)}
        sc.next_cb += 1
        return op

    def g_call():
        """call() to a client; while it waits, the application emits with callbacks / issues further call()s to the
        SAME client, and the client acknowledges some of the ids while the call still waits, some after it has
        returned (timed out, unless its own id was among the former), some never"""
        if rng.random() < 0.3 or not sc.conn:
            return base_call()
        (t, ns), sid = rng.choice(list(sc.conn.items()))
        nxt = sc.last_id.get((t, ns), 0) + 1         # the id the server is expected to use next for this session
        unacked = [nxt]                              # the call's own id first
        during, acked = [], []

        def maybe_ack(p):
            if unacked and rng.random() < p:
                i = unacked.pop(rng.randrange(len(unacked)))
                acked.append([t, ns, i])
                return _ack_ops(rng, t, ns, i)
            return []

        for _ in range(rng.randint(1, 3)):
            r = rng.random()
            nxt += 1
            if r < 0.7:
                during.append(inner_emit(ns, sid))
                unacked.append(nxt)
            elif r < 0.8 and len(sc.conn) > 1:
                # ... to another session (its ids are its own)
                (t2, ns2), sid2 = rng.choice([kv for kv in sc.conn.items() if kv[0] != (t, ns)])
                during.append(inner_emit(ns2, sid2))
                nxt -= 1
            else:
                # a second call() to the same client while the first one waits
                inner = []
                own = nxt
                r2 = rng.random()
                if r2 < 0.3:
                    inner += _ack_ops(rng, t, ns, own)               # answered: returns while the outer one waits
                    acked.append([t, ns, own])
                elif r2 < 0.5:
                    nxt += 1
                    inner.append(inner_emit(ns, sid))
                    unacked += [own, nxt]
                    inner += maybe_ack(0.5)
                else:
                    unacked.append(own)                              # times out before the outer one does
                    inner += maybe_ack(0.3)
                during.append({'op': 'call', 'ev': rng.choice(SG.EVENTS), 'data': SG.gen_ret(rng), 'ns': ns,
                               'sid': sid, 'during': inner})
            during += maybe_ack(0.3)
        after = []
        rng.shuffle(unacked)
        for _ in range(len(unacked)):
            after += maybe_ack(0.75)
        sc.pending_frames = after + sc.pending_frames
        return {'op': 'call', 'ev': rng.choice(SG.EVENTS), 'data': SG.gen_ret(rng), 'ns': ns, 'sid': sid,
                'during': during, '_acked': acked}

    sc.learn, sc.g_emit, sc.g_call = learn, g_emit, g_call


def run(ctx):
    _CTX[0] = ctx
    C.proof_step(ctx, ['call(): the wait primitive (eio.create_event().wait) is scripted: the nested inputs run while the caller waits'])
    C.audit_extra(ctx, 'GlueServer', ['call_timeouts'])
    S.run_cases(ctx, PROFILE, ctx.scale(150, 3000), 70, oracle=oracle, nontrivial=nontrivial, gen_hook=hook)
    # duplicate ACKs delivered while the first invocation of the callback is still running (oracle only)
    from . import c06_overlap
    c06_overlap.run(ctx)
    ctx.coverage['rule'] = ('emits with callbacks / call() to individual clients on several namespaces interleaved with ACK and '
                            'BINARY_ACK packets from any client with correct, duplicate, never-issued, other-client, '
                            'other-namespace and 0 ids, disconnects and reconnects in between; application callbacks with '
                            'fixed signatures (0-3 parameters, optional parameters, *args) that the acknowledged argument '
                            'count fits or not, returning or raising (TypeError from their own body among the classes): the '
                            'library\'s call attempts and the entries into the body are both recorded; while a call() waits the '
                            'application emits with callbacks and issues further call()s to the same client, acknowledged '
                            'while it waits / after it timed out / never; both server families + model; '
                            'non-trivial = >=2 callbacks delivered and more ACK frames than deliveries')


def replay(ctx, r):
    oc = r.get('replay', {}).get('overlap') or r.get('overlap')
    if oc:
        from . import c06_overlap
        bad = c06_overlap.run_case(oc)
        print('overlapping-delivery case:', json.dumps(oc))
        print('oracle:', 'violations: %s' % bad if bad else 'holds')
        return 1 if bad else 0
    return S.replay_case(ctx, r, oracle=oracle)
