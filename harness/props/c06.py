"""C06 — server-initiated acknowledgements (K4)."""
from .. import common as C
from .. import server_sim as S

LEVEL = 'proof'

PROFILE = {
    'weights': {'open': 2, 'connect': 6, 'client_disconnect': 1, 'event': 1, 'ack': 14, 'emit': 1, 'emit_cb': 12,
                'call': 3, 'api_disconnect': 1, 'enter': 0, 'leave': 0, 'close': 0, 'rooms': 0, 'lost': 2,
                'partial_binary': 0},
    'connect_outcomes': {'accept': 9, 'false': 1, 'refuse': 0, 'raise': 0},
    'burst_acks': True,
}


def oracle(cfg, trace, residue):
    fails = []
    conn = {}                 # (tid, ns) -> sid
    out = {}                  # (tid, ns, id) -> token       outstanding callbacks, from the wire
    cf = S.ClientFrames()

    def handle_wire(tid, q, tok):
        if q['type'] == 0 and isinstance(q['data'], dict):
            conn[(tid, q['ns'])] = q['data']['sid']
        elif q['type'] == 1:
            conn.pop((tid, q['ns']), None)
            for k in [k for k in out if k[0] == tid and k[1] == q['ns']]:
                del out[k]
        elif q['type'] in (2, 5) and q['id'] is not None:
            key = (tid, q['ns'], q['id'])
            if key in out:
                fails.append((None, 'ack id %r reused while still outstanding for %s on %s' % (q['id'], tid, q['ns'])))
            out[key] = tok

    def end_session(t, ns):
        conn.pop((t, ns), None)
        for k in [k for k in out if k[0] == t and k[1] == ns]:
            del out[k]

    def client_packet(op, im, allowed):
        """processes what the client sent in `op`; `allowed` collects (tok, args) that may fire"""
        p = cf.feed(op)
        if isinstance(p, dict) and p['type'] in (3, 6) and isinstance(p['data'], list):
            key = (op['t'], p['ns'], p['id'])
            if key in out and (op['t'], p['ns']) in conn:
                allowed.append((out.pop(key), list(p['data'])))
        elif isinstance(p, dict) and p['type'] == 1:
            end_session(op['t'], p['ns'])

    for op, im, _mo in trace:
        allowed = []
        if op['op'] in ('frame', 'frameval'):
            client_packet(op, im, allowed)
        elif op['op'] == 'burst':
            for f in op['frames']:
                client_packet(f, im, allowed)
        elif op['op'] == 'call':
            pass
        elif op['op'] == 'lost':
            cf.drop(op['t'])
            for k in [k for k in conn if k[0] == op['t']]:
                end_session(*k)
        elif op['op'] == 'disconnect':
            for k in [k for k, v in conn.items() if v == op['sid'] and k[1] == op['ns']]:
                end_session(*k)
        tok = op.get('cb') if op['op'] == 'emit' else ('call' if op['op'] == 'call' else None)
        for tid, q in S.sent_packets(im):
            handle_wire(tid, q, tok)
        if op['op'] == 'call':
            # nested ops ran while call() was waiting
            got = None
            for o in (op['during'] if cfg['asyncHandlers'] else []):
                if o['op'] in ('frame', 'frameval'):
                    a2 = []
                    client_packet(o, im, a2)
                    for t2, args in a2:
                        if t2 == 'call':
                            got = args
                        else:
                            allowed.append((t2, args))
                elif o['op'] == 'lost':
                    cf.drop(o['t'])
                    for k in [k for k in conn if k[0] == o['t']]:
                        end_session(*k)
            if not cfg['asyncHandlers']:
                if im['exc'] != 'RuntimeError':
                    fails.append((None, 'call() with async_handlers=False did not raise RuntimeError'))
            elif got is None:
                if im['exc'] != 'TimeoutError':
                    fails.append((None, 'call() without acknowledgement returned %r / raised %r' % (im['result'], im['exc'])))
            else:
                want = None if len(got) == 0 else (got[0] if len(got) == 1 else tuple(got))
                have = im['result']
                if im['exc'] or not C.same(_l(have), _l(want)):
                    fails.append((None, 'call() returned %r (exc %r), acknowledged arguments were %r' % (have, im['exc'], got)))
        # every callback that fired must be allowed, with exactly the acknowledged arguments, once
        fired = list(im['callbacks'])
        for tokf, args in fired:
            hit = [a for a in allowed if a[0] == tokf and C.same(_l(a[1]), _l(list(args)))]
            if not hit:
                fails.append((None, 'callback %r fired with %r but no matching acknowledgement from the right client was processed (op %s)' % (tokf, args, op['op'])))
            else:
                allowed.remove(hit[0])
        for tokf, args in allowed:
            if tokf != 'call':
                fails.append((None, 'acknowledgement for callback %r was not delivered to it' % (tokf,)))
    return fails


def _l(v):
    if isinstance(v, (list, tuple)):
        return [_l(x) for x in v]
    if isinstance(v, dict):
        return {k: _l(x) for k, x in v.items()}
    return v


def nontrivial(cfg, trace):
    cbs = sum(len(im['callbacks']) for _, im, _ in trace)
    acks = sum(1 for op, _, _ in trace if op['op'] == 'frame' and op['text'][:1] in '36')
    if cbs >= 2 and acks > cbs:
        return hash(repr([o for o, _, _ in trace]))
    return None


def hook(sc, cfg):
    if sc.rng.random() < 0.6:
        cfg['asyncHandlers'] = True


def run(ctx):
    C.proof_step(ctx, ['call(): the wait primitive (eio.create_event().wait) is scripted: the nested inputs run while the caller waits'])
    C.audit_extra(ctx, 'GlueServer', ['call_timeouts'])
    S.run_cases(ctx, PROFILE, ctx.scale(150, 3000), 70, oracle=oracle, nontrivial=nontrivial, gen_hook=hook)
    ctx.coverage['rule'] = ('emits with callbacks / call() to individual clients on several namespaces interleaved with ACK and '
                            'BINARY_ACK packets from any client with correct, duplicate, never-issued, other-client, '
                            'other-namespace and 0 ids, disconnects and reconnects in between; both server families + model; '
                            'non-trivial = >=2 callbacks delivered and more ACK frames than deliveries')


def replay(ctx, r):
    return S.replay_case(ctx, r, oracle=oracle)
