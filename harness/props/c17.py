"""C17 — class-based namespace helpers use their own namespace and forward every argument (K11).

The Lean side proves `Faithful` for every row of a table that `harness/translate_forward.py`
regenerates from the source on every run, and that a faithful row forwards every argument for every
environment.  This module (a) rebuilds and audits that, (b) validates the translator: every helper of
the four real classes is EXECUTED on a recording stub server/client for every subset of its optional
arguments, with sentinel and falsy values, positionally and by keyword, and the call that reaches
the stub must equal `eval row env` of the model, and (c) evaluates the property oracle — coded here
from the statement, using only the run-time signatures — on the same executions.
"""
import asyncio
import inspect
import itertools
import json

from .. import common as C
from .. import regen

LEVEL = 'proof'

SERVER_HELPERS = ['emit', 'send', 'call', 'enter_room', 'leave_room', 'close_room', 'rooms',
                  'get_session', 'save_session', 'session', 'disconnect']
CLIENT_HELPERS = ['emit', 'send', 'call', 'disconnect']
# class -> (helpers, peer attribute, setter, peer class name)
CLASSES = {
    'Namespace': (SERVER_HELPERS, 'server', '_set_server', 'Server'),
    'AsyncNamespace': (SERVER_HELPERS, 'server', '_set_server', 'AsyncServer'),
    'ClientNamespace': (CLIENT_HELPERS, 'client', '_set_client', 'Client'),
    'AsyncClientNamespace': (CLIENT_HELPERS, 'client', '_set_client', 'AsyncClient'),
}
FALSY = ['0', "''", '[]', 'None', 'False']
REG_NAMESPACES = ['/reg', '/', None, '/a/b', '/é']
NMIX = [1]          # random sentinel/falsy mixes per subset (thorough: 12)


def sio_mod():
    import socketio
    return socketio


class Sentinel:
    def __init__(self, name):
        self.name = name

    def __repr__(self):
        return '<sentinel %s>' % self.name


def make_value(desc):
    """desc: ['s', param] sentinel | ['f', i] falsy value number i | ['n', text] that namespace"""
    if desc[0] == 's':
        return '/explicit-ns' + chr(0x2603) if desc[1] == 'namespace' else Sentinel(desc[1])
    if desc[0] == 'n':                  # an explicit namespace value, e.g. the default namespace '/'
        return desc[1]
    return [0, '', [], None, False][desc[1]]


def make_result(i, name):
    """what the stub's method returns (case['ret']): the helper must hand back exactly this object"""
    return [Sentinel('result of ' + name), ['only'], ('only',), [['nested']], None, 0, '', [], False, (),
            {}, [None], (0,)][i]


N_RESULTS = 13


class Stub:
    """Stands for the server / client the namespace is registered with: records every method call."""

    # what a DATA attribute of the peer (`connected`, `namespaces`, `manager`, ... — anything that is not a method of
    # the real class) reads as: the helpers must forward whatever state the peer is in (property: "has exactly the
    # effect of the same-named method"); state 0 is the historical behaviour (a recording callable, truthy)
    STATES = (None, False, True, None, 0, {}, {'/': 'sid'})

    def __init__(self, real_cls, ret=0, state=0):
        self._real = real_cls
        self._ret = ret
        self._state = state
        self.calls = []
        self.results = []

    def __getattr__(self, name):
        if name.startswith('__'):
            raise AttributeError(name)
        real = getattr(self._real, name, None)
        if real is None and self._state:
            return self.STATES[self._state]
        result = make_result(self._ret, name)

        def rec(*args, **kwargs):
            self.calls.append((name, args, kwargs))
            self.results.append(result)
            return result

        async def arec(*args, **kwargs):
            return rec(*args, **kwargs)
        return arec if real is not None and inspect.iscoroutinefunction(real) else rec


def sig_params(fn):
    """[(name, has_default)] after self, exotic?"""
    sig = inspect.signature(fn)
    ps = list(sig.parameters.values())[1:]
    exotic = any(p.kind != p.POSITIONAL_OR_KEYWORD for p in ps)
    return [(p.name, p.default is not p.empty) for p in ps], exotic


def build_call(case):
    """-> (positional list, keyword dict, given {param: value})"""
    given = {p: make_value(d) for p, d in case['given']}
    order = [p for p, _ in case['given']]
    npos = case['npos']
    pos = [given[p] for p in order[:npos]]
    kw = {p: given[p] for p in order[npos:]}
    return pos, kw, given


def execute(case, loop):
    """Run the real helper on a recording stub. -> observation dict"""
    s = sio_mod()
    cname, helper = case['cls'], case['helper']
    _helpers, peer_attr, setter, peer_cls_name = CLASSES[cname]
    cls = getattr(s, cname)
    peer_cls = getattr(s, peer_cls_name)
    disp = case.get('dispatch') or []
    hook = {'fn': None, 'out': None, 'seen': []}
    if disp or 'dispatch' in case:
        cls = handling_class(cls, hook)
    obj = cls(case['reg'])
    stub = Stub(peer_cls, case.get('ret', 0), case.get('peer_state', 0))
    getattr(obj, setter)(stub)
    pos, kw, given = build_call(case)
    obs = {'given': given, 'obj': obj, 'stub': stub, 'exc': None, 'result_ok': None, 'bound': None,
           'method': None, 'ncalls': 0, 'ns_before': obj.namespace, 'ns_after': None, 'second': None,
           'returned': None, 'stub_returned': None, 'dispatched': None}
    try:
        inside = bool(case.get('inside')) and bool(disp)
        for k, ns in enumerate(disp):
            if inside and k == len(disp) - 1:       # the helper is called from the handler of the last event
                hook['fn'] = lambda: getattr(obj, helper)(*pos, **kw)
            dispatch_event(obj, cname, case['reg'], ns, k, loop)
        obs['dispatched'] = [list(map(repr, a)) for a in hook['seen']]
        if len(hook['seen']) != len(disp):
            raise RuntimeError('%d events dispatched through trigger_event, the handler method ran %d times'
                               % (len(disp), len(hook['seen'])))
        if inside:
            if hook['out'] is None:
                raise RuntimeError('the handler of the dispatched event did not call the helper')
            if hook['out'][0] == 'exc':
                raise hook['out'][1]
            r = hook['out'][1]
        else:
            fn = getattr(obj, helper)
            r = fn(*pos, **kw)
        if inspect.iscoroutine(r):          # what `await ns.helper(…)` gives the application
            r = loop.run_until_complete(r)
        if inspect.iscoroutine(r):          # an un-awaited inner coroutine: not the result; just dispose of it
            r.close()
    except Exception as ex:      # noqa
        obs['exc'] = '%s: %s' % (type(ex).__name__, str(ex)[:120])
        obs['ncalls'] = len(stub.calls)
        obs['ns_after'] = getattr(obj, 'namespace', '<no attribute>')
        return obs
    obs['ncalls'] = len(stub.calls)
    obs['ns_after'] = getattr(obj, 'namespace', '<no attribute>')
    if case.get('then'):
        obs['second'] = second_call(case, obj, stub, peer_cls, loop)
    if obs['ncalls'] == 1:
        name, args, kwargs = stub.calls[0]
        obs['method'] = name
        obs['result_ok'] = r is stub.results[0]
        obs['returned'], obs['stub_returned'] = repr(r)[:80], repr(stub.results[0])[:80]
        real_t = getattr(peer_cls, name, None)
        if real_t is None:
            obs['bound'] = None
            obs['exc'] = 'target %s.%s does not exist' % (peer_cls_name, name)
        else:
            try:
                ba = inspect.signature(real_t).bind(stub, *args, **kwargs)
                obs['bound'] = {k: v for k, v in ba.arguments.items() if k != 'self'}
            except TypeError as ex:
                obs['exc'] = 'call does not fit %s.%s: %s' % (peer_cls_name, name, ex)
    return obs


def handling_class(cls, hook):
    """subclass of the real namespace class with an `on_ev` handler method: records what `trigger_event` hands it and,
    when `hook['fn']` is armed, makes that call from INSIDE the handler (what an application's handler does)"""
    if inspect.iscoroutinefunction(cls.trigger_event):
        class Handling(cls):
            async def on_ev(self, *args):
                hook['seen'].append(args)
                fn, hook['fn'] = hook['fn'], None
                if fn is not None:
                    try:
                        r = fn()
                        if inspect.iscoroutine(r):
                            r = await r
                        hook['out'] = ('ok', r)
                    except Exception as ex:      # noqa
                        hook['out'] = ('exc', ex)
    else:
        class Handling(cls):
            def on_ev(self, *args):
                hook['seen'].append(args)
                fn, hook['fn'] = hook['fn'], None
                if fn is not None:
                    try:
                        hook['out'] = ('ok', fn())
                    except Exception as ex:      # noqa
                        hook['out'] = ('exc', ex)
    Handling.__name__ = cls.__name__
    return Handling


def dispatch_event(obj, cname, reg, ns, k, loop):
    """what the server / client does with an incoming event for this object (`_trigger_event`):
    `handler.trigger_event(event, *args)`, the concrete namespace prepended for a catch-all ('*') object
    (`_get_namespace_handler`)"""
    args = (['sid-%d' % k] if CLASSES[cname][1] == 'server' else []) + [{'n': k}]
    if reg == '*':
        args = [ns] + args
    r = obj.trigger_event('ev', *args)
    if inspect.iscoroutine(r):
        loop.run_until_complete(r)


def second_call(case, obj, stub, peer_cls, loop):
    """the follow-up call of a two-call sequence on the SAME namespace object: required arguments only,
    namespace omitted"""
    h2 = case['then']
    n0 = len(stub.calls)
    out = {'helper': h2, 'exc': None, 'bound': None, 'method': None, 'ncalls': 0, 'ns_after': None}
    try:
        fn = getattr(obj, h2)
        req = [p for p, d in sig_params(getattr(type(obj), h2))[0] if not d]
        r = fn(**{p: Sentinel('2nd ' + p) for p in req})
        if inspect.iscoroutine(r):
            r = loop.run_until_complete(r)
        if inspect.iscoroutine(r):
            r.close()
    except Exception as ex:      # noqa
        out['exc'] = '%s: %s' % (type(ex).__name__, str(ex)[:120])
        return out
    out['ncalls'] = len(stub.calls) - n0
    out['ns_after'] = getattr(obj, 'namespace', '<no attribute>')
    if out['ncalls'] == 1:
        name, args, kwargs = stub.calls[-1]
        out['method'] = name
        real_t = getattr(peer_cls, name, None)
        try:
            ba = inspect.signature(real_t).bind(stub, *args, **kwargs)
            out['bound'] = {k: v for k, v in ba.arguments.items() if k != 'self'}
        except Exception as ex:      # noqa
            out['exc'] = 'second call does not fit the target: %s' % ex
    return out


def same_ns(a, b):
    return type(a) is type(b) and a == b


def oracle(case, obs):
    """The statement, judged on the observation alone. -> list of complaints (empty = holds)"""
    s = sio_mod()
    cname, helper = case['cls'], case['helper']
    _h, _peer_attr, _setter, peer_cls_name = CLASSES[cname]
    bad = []
    if obs['exc']:
        return ['helper raised / call unusable: ' + obs['exc']]
    if obs['ncalls'] != 1:
        return ['%d calls reached the %s instead of one' % (obs['ncalls'], _peer_attr)]
    if obs['method'] != helper:
        bad.append('calls %s.%s instead of the same-named method' % (_peer_attr, obs['method']))
        return bad
    if not obs['result_ok']:
        bad.append('the result of the underlying method is not passed back unchanged: it returned %s, the '
                   'helper returned %s' % (obs['stub_returned'], obs['returned']))
    if not same_ns(obs['ns_after'], obs['ns_before']):
        bad.append('the call changed the namespace the object is registered for: .namespace was %r, is %r'
                   % (obs['ns_before'], obs['ns_after']))
    sec = obs.get('second')
    if sec is not None:
        if sec['exc']:
            bad.append('follow-up call %s() raised: %s' % (sec['helper'], sec['exc']))
        elif sec['ncalls'] != 1 or sec['method'] != sec['helper']:
            bad.append('follow-up call %s() made %d calls (%r)' % (sec['helper'], sec['ncalls'], sec['method']))
        else:
            got = sec['bound'].get('namespace', '<absent>')
            if not same_ns(got, case['reg'] or '/'):
                bad.append('after %s, %s() with the namespace omitted goes to %r '
                           'instead of the registered %r' % (
                               'handling events dispatched from %r' % (case['dispatch'],) if case.get('dispatch')
                               else 'a call with an explicit namespace', sec['helper'], got, case['reg'] or '/'))
            if not same_ns(sec['ns_after'], obs['ns_before']):
                bad.append('.namespace changed to %r after the follow-up call' % (sec['ns_after'],))
    tsig = inspect.signature(getattr(getattr(s, peer_cls_name), helper))
    tparams = [p for p in tsig.parameters if p != 'self']
    hparams = [p for p in inspect.signature(getattr(getattr(s, cname), helper)).parameters if p != 'self']
    bound, given = obs['bound'], obs['given']
    reg = case['reg'] or '/'
    for p in hparams:
        if p not in tparams:
            continue                            # vestigial parameter: outside the claim
        if p == 'namespace':
            if p in given and given[p]:
                if p not in bound or bound[p] is not given[p]:
                    bad.append('explicit namespace %r arrives as %r' % (given[p], bound.get(p, '<absent>')))
            else:                               # omitted (or falsy, which the library treats as omitted)
                if p not in bound or type(bound[p]) is not str or bound[p] != reg:
                    bad.append('omitted namespace arrives as %r instead of the registered %r'
                               % (bound.get(p, '<absent>'), reg))
        elif p in given:
            if p not in bound:
                bad.append('argument %s=%r is dropped' % (p, given[p]))
            elif bound[p] is not given[p]:
                bad.append('argument %s=%r arrives as %r' % (p, given[p], bound[p]))
        # omitted optional argument other than namespace: what it defaults to is not part of the claim
    for p, v in bound.items():
        if p in hparams:
            continue
        d = tsig.parameters[p].default
        if d is inspect.Parameter.empty or not (v is d or (type(v) is type(d) and v == d)):
            bad.append('target parameter %s, which the helper does not have, is set to %r' % (p, v))
    # a given argument must not show up under another name
    for p, v in given.items():
        if isinstance(v, Sentinel):
            for q, w in bound.items():
                if w is v and q != p:
                    bad.append('argument %s arrives as parameter %s' % (p, q))
    return bad


class Tokens:
    def __init__(self):
        self.objs = []

    def tok(self, o):
        for i, x in enumerate(self.objs):
            if x is o or (type(x) is type(o) and isinstance(o, (str, int, bool, type(None))) and x == o):
                return i + 1
        self.objs.append(o)
        return len(self.objs)

    def truthy(self):
        return [i + 1 for i, x in enumerate(self.objs) if x]


def model_op(case, obs, row):
    """env of the model = the values the helper's parameters have inside its body"""
    s = sio_mod()
    fn = getattr(getattr(s, case['cls']), case['helper'])
    pos, kw, _given = [], {}, obs['given']
    order = [p for p, _ in case['given']]
    pos = [obs['given'][p] for p in order[:case['npos']]]
    kw = {p: obs['given'][p] for p in order[case['npos']:]}
    tk = Tokens()
    try:
        ba = inspect.signature(fn).bind(obs['obj'], *pos, **kw)
        ba.apply_defaults()
        vals = [[C.s2w(k), tk.tok(v)] for k, v in ba.arguments.items() if k != 'self']
    except TypeError:
        vals = []
    self_ns = tk.tok(obs['obj'].namespace)
    consts = []
    for _b, e in row['call']:
        if 'const' in e:
            import ast as _ast
            try:
                consts.append([e['const'], tk.tok(_ast.literal_eval(C.w2s(e['const'])))])
            except Exception:      # noqa
                pass
    op = {'op': 'eval', 'cls': C.s2w(case['cls']), 'helper': C.s2w(case['helper']), 'val': vals,
          'selfNs': self_ns, 'const': consts}
    return op, tk


def observed_call(case, obs, tk, row):
    if obs['exc'] or obs['ncalls'] != 1 or obs['bound'] is None:
        return None
    tnames = [C.w2s(p[0]) for p in row['targetParams']]
    names = [n for n in tnames if n in obs['bound']] + [n for n in obs['bound'] if n not in tnames]
    return {'obj': CLASSES[case['cls']][1], 'method': obs['method'],
            'args': [[n, tk.tok(obs['bound'][n])] for n in names],
            'resultPassedBack': bool(obs['result_ok'])}


def model_call(ans):
    if ans is None:
        return None
    return {'obj': C.w2s(ans['obj']), 'method': C.w2s(ans['method']),
            'args': [[C.w2s(a), t] for a, t in ans['args']], 'resultPassedBack': ans['resultPassedBack']}


def describe(case):
    return {'cls': case['cls'], 'helper': case['helper'], 'reg': case['reg'], 'npos': case['npos'],
            'given': case['given'], 'order': case.get('order', 'helper'), 'ret': case.get('ret', 0),
            'peer_state': case.get('peer_state', 0),
            **({'dispatch': case['dispatch'], 'inside': bool(case.get('inside'))} if 'dispatch' in case else {}),
            'then': case.get('then'), 'underlying_method_returns': repr(make_result(case.get('ret', 0), case['helper'])),
            'call': ('events dispatched through trigger_event from namespaces %r, then %s: ' % (
                case['dispatch'], 'inside the handler of the last one' if case.get('inside') else 'afterwards')
                if case.get('dispatch') else '') + '%s(%r).%s(%s)' % (case['cls'], case['reg'], case['helper'], ', '.join(
                [repr(make_value(d)) for _p, d in case['given'][:case['npos']]] +
                ['%s=%r' % (p, make_value(d)) for p, d in case['given'][case['npos']:]])) + (
                '; then .%s(<required arguments>)' % case['then'] if case.get('then') else '')}


def cases_for(cname, helper, rng, counter):
    """every subset of the optional parameters x value patterns x passing styles"""
    s = sio_mod()
    fn = getattr(getattr(s, cname), helper, None)
    if fn is None:
        yield {'cls': cname, 'helper': helper, 'reg': '/reg', 'given': [], 'npos': 0}
        return
    params, _exotic = sig_params(fn)
    required = [p for p, d in params if not d]
    optional = [p for p, d in params if d]
    for k in range(len(optional) + 1):
        for sub in itertools.combinations(optional, k):
            names = [p for p, _ in params if p in required or p in sub]
            patterns = [[['s', p] for p in names]]
            for rot in range(5):
                patterns.append([['f', (i + rot) % 5] for i, _p in enumerate(names)])
            for _ in range(NMIX[0]):
                patterns.append([(['s', p] if rng.random() < 0.5 else ['f', rng.randrange(5)]) for p in names])
            # how many leading arguments can go positionally: the leading run of the signature
            maxpos = 0
            for p, _d in params:
                if maxpos < len(names) and names[maxpos] == p:
                    maxpos += 1
                else:
                    break
            for pat in patterns:
                given = [[p, d] for p, d in zip(names, pat)]
                for npos in sorted({0, maxpos, rng.randint(0, maxpos)}):
                    counter[0] += 1
                    yield {'cls': cname, 'helper': helper,
                           'reg': REG_NAMESPACES[counter[0] % len(REG_NAMESPACES)],
                           'ret': (counter[0] // 3) % N_RESULTS,
                           'peer_state': (counter[0] // 5) % len(Stub.STATES),
                           'given': given, 'npos': npos}


TWIN = {'Namespace': 'AsyncNamespace', 'AsyncNamespace': 'Namespace',
        'ClientNamespace': 'AsyncClientNamespace', 'AsyncClientNamespace': 'ClientNamespace'}


def documented_order_cases(cname, helper, counter):
    """Positional calls written for the DOCUMENTED parameter order: the order of the same-named method
    of the server / client class ('target'), and the order of the twin namespace class's helper
    ('twin').  The k-th positional value is meant for the k-th parameter of that signature; k runs
    while that parameter is shared by helper and target and no parameter that only the helper has
    (ClientNamespace.send's vestigial `room`) occupies an earlier position of the helper."""
    s = sio_mod()
    fn = getattr(getattr(s, cname), helper, None)
    tfn = getattr(getattr(s, CLASSES[cname][3]), helper, None)
    twin = getattr(getattr(s, TWIN[cname]), helper, None)
    if fn is None or tfn is None:
        return
    hparams = [p for p, _ in sig_params(fn)[0]]
    tparams = [p for p, _ in sig_params(tfn)[0]]
    required = [p for p, d in sig_params(fn)[0] if not d]
    orders = [('target', tparams)]
    if twin is not None:
        orders.append(('twin', [p for p, _ in sig_params(twin)[0]]))
    for label, intended in orders:
        k = 0
        while k < len(intended) and k < len(hparams) and intended[k] in hparams and \
                intended[k] in tparams and hparams[k] in tparams:
            k += 1
            names = intended[:k]
            if any(r not in names for r in required):
                continue                    # a call without a required argument is not a documented call
            for pat in ([['s', p] for p in names],
                        [['f', (i + k) % 5] for i, _p in enumerate(names)],
                        [['f', (i + k + 2) % 5] for i, _p in enumerate(names)]):
                counter[0] += 1
                yield {'cls': cname, 'helper': helper, 'order': label,
                       'reg': REG_NAMESPACES[counter[0] % len(REG_NAMESPACES)],
                       'given': [[p, d] for p, d in zip(names, pat)], 'npos': k}


def result_and_sequence_cases(cname, helper, counter):
    """(a) every kind of return value of the underlying method (one-element list / tuple, nested, None,
    falsy, …) for every helper; (b) two-call sequences on ONE namespace object: this helper with an
    explicit namespace override, then another helper with the namespace omitted."""
    s = sio_mod()
    fn = getattr(getattr(s, cname), helper, None)
    if fn is None:
        return
    params = sig_params(fn)[0]
    required = [p for p, d in params if not d]
    base = [[p, ['s', p]] for p in required]
    for ret in range(N_RESULTS):
        counter[0] += 1
        yield {'cls': cname, 'helper': helper, 'reg': REG_NAMESPACES[counter[0] % len(REG_NAMESPACES)],
               'ret': ret, 'given': base, 'npos': 0, 'order': 'result'}
    if 'namespace' not in [p for p, _ in params]:
        return
    # (c) explicit namespace overrides that are truthy but "look like a default": '/', the registered
    # namespace itself, another one — on objects registered for a non-default namespace; an explicit
    # namespace always wins, only an omitted / falsy one means the registered namespace
    for reg in ('/reg', '/a/b'):
        for val in ('/', '/other', reg, '/reg/sub', ' '):
            for npos in (0, len(required)):
                counter[0] += 1
                yield {'cls': cname, 'helper': helper, 'reg': reg, 'ret': counter[0] % N_RESULTS,
                       'given': base + [['namespace', ['n', val]]], 'npos': npos, 'order': 'override'}
    helpers = CLASSES[cname][0]
    with_ns = [h for h in helpers if getattr(getattr(s, cname), h, None) is not None and
               'namespace' in [p for p, _ in sig_params(getattr(getattr(s, cname), h))[0]]]
    seconds = sorted(set([helper] + with_ns[:2] + with_ns[-2:]), key=with_ns.index)
    # (d) the object first HANDLES events (real trigger_event, called as the server / client calls it: concrete
    # namespace prepended for a catch-all object) from 0, 1 or 2 different concrete namespaces; then — inside the
    # handler of the last event, or afterwards — the helper is called with the namespace omitted (or explicit), and
    # then a second helper with the namespace omitted: "the namespace the object was registered for" does not
    # depend on what the object has handled
    for reg in ('*', '*', REG_NAMESPACES[counter[0] % len(REG_NAMESPACES)]):
        for disp in ([], ['/chat'], ['/chat', '/other'], ['/other', '/chat', '/other']):
            for inside in ((False, True) if disp else (False,)):
                counter[0] += 1
                explicit = counter[0] % 4 == 0
                yield {'cls': cname, 'helper': helper, 'reg': reg, 'ret': counter[0] % N_RESULTS,
                       'given': base + ([['namespace', ['s', 'namespace']]] if explicit else []),
                       'npos': (0, len(required))[counter[0] % 2], 'order': 'dispatched',
                       'dispatch': disp, 'inside': inside, 'then': seconds[counter[0] % len(seconds)]}
    for h2 in seconds:
        for npos in (0, len(required)):
            counter[0] += 1
            yield {'cls': cname, 'helper': helper, 'reg': REG_NAMESPACES[counter[0] % len(REG_NAMESPACES)],
                   'ret': counter[0] % N_RESULTS, 'given': base + [['namespace', ['s', 'namespace']]],
                   'npos': npos, 'order': 'sequence', 'then': h2}


# ---------------------------------------------------------------------------------------------
# Registration part (oracle-only): the REAL `register_namespace` of the four real peers.
# "the namespace the object was registered for" (the key under which the peer files the object and
# dispatches to it) and "the namespace its helpers use when the namespace is omitted" must be the
# same string, for every name `register_namespace` accepts.

# peer class -> (namespace class, helpers, attribute of the object that holds the peer)
PEERS = {
    'Server': ('Namespace', SERVER_HELPERS, 'server'),
    'AsyncServer': ('AsyncNamespace', SERVER_HELPERS, 'server'),
    'Client': ('ClientNamespace', CLIENT_HELPERS, 'client'),
    'AsyncClient': ('AsyncClientNamespace', CLIENT_HELPERS, 'client'),
}
# every one of these is accepted by the real register_namespace of the unchanged tree (it accepts any name)
REG_REAL_NAMES = REG_NAMESPACES + [
    'chat', '/chat', 'a/b', 'é', '/chat/', 'chat/', '//', '//x', ' ', ' /lead', '/trail ', '/Chat', 'CHAT',
    '/a b', '*', '/*', '*x', '', '/x?y=1', '/x,y', 'x,y', '/' + chr(0x2603), chr(0x2603), '/0', '0', '/\n', '\\chat',
]


DISPATCH_FROM = ['/c17-chat', '/c17-other']      # concrete namespaces no object is registered for


def reg_effective(name):
    return name or '/'


def reg_cases(ctx):
    """every peer x every name alone (exhaustive), plus random groups of 2-4 objects on ONE peer (names with
    pairwise different effective namespaces, in random order; sometimes one object registered twice)"""
    rng = ctx.rng
    for peer in PEERS:
        for name in REG_REAL_NAMES:
            yield {'peer': peer, 'names': [name], 'again': None}
        for name in ('*', '/reg', None, 'chat'):
            for nd in (1, 2, 3):
                yield {'peer': peer, 'names': [name], 'again': None, 'dispatch': nd}
        for _ in range(ctx.scale(12, 120)):
            pool = list(REG_REAL_NAMES)
            rng.shuffle(pool)
            names, seen = [], set()
            for n in pool:
                if reg_effective(n) not in seen:
                    seen.add(reg_effective(n))
                    names.append(n)
                if len(names) == rng.randint(2, 4):
                    break
            if '*' not in names and rng.random() < 0.4:
                names[rng.randrange(len(names))] = '*'
            yield {'peer': peer, 'names': names,
                   'again': rng.randrange(len(names)) if rng.random() < 0.3 else None,
                   'dispatch': rng.randrange(4)}


def reg_keys(peer, obj):
    return [k for k, v in peer.namespace_handlers.items() if v is obj]


def reg_execute(case, loop):
    """real peer, real register_namespace; then the peer's same-named methods are wrapped by recorders (instance
    attributes of the REAL peer) and every helper is called with required arguments only. -> observation"""
    s = sio_mod()
    peer_cls = getattr(s, case['peer'])
    ns_cname, helpers, attr = PEERS[case['peer']]
    ns_cls = getattr(s, ns_cname)
    peer = peer_cls()
    out = {'objects': [], 'rejected': [], 'handled': []}
    objs = []
    handled = out['handled']

    class Handling(ns_cls):
        def on_ev(self, *args):
            handled.append([self.c17_name, list(args)])
    Handling.__name__ = ns_cls.__name__
    for name in case['names']:
        try:
            obj = Handling(name)
            obj.c17_name = name
            peer.register_namespace(obj)
        except Exception as ex:      # noqa — a name the library refuses is outside the domain
            out['rejected'].append([name, type(ex).__name__])
            continue
        objs.append((name, obj))
    if case.get('again') is not None and case['again'] < len(objs):
        try:
            peer.register_namespace(objs[case['again']][1])
        except Exception as ex:      # noqa
            out['rejected'].append([objs[case['again']][0], 'again: ' + type(ex).__name__])
    # events arrive before the helpers are used: through the peer's real `_trigger_event(event, namespace, *args)`,
    # for an ordinary object on the key it is filed under, for a catch-all object on concrete namespaces nobody
    # registered (DISPATCH_FROM); what the handler methods received is judged by the oracle too
    out['expected_handled'] = []
    for k in range(case.get('dispatch') or 0):
        for name, obj in objs:
            keys = reg_keys(peer, obj)
            if len(keys) != 1:
                continue
            ns = DISPATCH_FROM[k % len(DISPATCH_FROM)] if keys[0] == '*' else keys[0]
            args = (['sid-%d' % k] if attr == 'server' else []) + [{'n': k}]
            try:
                r = peer._trigger_event('ev', ns, *args)
                if inspect.iscoroutine(r):
                    loop.run_until_complete(r)
            except Exception as ex:      # noqa
                out['rejected'].append([name, 'dispatch: ' + type(ex).__name__])
            out['expected_handled'].append([name, ([ns] if keys[0] == '*' else []) + args])
    calls = []

    def recorder(hname, real):
        def rec(*a, **k):
            calls.append((hname, a, k))
            return None

        async def arec(*a, **k):
            return rec(*a, **k)
        return arec if inspect.iscoroutinefunction(real) else rec
    for h in helpers:
        real = getattr(peer_cls, h, None)
        if real is not None:
            setattr(peer, h, recorder(h, real))
    for name, obj in objs:
        o = {'name': name, 'namespace_attr': getattr(obj, 'namespace', '<no attribute>'),
             'keys': reg_keys(peer, obj), 'peer_is_set': getattr(obj, attr, None) is peer, 'helpers': {}}
        for h in helpers:
            fn = getattr(type(obj), h, None)
            real = getattr(peer_cls, h, None)
            if fn is None or real is None:
                continue
            if 'namespace' not in inspect.signature(real).parameters:
                continue                    # (ClientNamespace.disconnect: the target has no namespace)
            req = [p for p, d in sig_params(fn)[0] if not d]
            del calls[:]
            try:
                r = getattr(obj, h)(**{p: Sentinel(p) for p in req})
                if inspect.iscoroutine(r):
                    r = loop.run_until_complete(r)
                if inspect.iscoroutine(r):
                    r.close()
            except Exception as ex:      # noqa
                o['helpers'][h] = {'exc': '%s: %s' % (type(ex).__name__, str(ex)[:100])}
                continue
            if len(calls) != 1 or calls[0][0] != h:
                o['helpers'][h] = {'exc': 'made the calls %r' % ([c[0] for c in calls],)}
                continue
            try:
                ba = inspect.signature(real).bind(peer, *calls[0][1], **calls[0][2])
                o['helpers'][h] = {'namespace': ba.arguments.get('namespace', '<absent>')}
            except TypeError as ex:
                o['helpers'][h] = {'exc': 'call does not fit: %s' % ex}
        out['objects'].append(o)
    return out


def reg_oracle(case, out):
    bad = []
    if out.get('expected_handled') is not None and out['handled'] != out['expected_handled']:
        bad.append('events dispatched through the real %s._trigger_event reached the handler methods as %r, '
                   'expected %r' % (case['peer'], out['handled'][:4], out['expected_handled'][:4]))
    for o in out['objects']:
        keys = o['keys']
        who = '%s(%r) registered with the real %s.register_namespace' % (PEERS[case['peer']][0], o['name'], case['peer'])
        if not o['peer_is_set']:
            bad.append('%s: its .%s is not that %s' % (who, PEERS[case['peer']][2], case['peer']))
        if len(keys) != 1:
            bad.append('%s is reachable under %d keys %r of namespace_handlers instead of exactly one'
                       % (who, len(keys), keys))
            continue
        key = keys[0]
        if not same_ns(key, o['namespace_attr']):
            bad.append('%s is filed under %r (the namespace it is registered for) but its .namespace, the helpers\' '
                       'fallback, is %r' % (who, key, o['namespace_attr']))
        wrong = {}
        for h, r in o['helpers'].items():
            if 'exc' in r:
                bad.append('%s: %s() with the namespace omitted: %s' % (who, h, r['exc']))
            elif not same_ns(r['namespace'], key):
                wrong.setdefault(repr(r['namespace']), []).append(h)
        for got, hs in wrong.items():
            bad.append('%s is registered for %r, but%s with the namespace omitted %s go to %s'
                       % (who, key, ' after handling %d dispatched event(s)' % case['dispatch']
                          if case.get('dispatch') else '', ', '.join(hs), got))
    return bad


def wire_addressable(s, key):
    """can a client name this namespace in a packet? (judged by the real codec: encode, decode, same namespace)"""
    try:
        enc = s.packet.Packet(s.packet.CONNECT, namespace=key).encode()
        dec = s.packet.Packet(encoded_packet=enc)
        return isinstance(enc, str) and (dec.namespace or '/') == key and dec.packet_type == s.packet.CONNECT \
            and not dec.data
    except Exception:      # noqa
        return False


def e2e_execute(case):
    """real Server / AsyncServer on in-memory transports: the object is registered with the real register_namespace,
    a client CONNECTs to the key the object is filed under and sends an event; the object's methods call helpers with
    the namespace omitted. -> observation"""
    from .. import world as W
    s = sio_mod()
    is_async = case['mode'] == 'asyncio'
    seen = {'connect': [], 'ev': [], 'errors': []}

    if is_async:
        class Obj(s.AsyncNamespace):
            async def on_connect(self, sid, environ):
                seen['connect'].append(sid)
                try:
                    await self.emit('from-connect', {'n': 0}, to=sid)
                except Exception as ex:      # noqa
                    seen['errors'].append('emit in on_connect: %r' % ex)

            async def on_ev(self, sid, *data):
                seen['ev'].append(sid)
                for what in ('enter_room', 'rooms', 'emit-to', 'emit-all', 'send', 'save_session', 'get_session'):
                    try:
                        if what == 'enter_room':
                            await self.enter_room(sid, 'lobby')
                        elif what == 'rooms':
                            seen['rooms'] = list(self.rooms(sid))
                        elif what == 'emit-to':
                            await self.emit('reply', {'n': 1}, to=sid)
                        elif what == 'emit-all':
                            await self.emit('all', {'n': 2})
                        elif what == 'send':
                            await self.send('msg', room='lobby')
                        elif what == 'save_session':
                            await self.save_session(sid, {'k': 'v'})
                        else:
                            seen['session'] = await self.get_session(sid)
                    except Exception as ex:      # noqa
                        seen['errors'].append('%s in on_ev: %r' % (what, ex))
    else:
        class Obj(s.Namespace):
            def on_connect(self, sid, environ):
                seen['connect'].append(sid)
                try:
                    self.emit('from-connect', {'n': 0}, to=sid)
                except Exception as ex:      # noqa
                    seen['errors'].append('emit in on_connect: %r' % ex)

            def on_ev(self, sid, *data):
                seen['ev'].append(sid)
                for what in ('enter_room', 'rooms', 'emit-to', 'emit-all', 'send', 'save_session', 'get_session'):
                    try:
                        if what == 'enter_room':
                            self.enter_room(sid, 'lobby')
                        elif what == 'rooms':
                            seen['rooms'] = list(self.rooms(sid))
                        elif what == 'emit-to':
                            self.emit('reply', {'n': 1}, to=sid)
                        elif what == 'emit-all':
                            self.emit('all', {'n': 2})
                        elif what == 'send':
                            self.send('msg', room='lobby')
                        elif what == 'save_session':
                            self.save_session(sid, {'k': 'v'})
                        else:
                            seen['session'] = self.get_session(sid)
                    except Exception as ex:      # noqa
                        seen['errors'].append('%s in on_ev: %r' % (what, ex))
    w = W.ServerWorld(case['mode'])
    out = {'keys': None, 'addressable': False, 'seen': seen, 'packets': [], 'accepted': None}
    try:
        others = [Obj(n) for n in case.get('others', [])]
        obj = Obj(case['name'])
        for o in others[:len(others) // 2] + [obj] + others[len(others) // 2:]:
            w.sio.register_namespace(o)
        keys = reg_keys(w.sio, obj)
        out['keys'] = keys
        out['namespace_attr'] = obj.namespace
        if len(keys) != 1 or not wire_addressable(s, keys[0]):
            return out
        key = keys[0]
        out['addressable'] = True
        w.open('t1')
        w.recv('t1', s.packet.Packet(s.packet.CONNECT, namespace=key).encode())
        w.settle()
        first = W.decode_frames(w.sent('t1'))
        out['packets'] += first
        out['accepted'] = any(p[0] == s.packet.CONNECT and p[1] == key for p in first)
        if not out['accepted']:
            return out
        w.recv('t1', s.packet.Packet(s.packet.EVENT, data=['ev', 1], namespace=key).encode())
        w.settle()
        out['packets'] += W.decode_frames(w.sent('t1'))
        sid = seen['connect'][0] if seen['connect'] else None
        out['sid_rooms_at_key'] = w.api('rooms', sid, namespace=key) if sid else None
    finally:
        w.close()
    return out


def e2e_oracle(case, out):
    s = sio_mod()
    bad = []
    if not out['addressable']:
        return bad          # registry agreement is judged by the registration part; nothing to connect to here
    key = out['keys'][0]
    who = '%s(%r), filed under %r by the real register_namespace' % (
        'AsyncNamespace' if case['mode'] == 'asyncio' else 'Namespace', case['name'], key)
    if not out['accepted']:
        return ['%s: a client CONNECT to %r is refused: %r' % (who, key, out['packets'][:3])]
    seen = out['seen']
    if len(seen['connect']) != 1:
        return ['%s: CONNECT to %r accepted but on_connect of the object ran %d times' % (who, key, len(seen['connect']))]
    events = [(p[1], p[3][0]) for p in out['packets'] if p[0] == s.packet.EVENT and isinstance(p[3], list) and p[3]]
    for e in seen['errors']:
        bad.append('%s: helper with the namespace omitted, called from the object\'s own handler for a client of %r, '
                   'failed: %s' % (who, key, e))
    if (key, 'from-connect') not in events:
        bad.append('%s: emit(to=sid) from on_connect with the namespace omitted produced no packet on %r; the client '
                   'received %r' % (who, key, events))
    if len(seen['ev']) != 1:
        bad.append('%s: the event the client sent on %r reached on_ev %d times' % (who, key, len(seen['ev'])))
        return bad
    for name in ('reply', 'all', 'message'):
        if (key, name) not in events:
            bad.append('%s: emit/send %r from on_ev with the namespace omitted produced no packet on %r; the client '
                       'received %r' % (who, name, key, events))
    for ns, name in events:
        if ns != key:
            bad.append('%s: the client received %r on namespace %r' % (who, name, ns))
    if 'lobby' not in (seen.get('rooms') or []):
        bad.append('%s: rooms(sid) with the namespace omitted does not show the room just entered: %r'
                   % (who, seen.get('rooms')))
    rk = out.get('sid_rooms_at_key')
    if not rk or rk[0] != 'ok' or 'lobby' not in (rk[1] or []):
        bad.append('%s: after enter_room(sid, "lobby") with the namespace omitted the client is not in that room of '
                   '%r: %r' % (who, key, rk))
    if seen.get('session') != {'k': 'v'} and not any('session' in e for e in seen['errors']):
        bad.append('%s: get_session(sid) after save_session(sid, …), both with the namespace omitted, gives %r'
                   % (who, seen.get('session')))
    return bad


def e2e_cases(ctx):
    rng = ctx.rng
    for mode in ('threading', 'asyncio'):
        for name in REG_REAL_NAMES:
            pool = [n for n in REG_REAL_NAMES if reg_effective(n) != reg_effective(name) and n != '*']
            yield {'mode': mode, 'name': name, 'others': rng.sample(pool, rng.randint(0, 2))}


def run_registration(ctx, loop):
    s = sio_mod()
    n_reg = n_objs = n_helper_calls = n_e2e = n_e2e_conn = 0
    fails = e2e_fails = 0
    for case in reg_cases(ctx):
        out = reg_execute(case, loop)
        n_reg += 1
        n_objs += len(out['objects'])
        n_helper_calls += sum(len(o['helpers']) for o in out['objects'])
        ctx.count('registration.peer.' + case['peer'])
        if case.get('dispatch'):
            ctx.count('registration.events_handled_before_helpers.%s' % (
                'with_catch_all_object' if '*' in case['names'] else 'ordinary_objects_only'))
        for o in out['objects']:
            ctx.count('registration.name.' + ('default' if reg_effective(o['name']) == '/' else 'catch_all'
                                              if o['name'] == '*' else 'leading_slash' if o['name'].startswith('/')
                                              else 'no_leading_slash'))
        for name, why in out['rejected']:
            ctx.count('registration.rejected_out_of_domain')
        bad = reg_oracle(case, out)
        if bad:
            fails += 1
            if fails <= 6:
                ctx.violation('oracle', 'registration: ' + '; '.join(bad[:3]),
                              {'reg_case': case, 'complaints': bad[:12], 'observed': out['objects']})
    for case in e2e_cases(ctx):
        out = e2e_execute(case)
        n_e2e += 1
        ctx.count('registration.e2e.' + ('connected' if out['accepted'] else 'not_wire_addressable'
                                         if not out['addressable'] else 'refused'))
        n_e2e_conn += bool(out['accepted'])
        bad = e2e_oracle(case, out)
        if bad:
            fails += 1
            e2e_fails += 1
            if e2e_fails <= 6:
                ctx.violation('oracle', 'registration, end to end: ' + '; '.join(bad[:3]),
                              {'e2e_case': case, 'complaints': bad[:12], 'packets': repr(out['packets'])[:600],
                               'handler_saw': repr(out['seen'])[:400]})
    ctx.coverage['registration'] = {
        'level': 'oracle-only (no Lean kernel models the registry of class-based namespaces)',
        'register_namespace_scenarios': n_reg, 'objects_registered': n_objs,
        'helper_calls_with_namespace_omitted_on_wrapped_real_peer': n_helper_calls,
        'end_to_end_scenarios': n_e2e, 'end_to_end_client_connected_to_registry_key': n_e2e_conn,
        'names': REG_REAL_NAMES, 'oracle_failures': fails,
        'rule': 'real Server/AsyncServer/Client/AsyncClient().register_namespace(obj) for every name alone and random '
                'groups of 2-4 objects on one peer (one sometimes registered twice): obj is reachable under exactly one '
                'key of namespace_handlers, that key == obj.namespace, and every helper called with the namespace omitted '
                'passes that key to the (wrapped) real peer — also after 1-3 events were dispatched to the objects through '
                'the real _trigger_event (catch-all objects: from two concrete namespaces); end to end on ServerWorld (sync and asyncio): CONNECT to the '
                'key (when the real codec can carry it) is accepted, on_connect / on_ev of the object call emit, send, '
                'enter_room, rooms, save_session, get_session with the namespace omitted and the packets / membership / '
                'session appear on that same namespace',
    }
    return n_reg + n_e2e


def validate_rows(ctx, rows):
    """static part of translator validation: signatures in the table == run-time signatures"""
    s = sio_mod()
    w = C.w2s
    seen = set()
    for r in rows:
        cname, helper = w(r['cls']), w(r['helper'])
        seen.add((cname, helper))
        _h, peer_attr, _setter, peer_cls_name = CLASSES[cname]
        fn = getattr(getattr(s, cname), helper, None)
        if fn is None:
            continue
        live, exotic = sig_params(fn)
        table = [(w(p[0]), p[1]) for p in r['params']]
        if live != table or exotic != r['exotic'] or inspect.iscoroutinefunction(fn) != r['isAsync']:
            ctx.violation('correspondence', 'translator: signature of %s.%s in the table %r differs from the '
                          'live one %r' % (cname, helper, table, live),
                          {'row': [cname, helper], 'table': table, 'live': live}, no_input=True)
        tfn = getattr(getattr(s, peer_cls_name), w(r['targetMethod']) or helper, None)
        if tfn is not None and r['targetFound']:
            tlive, texotic = sig_params(tfn)
            ttable = [(w(p[0]), p[1]) for p in r['targetParams']]
            if tlive != ttable or texotic != r['targetExotic'] or \
                    inspect.iscoroutinefunction(tfn) != r['targetAsync']:
                ctx.violation('correspondence', 'translator: signature of %s.%s in the table %r differs from '
                              'the live one %r' % (peer_cls_name, w(r['targetMethod']), ttable, tlive),
                              {'row': [cname, helper], 'table': ttable, 'live': tlive}, no_input=True)
        elif (tfn is not None) != bool(r['targetFound']):
            ctx.violation('correspondence', 'translator: target of %s.%s found=%r but live=%r'
                          % (cname, helper, r['targetFound'], tfn is not None),
                          {'row': [cname, helper]}, no_input=True)
    for cname, (helpers, _a, _b, _c) in CLASSES.items():
        for h in helpers:
            if (cname, h) not in seen:
                ctx.violation('correspondence', 'translator: no row for %s.%s' % (cname, h),
                              {'row': [cname, h]}, no_input=True)


def prepare(ctx):
    try:
        regen.run(C.REPO)
    except regen.TranslatorError:
        pass


def run(ctx):
    gen_problem = None
    try:
        regen.run(C.REPO)
    except regen.TranslatorError as e:
        gen_problem = str(e)
    C.build_driver('forward')
    C.proof_step(ctx, ['translator harness/translate_forward.py (ast -> Sio/Generated/Forward.lean), validated on '
                       'every run: table signatures == inspect.signature of the live methods, and every helper '
                       'executed on a recording stub must make exactly the call `eval row env` predicts',
                       "Python's binding of a call to a signature (inspect.Signature.bind) and truthiness"])
    if gen_problem and 'Forward.lean' in gen_problem:
        ctx.violation('proof', 'translator cannot read the helpers: ' + gen_problem,
                      {'translator': gen_problem}, no_input=True)
    rows = C.batch('forward', [{'op': 'rows'}])[0]
    byname = {(C.w2s(r['cls']), C.w2s(r['helper'])): r for r in rows}
    validate_rows(ctx, rows)
    unfaithful = [k for k, r in byname.items() if not r['faithful']]
    if unfaithful:
        ctx.notes.append('rows the model does not find faithful: %r' % unfaithful)

    NMIX[0] = ctx.scale(1, 12)
    loop = asyncio.new_event_loop()
    counter = [0]
    n_exec = n_nontrivial = 0
    samples = []
    per_row = {}
    stats = {'oracle_fail': 0, 'model_fail': 0, 'model_none': 0}
    try:
        for cname, (helpers, _pa, _st, _pc) in CLASSES.items():
            for helper in helpers:
                row = byname.get((cname, helper))
                cases = list(cases_for(cname, helper, ctx.rng, counter)) + \
                    list(documented_order_cases(cname, helper, counter)) + \
                    list(result_and_sequence_cases(cname, helper, counter))
                obss, ops, toks = [], [], []
                for case in cases:
                    obs = execute(case, loop)
                    obss.append(obs)
                    if row is not None:
                        op, tk = model_op(case, obs, row)
                        toks.append(tk)
                        ops.append(op)
                # truthiness is known only after every value has a token
                answers = []
                if row is not None:
                    for op, tk, case, obs in zip(ops, toks, cases, obss):
                        if not obs['exc'] and obs['bound'] is not None:
                            for v in obs['bound'].values():
                                tk.tok(v)
                        op['truthy'] = tk.truthy()
                    answers = C.batch('forward', ops)
                per_row[cname + '.' + helper] = len(cases)
                for i, (case, obs) in enumerate(zip(cases, obss)):
                    n_exec += 1
                    ctx.count('cls.' + cname)
                    ctx.count('positional_order.' + case.get('order', 'helper'))
                    ctx.count('given_args.%d' % len(case['given']))
                    if 'dispatch' in case:
                        ctx.count('events_handled_before_call.%s.%d_namespaces%s' % (
                            'catch_all' if case['reg'] == '*' else 'ordinary', len(set(case['dispatch'])),
                            '.called_inside_handler' if case.get('inside') and case['dispatch'] else ''))
                    if any(d[0] == 'f' for _p, d in case['given']):
                        n_nontrivial += 1
                    complaints = oracle(case, obs)
                    rep = {'case': describe(case), 'reached_stub': repr(obs['stub'].calls)[:600],
                           'bound': repr(obs['bound'])[:600], 'exception': obs['exc']}
                    if complaints:
                        stats['oracle_fail'] += 1
                        if stats['oracle_fail'] <= 40:
                            ctx.violation('oracle', '%s.%s%s: %s' % (cname, helper, {
                                'target': ' called positionally in the parameter order of %s.%s' % (CLASSES[cname][3], helper),
                                'twin': ' called positionally in the parameter order of %s.%s' % (TWIN[cname], helper),
                            }.get(case.get('order'), ''), '; '.join(complaints[:3])),
                                          dict(rep, complaints=complaints))
                    if row is None:
                        continue
                    ans = answers[i]
                    want = model_call(ans['eval'])
                    got = observed_call(case, obs, toks[i], row)
                    if want is None:
                        stats['model_none'] += 1
                        continue
                    if got != want:
                        stats['model_fail'] += 1
                        if stats['model_fail'] <= 40:
                            ctx.violation('correspondence', 'Sio.Forward.eval differs from the call %s.%s makes '
                                          '(translator validation)' % (cname, helper),
                                          dict(rep, model=want, observed=got), no_input=not complaints)
                    if ans['faithful'] and model_call(ans['expected']) != want:
                        ctx.violation('correspondence', 'driver: eval != expected on a faithful row '
                                      '(contradicts C17.eval_faithful)', rep, no_input=True)
                    if len(samples) < 4 and len(case['given']) >= 4 and case['npos'] >= 1 and \
                            cname not in [x['cls'] for x in samples]:
                        samples.append({'cls': cname, 'call': describe(case)['call'],
                                        'reached': repr(obs['stub'].calls)[:300], 'model': want})
        n_registration = run_registration(ctx, loop)
    finally:
        loop.close()
    if stats['model_none'] and not any(v['kind'] == 'proof' for v in ctx.violations):
        ctx.violation('correspondence', 'the model could not evaluate %d executions although the theorems build'
                      % stats['model_none'], {'rows': unfaithful}, no_input=True)
    if ctx.thorough:
        ok, out = C.leanchecker(['Sio.Props.C17'])
        ctx.coverage['leanchecker'] = 'ok' if ok else out
        if not ok:
            ctx.violation('proof', 'leanchecker rejects Sio.Props.C17: ' + out[-800:], {'leanchecker': out[-800:]},
                          no_input=True)
    C.fold_proof_failures(ctx)
    if len(ctx.violations) > 10:
        seen, kept = set(), []
        for v in ctx.violations:
            c = v['replay'].get('case', {}) if isinstance(v['replay'], dict) else {}
            key = (v['kind'], v['no_input'], c.get('cls'), c.get('helper'), c.get('order') == 'sequence')
            if isinstance(v['replay'], dict) and ('reg_case' in v['replay'] or 'e2e_case' in v['replay']):
                rc = v['replay'].get('reg_case') or v['replay'].get('e2e_case')
                key = (v['kind'], 'reg_case' in v['replay'], rc.get('peer'), rc.get('mode'))
            if key not in seen:
                seen.add(key)
                kept.append(v)
        ctx.notes.append('%d violations recorded, %d kept (one per kind and helper)' % (len(ctx.violations), len(kept)))
        ctx.violations[:] = kept
    ctx.coverage.update({
        'exhaustive': True,
        'evaluations': n_exec, 'distinct_nontrivial': n_nontrivial,
        'rows': len(rows), 'executions_per_helper': per_row,
        'rule': 'every helper of the four classes x every subset of its optional parameters given explicitly x '
                '{all sentinels, five rotations of the falsy values 0, "", [], None, False, one random mix} x '
                '{all by keyword, longest positional prefix, random split}; plus positional calls of every length written '
                'in the parameter order of the target method and of the twin class; the stub returns each of %d kinds of '
                'result (one-element list/tuple, nested, None, falsy …) for every helper; two-call sequences on one object '
                '(explicit namespace, then a helper with the namespace omitted), .namespace compared after every call; '
                'objects registered for "*" and for an ordinary namespace that first handle events through the real '
                'trigger_event (called as the server / client calls it) from 0, 1, 2 concrete namespaces, the helper then '
                'called inside the handler of the last event or afterwards, and a second helper afterwards; '
                'explicit namespace overrides "/", "/other", the registered one, … on objects registered for a '
                'non-default namespace, for every helper with a namespace parameter; '
                'registered namespace rotates over ' % N_RESULTS + 
                '%r. non-trivial = at least one explicit falsy argument' % (REG_NAMESPACES,),
        'samples': samples, 'traces_validated_against_impl': n_exec,
        'registration_scenarios': n_registration,
        'oracle_failures': stats['oracle_fail'], 'model_disagreements': stats['model_fail'],
        'model_could_not_evaluate': stats['model_none'],
    })
    ctx.assumptions += ['a falsy explicit namespace counts as omitted (the library-wide convention '
                        '`namespace or …`, also applied by the server and client themselves)',
                        'what an omitted optional argument other than namespace defaults to is not compared '
                        'by the oracle (quantifier of the property); the correspondence does compare it',
                        'parameters the underlying method does not have (ClientNamespace.send(room=)) are '
                        'outside the claim']


def replay(ctx, r):
    rep = r.get('replay', r)
    print(json.dumps(r, indent=1, default=str)[:3000])
    if isinstance(rep, dict) and ('reg_case' in rep or 'e2e_case' in rep):
        loop = asyncio.new_event_loop()
        try:
            if 'reg_case' in rep:
                out = reg_execute(rep['reg_case'], loop)
                complaints = reg_oracle(rep['reg_case'], out)
                print('registered     :', json.dumps(out['objects'], default=str))
            else:
                out = e2e_execute(rep['e2e_case'])
                complaints = e2e_oracle(rep['e2e_case'], out)
                print('registry keys  :', out['keys'], ' .namespace:', out.get('namespace_attr'))
                print('client received:', out['packets'])
                print('handlers saw   :', out['seen'])
        finally:
            loop.close()
        print('oracle verdict :', 'holds' if not complaints else 'VIOLATED: ' + '; '.join(complaints))
        return 1 if complaints else 0
    case = rep.get('case') if isinstance(rep, dict) else None
    if not isinstance(case, dict) or 'given' not in case:
        print('no executable case in this replay (theorem / translator failure): rerun ./check C17')
        return 0
    regen.run(C.REPO)
    loop = asyncio.new_event_loop()
    try:
        obs = execute(case, loop)
    finally:
        loop.close()
    rows = C.batch('forward', [{'op': 'rows'}])[0]
    row = {(C.w2s(x['cls']), C.w2s(x['helper'])): x for x in rows}.get((case['cls'], case['helper']))
    print('call           :', describe(case)['call'])
    print('reached stub   :', obs['stub'].calls, 'exception:', obs['exc'])
    if row is not None:
        op, tk = model_op(case, obs, row)
        if obs['bound']:
            for v in obs['bound'].values():
                tk.tok(v)
        op['truthy'] = tk.truthy()
        ans = C.batch('forward', [op])[0]
        print('model eval     :', model_call(ans['eval']), ' faithful row:', ans['faithful'])
        print('observed       :', observed_call(case, obs, tk, row))
    complaints = oracle(case, obs)
    print('oracle verdict :', 'holds' if not complaints else 'VIOLATED: ' + '; '.join(complaints))
    return 1 if complaints else 0
