"""Seeded generators shared by the property modules.  Every choice comes from the rng passed in."""
import math

STR_POOL = ['', 'a', 'hello', 'connect', '0', '12', '-', ',', '/', '?', '"', '\\', '\n', '\x00', '\x7f',
            'é', '€', '\U0001f600', '٣', '²', '_placeholder', 'num', ' ', '[', '{', 'null', 'true',
            ' ', '퟿', '', '￿', '\U00010000', '\U0010ffff', '\t\r\b\x0c']
KEY_POOL = ['a', 'b', 'k', 'key', 'num', '', 'é', '\U0001f600', '0', 'x-y', 'data', 'sid', 'method']


def gen_str(rng, pool=STR_POOL):
    r = rng.random()
    if r < 0.5:
        return rng.choice(pool)
    if r < 0.8:
        return ''.join(rng.choice(pool) for _ in range(rng.randint(0, 3)))
    n = rng.randint(0, 8)
    out = []
    for _ in range(n):
        k = rng.random()
        if k < 0.6:
            out.append(chr(rng.randint(32, 126)))
        elif k < 0.7:
            out.append(chr(rng.randint(0, 31)))
        elif k < 0.85:
            c = rng.randint(128, 0xffff)
            if 0xd800 <= c <= 0xdfff:
                c = 0xe9
            out.append(chr(c))
        else:
            out.append(chr(rng.randint(0x10000, 0x10ffff)))
    return ''.join(out)


def gen_bytes(rng):
    r = rng.random()
    if r < 0.2:
        return b''
    if r < 0.5:
        return bytes([rng.randint(0, 255)])
    return bytes(rng.randint(0, 255) for _ in range(rng.randint(2, 12)))


def gen_int(rng, bits64=True):
    r = rng.random()
    if r < 0.4:
        return rng.randint(-3, 12)
    if r < 0.7:
        return rng.choice([0, 1, -1, 255, 256, 2**31 - 1, -2**31, 2**53, 2**63 - 1, -2**63, 10**9, 99, 100])
    if bits64:
        return rng.randint(-2**63, 2**63 - 1)
    return rng.choice([1, -1]) * rng.randint(0, 10**rng.randint(1, 60))


def gen_float(rng):
    r = rng.random()
    if r < 0.3:
        return rng.choice([0.0, -0.0, 1.5, -2.25, 1e100, 1e-7, 3.141592653589793, 0.1, 1e16, 123456789.125])
    if r < 0.6:
        return rng.randint(-1000, 1000) / 8.0
    return rng.uniform(-1e6, 1e6)


def gen_value(rng, depth=3, bytes_p=0.15, scalars_only=False, floats=True, bits64=True):
    """JSON-compatible tree with bytes leaves."""
    r = rng.random()
    if depth <= 0 or scalars_only or r < 0.45:
        k = rng.random()
        if k < bytes_p:
            return gen_bytes(rng)
        if k < 0.25:
            return None
        if k < 0.35:
            return rng.random() < 0.5
        if k < 0.55:
            return gen_int(rng, bits64)
        if k < 0.65 and floats:
            return gen_float(rng)
        return gen_str(rng)
    if r < 0.72:
        return [gen_value(rng, depth - 1, bytes_p, False, floats, bits64) for _ in range(rng.randint(0, 4))]
    d = {}
    for _ in range(rng.randint(0, 4)):
        k = rng.choice(KEY_POOL) if rng.random() < 0.7 else gen_str(rng)
        if k == '_placeholder':
            k = 'placeholder'
        d[k] = gen_value(rng, depth - 1, bytes_p, False, floats, bits64)
    return d


def has_bytes(v):
    if isinstance(v, (bytes, bytearray)):
        return True
    if isinstance(v, (list, tuple)):
        return any(has_bytes(x) for x in v)
    if isinstance(v, dict):
        return any(has_bytes(x) for x in v.values())
    return False


def bytes_depth(v, d=0):
    """max depth at which a bytes leaf occurs (-1 if none)"""
    if isinstance(v, (bytes, bytearray)):
        return d
    if isinstance(v, (list, tuple)):
        return max([bytes_depth(x, d + 1) for x in v] + [-1])
    if isinstance(v, dict):
        return max([bytes_depth(x, d + 1) for x in v.values()] + [-1])
    return -1


NS_POOL = ['/', '/foo', '/a', '/b', '/chat', '/a/b', '/1', '/12-3', '/-', '/x?y=1', '/?q', '/é', '/\U0001f600',
           '/a b', '/[', '/0', '/a-1', '/٣', '/chat?next=/login?again=1', '/a??', '/?a?b?c', '/x?']


def gen_namespace(rng, allow_none=True):
    r = rng.random()
    if allow_none and r < 0.2:
        return None
    if r < 0.75:
        return rng.choice(NS_POOL)
    s = gen_str(rng).replace(',', ';')
    return '/' + s


def gen_id(rng):
    r = rng.random()
    if r < 0.3:
        return None
    if r < 0.55:
        return rng.randint(0, 9)
    if r < 0.8:
        return rng.randint(10, 10**6)
    if r < 0.9:
        return rng.choice([10**99, 10**100 - 1, 10**98 + 7, 2**64])
    return rng.randint(0, 10**rng.randint(1, 100) - 1)


EVENT_NAMES = ['msg', 'my event', 'a', 'foo', 'bar', 'é', 'message', '0', '1x', 'x' * 30, '\U0001f600', '']


def gen_event_name(rng):
    if rng.random() < 0.8:
        return rng.choice(EVENT_NAMES)
    s = gen_str(rng)
    return s if s not in ('connect', 'disconnect', 'connect_error') else 'evt'
