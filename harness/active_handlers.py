"""Active handlers (C03) — the rooms API called from INSIDE the application's handlers.

The histories of harness/props/c03.py call the server API only between inputs.  Applications call it from their
connect / event / disconnect handlers (the usual place to look up `rooms(sid)` is the client's own disconnect
handler), and — on asyncio — from other tasks while a coroutine handler of the client is suspended.  Here the real
`socketio.Server` / `socketio.AsyncServer` (harness.world.ServerWorld: real engine.io core, in-memory transports)
get application handlers — functions or class-based `Namespace`s — that, when the server invokes them, perform a
scripted list of API calls and record the results:

    rooms(sid)   of the client being handled and of others      enter_room / leave_room      close_room
    emit(to=room | [rooms] | None, skip_sid=...)

`in`     calls are made inside the handler;
`parked` calls are made, on asyncio, from ANOTHER task while the coroutine handler is suspended on a harness-owned
         future (the loop is run to quiescence, the calls are made, the future is released: no wall clock); on the
         threaded server they are made inside the handler after the `in` calls (same state, same requirement).

Judged by the statement of C03 read AT THE MOMENT OF THE CALL on the dict-of-sets oracle of c03.py (`Book`):
  * the session is a member of its personal room from the moment its connect handler is invoked (`connect` is applied
    to the Book before the handler's calls);
  * while the disconnect handler of S runs — client DISCONNECT, disconnect(), loss of the transport — S is still a
    member of everything it entered and has not left ("the client data structures are present while the disconnect
    handler is invoked"): `disconnect` is applied to the Book AFTER the handler's calls.  An emit issued then reaches
    every OTHER addressed member exactly once; S itself (its session is ending, its transport may be gone) at most
    as often as a member would be: not constrained from below;
  * after the handler returned S is in no room.
The order in which the sessions of one lost transport are ended is taken from what the server did (the property
does not fix it).  Oracle only: the Lean rooms model (Sio.Rooms) has no notion of "inside a handler".
"""
import asyncio
import collections
import copy
import json

from . import common as C
from . import world as W

import socketio

EVENT = 'ah'            # what the scripted emits send
ACT = 'act'             # what a client sends to have its event handler invoked
NSS = ['/', '/a']
ROOMS = ['r1', 'r2', 'lobby']
HANDLER_OF = {'connect': 'connect', 'event': 'event', 'cdisc': 'disconnect', 'sdisc': 'disconnect', 'lose': 'disconnect'}


def K():
    from .props import c03
    return c03


# ---------------------------------------------------------------- generator

def gen_scenario(rng):
    """-> {'served', 'style', 'ops'}; the generator keeps its own Book so that the calls it scripts are about rooms that
    have members and sessions that exist at that point"""
    k = K()
    served = ['/'] if rng.random() < 0.55 else list(NSS)
    style = 'class' if rng.random() < 0.3 else 'function'
    book = k.Book(served)
    ops = []
    n_tr = rng.choice([2, 3, 3, 4])
    counter = [0]

    def a_room(ns, sid=None, p_mine=0.7):
        """a room spec; with `sid`: preferably one that session is in"""
        mine = [r for r, m in book.mem[ns].items() if sid is not None and sid in m]
        used = [r for r, m in book.mem[ns].items() if m]
        pool = mine if (mine and rng.random() < p_mine) else (used if used and rng.random() < 0.5 else None)
        if pool:
            r = rng.choice(pool)
            if r in ROOMS:
                return {'r': r}
            if r.startswith('#'):
                return {'i': int(r[1:])}
            return {'s': r}
        return {'r': rng.choice(ROOMS[:2] if rng.random() < 0.8 else ROOMS)}

    def others(ns, sid, not_on=None):
        return [s for s, t in book.conn[ns].items() if s != sid and t != not_on]

    def gen_call(ns, sid, tid, kind, ending_t=None):
        """one call made on behalf of session `sid` of `ns` (transport `tid`); `ending_t`: the transport that is being
        lost (its other sessions may already be gone: never the target of enter_room)"""
        x = rng.random()
        cns = ns
        if len(served) > 1 and rng.random() < 0.12:
            cns = rng.choice([n for n in served if n != ns])
        me = sid if cns == ns else (book.tsid(cns, tid) if ending_t is None else None)
        oth = others(cns, me, not_on=ending_t)
        if x < 0.30:
            who = me if (me is not None and rng.random() < 0.75) else (rng.choice(oth) if oth else me)
            if who is None:
                who = sid
                cns = ns
            return {'c': 'rooms', 'ns': cns, 'sid': who}
        if x < 0.62:
            y = rng.random()
            if y < 0.65 or me is None:
                to = a_room(cns, me)
            elif y < 0.75:
                to = {'s': me}
            elif y < 0.85:
                to = None
            else:
                to = {'list': [a_room(cns, me), a_room(cns, me, 0.3)]}
            z = rng.random()
            if z < 0.45 and me is not None:
                skip = {'one': me}
            elif z < 0.85:
                skip = None
            else:
                skip = {'many': [s for s in ([me] if me else []) + oth[:1]]}
            return {'c': 'emit', 'ns': cns, 'to': to, 'skip': skip}
        if x < 0.80:
            who = me if (me is not None and rng.random() < 0.7) else (rng.choice(oth) if oth else me)
            if who is None:
                return {'c': 'rooms', 'ns': ns, 'sid': sid}
            return {'c': 'enter', 'ns': cns, 'sid': who, 'room': a_room(cns, None)}
        if x < 0.93:
            who = me if (me is not None and rng.random() < 0.7) else (rng.choice(oth) if oth else me)
            if who is None:
                return {'c': 'rooms', 'ns': ns, 'sid': sid}
            return {'c': 'leave', 'ns': cns, 'sid': who, 'room': a_room(cns, who, 0.85)}
        return {'c': 'close', 'ns': cns, 'room': a_room(cns, me, 0.5)}

    def gen_script(ns, sid, tid, kind, ending_t=None):
        """calls for one handler invocation; applied to the generator's Book as they are generated"""
        out = {'in': [], 'parked': []}
        n = rng.choice([1, 2, 2, 3, 3, 4, 5])
        if kind == 'disconnect':
            # what applications do there: look the rooms up, tell them
            out['in'].append({'c': 'rooms', 'ns': ns, 'sid': sid})
        for _ in range(n):
            c = gen_call(ns, sid, tid, kind, ending_t)
            call_step(book, c)
            out['in' if rng.random() < 0.7 else 'parked'].append(c)
        if rng.random() < 0.6:
            c = {'c': 'rooms', 'ns': ns, 'sid': sid}
            out['parked' if (out['parked'] or rng.random() < 0.3) else 'in'].append(c)
        return out

    def push(op):
        ops.append(op)

    def do_connect(t, ns):
        name = 's%d' % counter[0]
        counter[0] += 1
        ok = book.can_connect(ns, t)
        op = {'op': 'connect', 't': t, 'ns': ns, 'name': name, 'h': {}}
        if ok:
            book.connect(ns, t, name)
            op['h'][ns] = gen_script(ns, name, t, 'connect') if rng.random() < 0.7 else {'in': [], 'parked': []}
        push(op)

    def outside(ns):
        live = list(book.conn[ns])
        if not live:
            return
        sid = rng.choice(live)
        c = gen_call(ns, sid, book.conn[ns][sid], 'outside')
        call_step(book, c)
        push({'op': 'api', 'call': c})

    for i in range(n_tr):
        t = 't%d' % i
        book.alive.append(t)
        push({'op': 'open', 't': t})
        for ns in served:
            if ns == served[0] or rng.random() < 0.6:
                do_connect(t, ns)
    # rooms with several members
    for _ in range(rng.randint(3, 9)):
        ns = served[0] if rng.random() < 0.7 else rng.choice(served)
        live = list(book.conn[ns])
        if live:
            c = {'c': 'enter', 'ns': ns, 'sid': rng.choice(live), 'room': {'r': rng.choice(ROOMS[:2] + ROOMS)}}
            call_step(book, c)
            push({'op': 'api', 'call': c})
    n_more = rng.randint(3, 10)
    for _ in range(n_more):
        x = rng.random()
        if not book.alive:
            break
        t = rng.choice(book.alive)
        here = [ns for ns in served if book.tsid(ns, t) is not None]
        if x < 0.22 and here:
            ns = rng.choice(here)
            sid = book.tsid(ns, t)
            push({'op': 'event', 't': t, 'ns': ns, 'h': {ns: gen_script(ns, sid, t, 'event')}})
        elif x < 0.34:
            outside(rng.choice(served))
        elif x < 0.42:
            free = [ns for ns in served if book.tsid(ns, t) is None]
            do_connect(t, rng.choice(free or served))
        elif here:
            # the end of a session, by one of the three causes; then what is left of it
            y = rng.random()
            ns = rng.choice(here)
            sid = book.tsid(ns, t)
            before = {n: book.rooms(n, book.tsid(n, t)) for n in here}
            if y < 0.34:
                op = {'op': 'cdisc', 't': t, 'ns': ns, 'h': {ns: gen_script(ns, sid, t, 'disconnect')}}
                book.disconnect(ns, sid)
                gone = [(ns, sid)]
            elif y < 0.67:
                op = {'op': 'sdisc', 'sid': sid, 'ns': ns, 'h': {ns: gen_script(ns, sid, t, 'disconnect')}}
                book.disconnect(ns, sid)
                gone = [(ns, sid)]
            else:
                op = {'op': 'lose', 't': t, 'h': {}}
                gone = []
                for n in here:
                    s = book.tsid(n, t)
                    op['h'][n] = gen_script(n, s, t, 'disconnect', ending_t=t)
                    book.disconnect(n, s)
                    gone.append((n, s))
                book.lose(t)
            push(op)
            for (n, s) in gone:
                if rng.random() < 0.8:
                    push({'op': 'api', 'call': {'c': 'rooms', 'ns': n, 'sid': s}})
                was = [r for r in before.get(n, []) if r != s]
                if was and rng.random() < 0.6:
                    r = rng.choice(was)
                    spec = {'r': r} if r in ROOMS else ({'i': int(r[1:])} if r.startswith('#') else {'s': r})
                    push({'op': 'api', 'call': {'c': 'emit', 'ns': n, 'to': spec, 'skip': None}})
    return {'served': served, 'style': style, 'ops': ops}


# ---------------------------------------------------------------- the statement, on the Book

def call_step(book, call, loose=()):
    """apply one API call to the Book -> the answer the property requires (None: not constrained) ;
    `loose`: (transport, namespace) pairs whose session is ending right now — deliveries to them are only bounded"""
    k = K()
    c, ns = call['c'], call['ns']
    if c == 'rooms':
        return ('rooms', 'ok', book.rooms(ns, call['sid']))
    if c == 'enter':
        was = book.connected(ns, call['sid'])
        book.enter(ns, call['sid'], k.room_key(call['room']))
        return ('api', 'ok') if was else None
    if c == 'leave':
        book.leave(ns, call['sid'], k.room_key(call['room']))
        return ('api', 'ok')
    if c == 'close':
        book.close(ns, k.room_key(call['room']))
        return ('api', 'ok')
    if c == 'emit':
        exp = book.expected(ns, k.emit_rooms(call['to']), k.skip_list(call['skip']))
        return ('emit', 'ok', sorted(exp.items()))
    raise ValueError(c)


def answer_ok(req, got, loose, ns):
    if req is None:
        return True
    if req[0] != 'emit':
        return tuple(req) == tuple(got)
    if got[0] != 'emit' or got[1] != req[1]:
        return False
    want, have = dict(req[2]), dict(got[2])
    for t in set(want) | set(have):
        if (t, ns) in loose:
            if have.get(t, 0) > want.get(t, 0):
                return False
        elif have.get(t, 0) != want.get(t, 0):
            return False
    return True


def in_domain(scn):
    """transports are opened once, before use, and not used after their loss; every session name is given once;
    enter_room only of a session that is connected at that point and does not belong to a transport that is being lost
    in the same operation (except the session whose handler is running)"""
    k = K()
    book = k.Book(scn['served'])
    opened, names = set(), set()
    for op in scn['ops']:
        kind = op['op']
        if kind == 'open':
            if op['t'] in opened:
                return False
            opened.add(op['t'])
            book.alive.append(op['t'])
            continue
        if 't' in op and op['t'] not in book.alive:
            return False
        if op.get('ns', '/') not in scn['served']:
            return False
        calls = []          # (call, session being handled, transport being lost)
        if kind == 'api':
            calls.append((op['call'], None, None))
        end = []
        if kind == 'connect':
            if op['name'] in names:
                return False
            names.add(op['name'])
            if book.can_connect(op['ns'], op['t']):
                book.connect(op['ns'], op['t'], op['name'])
        elif kind == 'cdisc':
            s = book.tsid(op['ns'], op['t'])
            if s is not None:
                end.append((op['ns'], s))
        elif kind == 'sdisc':
            if book.connected(op['ns'], op['sid']):
                end.append((op['ns'], op['sid']))
        elif kind == 'lose':
            for n in scn['served']:
                s = book.tsid(n, op['t'])
                if s is not None:
                    end.append((n, s))
        for n, h in (op.get('h') or {}).items():
            if n not in scn['served']:
                return False
            s = book.tsid(n, op['t']) if 't' in op else op.get('sid')
            for c in h['in'] + h['parked']:
                calls.append((c, (n, s), op['t'] if kind == 'lose' else None))
        for c, mine, losing in calls:
            if c['ns'] not in scn['served']:
                return False
            if c['c'] == 'enter':
                if not book.connected(c['ns'], c['sid']):
                    return False
                if losing is not None and book.conn[c['ns']].get(c['sid']) == losing and (c['ns'], c['sid']) != mine:
                    return False
            call_step(book, c)
        for n, s in end:
            book.disconnect(n, s)
        if kind == 'lose':
            book.lose(op['t'])
    return True


def oracle_failures(scn, real, family=None):
    """the property, read at the moment of every call, against what the real server answered"""
    k = K()
    book = k.Book(scn['served'])
    bad = []

    def calls_of(i, op, ns, inv, loose):
        h = (op.get('h') or {}).get(ns) or {'in': [], 'parked': []}
        calls = h['in'] + h['parked']
        if len(inv['calls']) != len(calls):
            bad.append((i, 'op %s: the %s handler of %s on %s made %d of its %d scripted calls'
                        % (json.dumps(op), inv['kind'], inv['sid'], ns, len(inv['calls']), len(calls))))
        for j, (c, got) in enumerate(zip(calls, inv['calls'])):
            req = call_step(book, c, loose)
            if not answer_ok(req, got, loose, c['ns']):
                where = 'inside' if (j < len(h['in']) or family == 'threading') else 'from another task, while suspended in'
                bad.append((i, '%s the %s handler of %s on %s (%s), call %s: property requires %r, implementation gave %r'
                            % (where, inv['kind'], inv['sid'], ns, op['op'], json.dumps(c), req, got)))

    def expect_invocations(i, op, rec, want):
        got = [(v['kind'], v['ns'], v['sid']) for v in rec['invocations']]
        if sorted(got) != sorted(want):
            bad.append((i, 'op %s: handler invocations %r, required %r' % (json.dumps(op), got, want)))
            return False
        return True

    for i, (op, rec) in enumerate(zip(scn['ops'], real)):
        kind = op['op']
        if rec.get('stray'):
            bad.append((i, 'op %s: frames nobody should have received: %r' % (json.dumps(op), rec['stray'][:4])))
        if kind == 'open':
            book.alive.append(op['t'])
        elif kind == 'api':
            req = call_step(book, op['call'])
            if not answer_ok(req, rec['api'], (), op['call']['ns']):
                bad.append((i, 'call %s outside any handler: property requires %r, implementation gave %r'
                            % (json.dumps(op['call']), req, rec['api'])))
        elif kind == 'connect':
            ns, t = op['ns'], op['t']
            if book.can_connect(ns, t):
                book.connect(ns, t, op['name'])
                if rec['answer'] != ('connect', 'ok'):
                    bad.append((i, 'op %s: CONNECT answered %r' % (json.dumps(op), rec['answer'])))
                if expect_invocations(i, op, rec, [('connect', ns, op['name'])]):
                    calls_of(i, op, ns, rec['invocations'][0], ())
            else:
                expect_invocations(i, op, rec, [])
                if rec['answer'] != ('connect', 'refused'):
                    bad.append((i, 'op %s: repeated CONNECT answered %r' % (json.dumps(op), rec['answer'])))
        elif kind == 'event':
            sid = book.tsid(op['ns'], op['t'])
            if sid is None:
                expect_invocations(i, op, rec, [])
            elif expect_invocations(i, op, rec, [('event', op['ns'], sid)]):
                calls_of(i, op, op['ns'], rec['invocations'][0], ())
        elif kind in ('cdisc', 'sdisc'):
            ns = op['ns']
            if kind == 'cdisc':
                sid, tid = book.tsid(ns, op['t']), op['t']
            else:
                sid = op['sid'] if book.connected(ns, op['sid']) else None
                tid = book.conn[ns].get(op['sid'])
            if sid is None:
                expect_invocations(i, op, rec, [])
            else:
                if expect_invocations(i, op, rec, [('disconnect', ns, sid)]):
                    calls_of(i, op, ns, rec['invocations'][0], {(tid, ns)})
                book.disconnect(ns, sid)
                if kind == 'sdisc' and rec['answer'] != ('sdisc', 'ok', tid):
                    bad.append((i, 'op %s: DISCONNECT packets went to %r, required: one, to %s' % (json.dumps(op), rec['answer'], tid)))
        elif kind == 'lose':
            t = op['t']
            want = [('disconnect', n, book.tsid(n, t)) for n in scn['served'] if book.tsid(n, t) is not None]
            loose = {(t, n) for n in scn['served']}
            if expect_invocations(i, op, rec, want):
                for inv in rec['invocations']:          # in the order the server ended them
                    calls_of(i, op, inv['ns'], inv, loose)
                    book.disconnect(inv['ns'], inv['sid'])
            book.lose(t)
    return bad


# ---------------------------------------------------------------- the real servers

class ActiveWorld:
    def __init__(self, family, scn):
        k = K()
        self.k = k
        self.scn = scn
        self.w = W.ServerWorld(family, namespaces=list(scn['served']))
        self.is_async = self.w.is_async
        self.loop = self.w.loop
        self.names = k.Names()
        self.tids = []
        self.op = None
        self.rec = None
        self.parked = []
        self.errors = []
        self.uid = 0
        self.pending_emits = {}      # uid -> (list holding the answer, index, ns)
        for ns in scn['served']:
            if scn.get('style') == 'class':
                self._install_class(ns)
            else:
                self._install_functions(ns)

    # ---- handlers
    def _install_functions(self, ns):
        me, sio = self, self.w.sio
        if self.is_async:
            async def on_connect(sid, environ):
                await me._ainvoke('connect', ns, sid, None)

            async def on_disconnect(sid, reason):
                await me._ainvoke('disconnect', ns, sid, None)

            async def on_act(sid, *a):
                await me._ainvoke('event', ns, sid, None)
        else:
            def on_connect(sid, environ):
                me._invoke('connect', ns, sid, None)

            def on_disconnect(sid, reason):
                me._invoke('disconnect', ns, sid, None)

            def on_act(sid, *a):
                me._invoke('event', ns, sid, None)
        sio.on('connect', on_connect, namespace=ns)
        sio.on('disconnect', on_disconnect, namespace=ns)
        sio.on(ACT, on_act, namespace=ns)

    def _install_class(self, ns):
        me = self
        if self.is_async:
            class NS(socketio.AsyncNamespace):
                async def on_connect(self, sid, environ):
                    await me._ainvoke('connect', ns, sid, self)

                async def on_disconnect(self, sid, reason):
                    await me._ainvoke('disconnect', ns, sid, self)

                async def on_act(self, sid, *a):
                    await me._ainvoke('event', ns, sid, self)
        else:
            class NS(socketio.Namespace):
                def on_connect(self, sid, environ):
                    me._invoke('connect', ns, sid, self)

                def on_disconnect(self, sid, reason):
                    me._invoke('disconnect', ns, sid, self)

                def on_act(self, sid, *a):
                    me._invoke('event', ns, sid, self)
        self.w.sio.register_namespace(NS(ns))

    def _enter(self, kind, ns, sid):
        op = self.op or {}
        if kind == 'connect' and op.get('op') == 'connect' and op.get('name') and op.get('ns') == ns:
            self.names.bind(op['name'], sid)
        h = {'in': [], 'parked': []}
        if HANDLER_OF.get(op.get('op')) == kind:
            h = (op.get('h') or {}).get(ns) or h
        inv = {'kind': kind, 'ns': ns, 'sid': self.names.name.get(sid, '?'), 'calls': []}
        self.rec['invocations'].append(inv)
        return inv, h

    def _invoke(self, kind, ns, sid, nsobj):
        try:
            inv, h = self._enter(kind, ns, sid)
            for c in h['in'] + h['parked']:
                fn, a, kw = self._prep(c, ns, nsobj, inv['calls'])
                inv['calls'].append(self._answer(c, self._guard(fn, a, kw)))
        except Exception as ex:      # noqa  (a defect of the harness must not be swallowed by engine.io's containment)
            self.errors.append(repr(ex))

    async def _ainvoke(self, kind, ns, sid, nsobj):
        try:
            inv, h = self._enter(kind, ns, sid)
            for c in h['in']:
                fn, a, kw = self._prep(c, ns, nsobj, inv['calls'])
                inv['calls'].append(self._answer(c, await self._aguard(fn, a, kw)))
            if h['parked']:
                fut = self.loop.create_future()
                self.parked.append((inv, h['parked'], fut))
                await fut
        except Exception as ex:      # noqa
            self.errors.append(repr(ex))

    # ---- one scripted call
    def _prep(self, c, hns, nsobj, sink):
        """-> (callable, args, kwargs).  Class-based handlers use the Namespace's own methods for their own namespace."""
        names = self.names
        own = nsobj is not None and c['ns'] == hns
        target = nsobj if own else self.w.sio
        kw = {} if own else {'namespace': c['ns']}
        what = c['c']
        if what == 'rooms':
            return target.rooms, (names.sid(c['sid']),), kw
        if what == 'enter':
            return target.enter_room, (names.sid(c['sid']), names.room(c['room'])), kw
        if what == 'leave':
            return target.leave_room, (names.sid(c['sid']), names.room(c['room'])), kw
        if what == 'close':
            return target.close_room, (names.room(c['room']),), kw
        if what == 'emit':
            to = c['to']
            if to is None:
                tgt = None
            elif 'list' in to:
                tgt = [names.room(r) for r in to['list']]
            else:
                tgt = names.room(to)
            sk = c['skip']
            skip = None if sk is None else (names.sid(sk['one']) if 'one' in sk else [names.sid(x) for x in sk['many']])
            self.uid += 1
            self.pending_emits[self.uid] = (sink, len(sink), c['ns'])
            kw = dict(kw, to=tgt, skip_sid=skip)
            return target.emit, (EVENT, self.uid), kw
        raise ValueError(what)

    @staticmethod
    def _guard(fn, a, kw):
        try:
            return ('ok', fn(*a, **kw))
        except Exception as ex:      # noqa
            return ('exc', type(ex).__name__)

    @staticmethod
    async def _aguard(fn, a, kw):
        try:
            r = fn(*a, **kw)
            if asyncio.iscoroutine(r):
                r = await r
            return ('ok', r)
        except Exception as ex:      # noqa
            return ('exc', type(ex).__name__)

    def _answer(self, c, res):
        status = 'ok' if res[0] == 'ok' else res[1]
        if c['c'] == 'rooms':
            if res[0] == 'ok':
                return ('rooms', 'ok', sorted(self.names.room_back(r) for r in res[1]))
            return ('rooms', status, [])
        if c['c'] == 'emit':
            return ('emit', status, [])         # deliveries are filled in when the operation is over
        return ('api', status)

    # ---- driving
    def _quiesce(self):
        loop = self.loop
        for _ in range(10000):
            loop.call_soon(loop.stop)
            loop.run_forever()
            if not loop._ready:
                return
        raise C.Infra('active handlers: the event loop does not reach quiescence')

    def _drive(self, fn, *a, **kw):
        """run one server entry point to its end -> ('ok', value) | ('exc', class).  asyncio: as a task; whenever the loop
        is quiescent and a handler is parked, its `parked` calls are made from here (another task), then it is released"""
        if not self.is_async:
            return self.w.run(fn, *a, **kw)

        async def body():
            r = fn(*a, **kw)
            if asyncio.iscoroutine(r):
                r = await r
            return r
        task = self.loop.create_task(body())
        for _ in range(1000):
            self._quiesce()
            if self.parked:
                inv, calls, fut = self.parked.pop(0)
                for c in calls:
                    fn2, a2, kw2 = self._prep(c, inv['ns'], None, inv['calls'])
                    res = self.loop.run_until_complete(self._aguard(fn2, a2, kw2))
                    inv['calls'].append(self._answer(c, res))
                fut.set_result(None)
                continue
            if task.done():
                break
            raise C.Infra('active handlers: a server entry point is suspended on something the harness does not own')
        try:
            return ('ok', task.result())
        except Exception as ex:      # noqa
            return ('exc', type(ex).__name__)

    def step(self, op):
        k, w = self.k, self.w
        self.op = op
        self.rec = rec = {'invocations': [], 'api': None, 'answer': None, 'stray': []}
        kind = op['op']
        res = ('ok', None)
        if kind == 'open':
            res = w.open(op['t'])
            self.tids.append(op['t'])
        elif kind in ('connect', 'event', 'cdisc'):
            head = {'connect': '0', 'event': '2', 'cdisc': '1'}[kind]
            text = head + ('' if op['ns'] == '/' else op['ns'] + ',') + ('["%s"]' % ACT if kind == 'event' else '')
            sock = w.socks[op['t']]
            from engineio import packet as eio_packet
            res = self._drive(sock.receive, eio_packet.Packet(eio_packet.MESSAGE, text))
        elif kind == 'sdisc':
            res = self._drive(w.sio.disconnect, self.names.sid(op['sid']), namespace=op['ns'])
        elif kind == 'lose':
            res = self._drive(w.socks[op['t']].close, wait=False, abort=True, reason=w.eio.reason.TRANSPORT_CLOSE)
        elif kind == 'api':
            sink = []
            fn, a, kw = self._prep(op['call'], None, None, sink)
            if self.is_async:
                r = self.loop.run_until_complete(self._aguard(fn, a, kw))
            else:
                r = self._guard(fn, a, kw)
            sink.append(self._answer(op['call'], r))
        else:
            raise ValueError(kind)
        w.settle()
        if self.errors:
            raise C.Infra('active handlers: the scripted handler itself failed: %s' % self.errors[:2])
        status = 'ok' if res[0] == 'ok' else res[1]
        # what the transports got
        deliv = collections.defaultdict(collections.Counter)
        connects, discs = [], []
        for t in self.tids:
            for f in k.classify(w.sent(t), self.names):
                if f[0] == 'event' and isinstance(f[2], list) and len(f[2]) == 2 and f[2][0] == EVENT \
                        and f[2][1] in self.pending_emits and self.pending_emits[f[2][1]][2] == f[1]:
                    deliv[f[2][1]][t] += 1
                elif kind == 'connect' and f[0] in ('connect', 'refused') and f[1] == op['ns'] and t == op['t']:
                    connects.append(f)
                elif kind == 'sdisc' and f[0] == 'disconnect' and f[1] == op['ns']:
                    discs.append(t)
                else:
                    rec['stray'].append((t,) + tuple(f[:2]) + (repr(f[2])[:60],))
        for uid, (sink, idx, _ns) in self.pending_emits.items():
            if idx < len(sink) and sink[idx][0] == 'emit':
                sink[idx] = ('emit', sink[idx][1], sorted(deliv.get(uid, {}).items()))
        self.pending_emits = {}
        if kind == 'api':
            rec['api'] = sink[0]
        elif kind == 'connect':
            if status != 'ok':
                rec['answer'] = ('connect', status)
            elif len(connects) == 1:
                rec['answer'] = ('connect', 'ok' if connects[0][0] == 'connect' else 'refused')
            else:
                rec['answer'] = ('connect', 'answers:%d' % len(connects))
        elif kind == 'sdisc':
            rec['answer'] = ('sdisc', status, discs[0] if len(discs) == 1 else (None if not discs else discs))
        elif status != 'ok':
            rec['answer'] = (kind, status)
        return rec

    def close(self):
        self.w.close()


def run_real(family, scn):
    aw = ActiveWorld(family, scn)
    try:
        return [aw.step(op) for op in scn['ops']]
    finally:
        aw.close()


def family_differences(scn, a, b):
    """Server and AsyncServer must give the same answers to the same scripted calls (deliveries to a session that is
    ending at that moment excepted: they are only bounded by the property)"""
    out = []
    for i, (op, ra, rb) in enumerate(zip(scn['ops'], a, b)):
        va = [(v['kind'], v['ns'], v['sid'], [x if x[0] != 'emit' else x[:2] for x in v['calls']]) for v in ra['invocations']]
        vb = [(v['kind'], v['ns'], v['sid'], [x if x[0] != 'emit' else x[:2] for x in v['calls']]) for v in rb['invocations']]
        if sorted(map(repr, va)) != sorted(map(repr, vb)) or ra['api'] != rb['api'] or ra['answer'] != rb['answer']:
            out.append((i, 'op %s: Server %r / %r / %r, AsyncServer %r / %r / %r'
                        % (json.dumps(op), va, ra['api'], ra['answer'], vb, rb['api'], rb['answer'])))
    return out


# ---------------------------------------------------------------- shrinking, statistics

def shrink(scn, still_fails, budget=200):
    """greedy: drop operations, then single scripted calls, staying inside the domain"""
    cur = copy.deepcopy(scn)
    changed = True
    while changed and budget > 0:
        changed = False
        i = len(cur['ops']) - 1
        while i >= 0 and budget > 0:
            cand = dict(cur, ops=cur['ops'][:i] + cur['ops'][i + 1:])
            if cand['ops'] and in_domain(cand):
                budget -= 1
                if still_fails(cand):
                    cur = cand
                    changed = True
            i -= 1
        for i in range(len(cur['ops'])):
            for ns in list((cur['ops'][i].get('h') or {})):
                for part in ('in', 'parked'):
                    j = len(cur['ops'][i]['h'][ns][part]) - 1
                    while j >= 0 and budget > 0:
                        cand = copy.deepcopy(cur)
                        del cand['ops'][i]['h'][ns][part][j]
                        if in_domain(cand):
                            budget -= 1
                            if still_fails(cand):
                                cur = cand
                                changed = True
                        j -= 1
    return cur


def stats(ctx, scn, real):
    """what the scenario exercised (threading run), into the distribution of the evidence"""
    for op, rec in zip(scn['ops'], real):
        ctx.count('active.op.' + op['op'])
        for inv in rec['invocations']:
            h = (op.get('h') or {}).get(inv['ns']) or {'in': [], 'parked': []}
            cause = op['op'] if inv['kind'] == 'disconnect' else inv['kind']
            for part in ('in', 'parked'):
                for c in h[part]:
                    own = c.get('sid') == inv['sid']
                    ctx.count('active.%s.%s.%s%s' % (cause, part, c['c'], '.own' if (c['c'] == 'rooms' and own) else ''))
    return None


def summary(scn, real):
    """-> (calls made inside disconnect handlers, of which rooms(S) of the session being ended with >= 2 rooms,
    emits from inside a disconnect handler to a room the ending session is in that reached >= 1 other member)"""
    n_calls = n_rooms = n_emits = 0
    for op, rec in zip(scn['ops'], real):
        for inv in rec['invocations']:
            if inv['kind'] != 'disconnect':
                continue
            h = (op.get('h') or {}).get(inv['ns']) or {'in': [], 'parked': []}
            for c, got in zip(h['in'] + h['parked'], inv['calls']):
                n_calls += 1
                if c['c'] == 'rooms' and c['sid'] == inv['sid'] and len(got[2]) >= 2:
                    n_rooms += 1
                if c['c'] == 'emit' and got[0] == 'emit' and len(got[2]) >= 1:
                    n_emits += 1
    return n_calls, n_rooms, n_emits
