"""Real socketio servers over their real engine.io cores, with in-memory transports.

No mocks: `socketio.Server` / `AsyncServer` own a real `engineio.Server` / `AsyncServer`; for each
transport a real `engineio.socket.Socket` is inserted into `eio.sockets` and never attached to
HTTP/WebSocket.  Incoming frames go through `socket.receive(engineio.packet.Packet(MESSAGE, data))`
(so engine.io's `_trigger_event` containment, `generate_id`, sessions ... are the real ones),
outgoing frames are read from `socket.queue`, transport loss is
`socket.close(wait=False, abort=True, reason=...)`.

The same synchronous API drives both families; for asyncio every call is run to completion on a
private event loop.  Background handlers (`async_handlers=True`) are queued and run when the
current input has been processed ("background handlers joined before comparison").
"""
import asyncio
import logging

from . import common  # noqa: F401  (puts /repo/src on sys.path)

import engineio
from engineio import packet as eio_packet
import socketio

logging.getLogger('engineio.server').setLevel(logging.CRITICAL)
logging.getLogger('socketio.server').setLevel(logging.CRITICAL)
logging.getLogger('socketio').setLevel(logging.CRITICAL)
logging.getLogger('engineio.client').setLevel(logging.CRITICAL)
logging.getLogger('socketio.client').setLevel(logging.CRITICAL)


class _Quiet(logging.Logger):
    """engine.io logs `exception()` for contained handler errors; keep the count, drop the text."""

    def __init__(self):
        super().__init__('verif-quiet', logging.CRITICAL + 1)
        self.errors = []

    def exception(self, msg, *a, **k):
        import sys
        self.errors.append((msg, type(sys.exc_info()[1]).__name__))

    def error(self, msg, *a, **k):
        pass


class HandlerError(RuntimeError):
    """What scripted application handlers raise (never TypeError: the library retries
    disconnect handlers on TypeError for legacy signatures)."""


class ServerWorld:
    def __init__(self, mode='threading', manager=None, **opts):
        self.mode = mode
        self.is_async = mode == 'asyncio'
        self.background = []
        self.trace = []           # free for the property harness
        self.escaped = []         # BaseExceptions (not Exception) that came out of a server entry point
        self.eio_log = _Quiet()
        opts.setdefault('async_handlers', False)
        if self.is_async:
            self.loop = asyncio.new_event_loop()
            self.sio = socketio.AsyncServer(async_mode='asgi', client_manager=manager,
                                            engineio_logger=self.eio_log, **opts)
        else:
            self.loop = None
            self.sio = socketio.Server(async_mode='threading', client_manager=manager,
                                       engineio_logger=self.eio_log, **opts)
        self.eio = self.sio.eio
        self.eio.start_service_task = False
        self.socks = {}
        if self.is_async:
            self.sio.start_background_task = self._bg_async
        else:
            self.sio.start_background_task = self._bg_sync
            self.eio.start_background_task = self._bg_sync

    # ---- background tasks: queued, run at quiescence
    def _bg_sync(self, target, *args, **kwargs):
        self.background.append((target, args, kwargs))

        class _T:
            def join(self_inner, timeout=None):
                return None
        return _T()

    def _bg_async(self, target, *args, **kwargs):
        # not started now: the coroutine is created and run at settle(); the caller gets a future
        fut = self.loop.create_future()
        self.background.append((target, args, kwargs, fut))
        return fut

    def settle(self):
        """Run queued background handlers to completion (in spawn order)."""
        errors = []
        while self.background:
            item = self.background.pop(0)
            if self.is_async:
                target, args, kwargs, fut = item
                try:
                    r = self.loop.run_until_complete(target(*args, **kwargs))
                    if not fut.done():
                        fut.set_result(r)
                except Exception as ex:   # noqa
                    errors.append(type(ex).__name__)
                    if not fut.done():
                        fut.set_result(None)
                except BaseException as ex:   # noqa
                    self._escaped(ex, 'background task')
                    errors.append(type(ex).__name__)
                    if not fut.done():
                        fut.set_result(None)
                self.loop.run_until_complete(asyncio.sleep(0))
            else:
                target, args, kwargs = item
                try:
                    target(*args, **kwargs)
                except Exception as ex:   # noqa
                    errors.append(type(ex).__name__)
                except BaseException as ex:   # noqa
                    self._escaped(ex, 'background task')
                    errors.append(type(ex).__name__)
        return errors

    def _escaped(self, ex, where):
        """A BaseException that is not an Exception (asyncio.CancelledError, GeneratorExit, ...) came out of a
        server entry point: the harness survives it (the residue probes must still run) and records it; the
        interpreter's own exits are passed on."""
        if isinstance(ex, (KeyboardInterrupt, SystemExit)):
            raise ex
        self.escaped.append((where, type(ex).__name__))

    # ---- running API calls
    def run(self, fn, *a, **k):
        """Call a server API (sync function or coroutine function); returns ('ok', value) or
        ('exc', class name).  Does not settle background tasks.  A BaseException (e.g. a CancelledError
        that a handler let escape and the server did not absorb) is recorded in `escaped` as well."""
        try:
            r = fn(*a, **k)
            if asyncio.iscoroutine(r):
                r = self.loop.run_until_complete(r)
            return ('ok', r)
        except Exception as ex:   # noqa
            return ('exc', type(ex).__name__)
        except BaseException as ex:   # noqa
            self._escaped(ex, getattr(fn, '__name__', 'call'))
            return ('exc', type(ex).__name__)

    def api(self, name, *a, **k):
        return self.run(getattr(self.sio, name), *a, **k)

    # ---- transports
    def open(self, tid, environ=None):
        if self.is_async:
            from engineio import async_socket
            async def mk():
                return async_socket.AsyncSocket(self.eio, tid)
            s = self.loop.run_until_complete(mk())
        else:
            from engineio import socket as eio_socket
            s = eio_socket.Socket(self.eio, tid)
        s.connected = True
        self.eio.sockets[tid] = s
        self.socks[tid] = s
        env = environ if environ is not None else {'verif.tid': tid}
        return self.run(self.eio._trigger_event, 'connect', tid, env, run_async=False)

    def recv(self, tid, data):
        """One engine.io MESSAGE from the transport (str or bytes, or any value engine.io's own
        decoder may hand up)."""
        s = self.socks[tid]
        before = len(self.eio_log.errors)
        r = self.run(s.receive, eio_packet.Packet(eio_packet.MESSAGE, data))
        contained = self.eio_log.errors[before:]
        return r, contained

    def lose(self, tid, reason=None):
        s = self.socks[tid]
        before = len(self.eio_log.errors)
        r = self.run(s.close, wait=False, abort=True,
                     reason=reason or self.eio.reason.TRANSPORT_CLOSE)
        return r, self.eio_log.errors[before:]

    def sent(self, tid):
        """Drain what was queued for the transport: list of str/bytes payloads of MESSAGE packets
        (other engine.io packet types are reported as ('eio', type))."""
        s = self.socks[tid]
        out = []
        while True:
            try:
                if self.is_async:
                    pkt = s.queue.get_nowait()
                else:
                    pkt = s.queue.get(block=False)
            except Exception:   # queue empty
                break
            if pkt is None:
                continue
            if pkt.packet_type == eio_packet.MESSAGE:
                out.append(pkt.data)
            else:
                out.append(('eio', pkt.packet_type))
        return out

    def sent_all(self):
        return {tid: self.sent(tid) for tid in list(self.socks)}

    def close(self):
        if self.loop is not None:
            try:
                pend = [t for t in asyncio.all_tasks(self.loop) if not t.done()]
                for t in pend:
                    t.cancel()
                if pend:
                    self.loop.run_until_complete(asyncio.gather(*pend, return_exceptions=True))
            finally:
                self.loop.close()


class SidNames:
    """Renames generated session ids by order of first appearance (s0, s1, ...)."""

    def __init__(self, prefix='s'):
        self.prefix = prefix
        self.fwd = {}
        self.rev = {}

    def name(self, sid):
        if sid is None:
            return None
        if sid not in self.fwd:
            n = '%s%d' % (self.prefix, len(self.fwd))
            self.fwd[sid] = n
            self.rev[n] = sid
        return self.fwd[sid]

    def real(self, name):
        return self.rev.get(name, name)

    def rename_text(self, text):
        if isinstance(text, str):
            for sid, n in self.fwd.items():
                text = text.replace(sid, n)
        return text


def decode_frames(frames, packet_class=None):
    """Group a transport's outgoing frames into socket.io packets:
    -> list of (type, namespace, id, data) with attachments reassembled."""
    from socketio import packet as sp
    cls = packet_class or sp.Packet
    out = []
    cur = None
    for f in frames:
        if isinstance(f, tuple):
            out.append(f)
            continue
        if cur is not None:
            if cur.add_attachment(f):
                out.append((cur.packet_type, cur.namespace or '/', cur.id, cur.data))
                cur = None
            continue
        p = cls(encoded_packet=f)
        if getattr(p, 'attachment_count', 0) > 0:
            cur = p
        else:
            out.append((p.packet_type, p.namespace or '/', p.id, p.data))
    if cur is not None:
        out.append(('incomplete', cur.packet_type, cur.namespace, cur.id))
    return out
